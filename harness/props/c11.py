"""C11 — Buffering grows a geometry and never leaves the valid domain."""
import copy
import itertools
import json
import math
import re
import zlib
from fractions import Fraction

from ..core import Op, jkey
from .. import history
from ..leanio import InfraError
from ..rat import rat, frac, round_once_eq, tol_eq
from .. import symx
from ..symtrace import Sym
from .. import gen_geom

PROPERTY = "C11"
LEAN_MODULE = "Proofs.C11"
_T = "SE.Proofs.C11."
THEOREMS = [_T + n for n in [
    "C11_negative_rejected", "C11_dispatch", "C11_exact", "C11_valid", "C11_contains",
    "C11_result_is_widened_extent", "C11_bounds_extend", "C11_monotone", "C11_zero_buffer",
    "C11_shapely_partial",
    "C11_pipeline_contracts_ideal", "C11_pipeline_scaling", "C11_pipeline_in_domain", "C11_pipeline_clip_is_domain",
    "C11_pipeline_contains", "C11_pipeline_covers_buffers", "C11_pipeline_exact_ideal", "C11_pipeline_monotone_ideal",
    "C11_pipeline_zero_vs_tiny_buffer", "C11_pipeline_bounds_extend",
    "C11_pipeline_probe", "C11_pipeline_bounds_extend_sides", "C11_offcap_vertex", "C11_offcap_all",
    "C11_call_binding", "C11_signature_table", "C11_history_stepwise", "C11_closed_ignores_options"]]
LEVEL_TEXT = ("Lean theorems over the model of buffer_geometry: for time stamps, intervals and boxes the result is exactly the "
              "interval / box widened by the buffers with the clamps at time 0, frequency 0 and MAX_FREQUENCY; it is valid, "
              "contains the original as a point set, is exactly the widened extent inside the domain, its bounds extend by the "
              "buffers or reach the domain edge, larger buffers give supersets, a zero buffer changes nothing, a negative buffer "
              "is rejected for every type.  The three closed-form functions (with the real validators of the constructors they "
              "call) and the guard + dispatch of buffer_geometry for all nine type tags are re-derived from the source on each "
              "run by path-exhaustive symbolic tracing and proved equal to the model for every valid geometry and all buffers.  "
              "For the six types buffered through shapely the pipeline of buffer_shapely_geometry is modelled on point sets "
              "with GEOS's buffer as a parameter: its straight-line skeleton (the two scale factors incl. the 1e9 of a zero "
              "buffer, the coordinate maps, the buffer distance, the clip rectangle) is re-derived from the source by symbolic "
              "tracing with shapely stubbed and proved equal to the model for all inputs; the C11_pipeline_* theorems prove that "
              "the result stays in the domain (unconditionally), that the clip only removes what is outside the domain, that "
              "it contains the original (if GEOS's buffer contains its input), that it contains everything within rho buffer "
              "widths of the original and its bounds extend by rho buffers or reach the domain edge (if GEOS's buffer contains "
              "the rho-disc around every input point), and - for the exact unit buffer - that the result is exactly the "
              "elliptical neighbourhood inside the domain and that larger buffers give supersets except a zero buffer against "
              "a positive one below 1e-9 (proved to fail; a known finding).  The bounds are also derived side by side "
              "(C11_pipeline_bounds_extend_sides) from one probe point per side in GEOS's buffer, so that a side whose extreme "
              "no open line end attains or comes near (offCap; C11_offcap_vertex, C11_offcap_all) is judged up to offset-curve "
              "noise (1e-5 of the buffer) and only sides at an open line end with the round-cap allowance.  How the two buffers "
              "bind for every way of writing the call (positional, keyword in either order, mixed, omitted) is proved of the "
              "signature table (C11_call_binding, C11_signature_table; the table is regenerated from inspect.signature on each "
              "run), and a session of calls is the list of its calls' models whatever options for shapely.buffer earlier calls "
              "carried (C11_history_stepwise, C11_closed_ignores_options).  The property stays PARTIAL for these six types: "
              "GEOS's buffer itself is not modelled; its contracts are evaluated on GEOS's actual output in every run, and "
              "validator, bounds post-condition (C11_shapely_partial), containment and superset are monitored on the result.")
LEVEL_NOTE = ("Trusted: Lean kernel, symbolic tracer (ordered-field semantics; the nine geometry classes replaced by stubs that "
              "run TimeInterval's / BoundingBox's own field validators on symbolic coordinates; in the pipeline trace shapely, "
              "json and the coordinate arrays are replaced by symbolic stand-ins that see a shape through a generic point and "
              "its bounding box).  Unmodelled: GEOS's buffer (offset curves, round caps as 32-gons, mitre joins, input "
              "simplification) and clip_by_rect as polygon algorithms, binary64 rounding inside the pipeline: the theorems "
              "assume `Extensive`, `CoversDisc rho`, `IsMaxTime`, evaluated per call on what GEOS returned (rho = 0.98 at probe "
              "points around the vertices) for inputs outside the known-finding classes; containment / superset by shapely "
              "`covers` (an oracle outside Lean, applied to geometries shapely builds from the JSON coordinates, not to "
              "soundevent's converters); the probe hypotheses of C11_pipeline_bounds_extend_sides are evaluated at rho = "
              "1 - 2e-5 / 0.995 on GEOS's buffer; six classes of failures of the pipeline are recorded as known findings (the "
              "round-cap one now only for sides at an open line end).  Histories are sequences of calls in one process judged "
              "call by call; a failing history is re-run in a fresh process before it is reported.  "
              "Binary64 rounding of `t - tb`, `h + fb` off the dyadic grid (round-once comparison there).  Model tied to the "
              "code by regenerated obligations, observed calls into shapely and generator-bounded correspondence.")
TECHNIQUE = ("Lean 4 proof over model; symbolic-trace equality obligations regenerated from source (closed forms, dispatch, "
             "pipeline skeleton); signature table regenerated by introspection; exhaustive-grid correspondence at the domain "
             "edges and around every comparison; observed shapely calls compared with the model; Lean-evaluated post-conditions "
             "and run-time GEOS contracts on real results; call histories judged step by step by the pure model")
RULE = ("time stamps / intervals / boxes on exhaustive small grids touching time 0, frequency 0 and MAX_FREQUENCY x buffers "
        "{negative, 0, small, clamping, larger than the domain}, random dyadic and arbitrary-float cases; the six shapely-"
        "buffered types (random, special, domain-edge) x buffer pairs over six decades of buffer/extent, zero buffers, buffers "
        "down to 1e-7; buffers passed as float, int or numpy scalar; every call preceded by a call on the same object with "
        "other buffers and followed by a repeat (purity); buffers -d, 0, +d (d = 2^-40 .. 5e-324) on all nine types and "
        "start - tb, low - fb, high + fb within 2^-20 .. 2^-40 of 0 / MAX_FREQUENCY at magnitudes 1 .. 1e7; every point of the "
        "0.01 s / 0.1 Hz buffer lattices; dense geometries with 16 .. 2000 vertices (each size threshold +-1) x seven smooth "
        "shapes; nine types x call shapes (keyword, positional, reversed keywords, mixed, zero buffers omitted) x number "
        "representations (float, int, bool, numpy float64 / float32 / float16, int8 .. int64, uint8 .. uint64, bool_; mixed "
        "pairs, both buffers of one type, and the largest value of each narrow type) x twelve construction paths (validator, "
        "constructor, model_validate, JSON, copies, tuples, ints, numpy coordinates, subclass); histories: a call with an "
        "option for shapely.buffer followed by plain calls (8 options x 6 target types), and random sessions x, neighbour of x "
        "(other buffers / zero buffer / options / other call shape / other geometry), x again with reused argument objects "
        "(assignment, model_copy(update), in-place edit, copy + assignment), poisoned results and earlier results re-read at "
        "the end; non-trivial = buffer_geometry returned a geometry; distinct = distinct (operation, input)")
TRUSTED = ["pydantic's coercion of the coordinate list before the field validators run (the validators themselves are traced)",
           "shapely `covers` / `difference` / `distance` / `contains_xy` as the containment, superset and disc-contract oracle",
           "symbolic tracer stubs: data.<Geometry> -> record of the (validated) symbolic coordinates; geometry_to_shapely + "
           "buffer_shapely_geometry -> marker carrying the two buffers (dispatch trace); shapely.transform / buffer / "
           "clip_by_rect / to_geojson, json.loads -> stand-ins acting on a generic point and a bounding box (pipeline trace; "
           "a coordinate map is applied to the box corners, right for the increasing maps C11_pipeline_scaling proves them to be)",
           "the spy / guard around the `shapely` module seen by soundevent.geometry.operations (forwards every call "
           "unchanged, except that shapely.buffer of a geometry with infinite / NaN coordinates -- on which GEOS can crash "
           "the process -- is answered with an ArithmeticError: the call fails and is reported as such)",
           "during the dispatch traces symbolic numbers are hashable, `json.dumps` serialises them as their terms and the "
           "module-level containers of operations.py are put back before every replay (a trace describes a call in a fresh "
           "process; later calls are the business of the purity monitors and the histories)",
           "shapely.geometry.shape / box as the constructor of the oracle geometries from JSON coordinates",
           "the fresh Python process in which a failing history is re-run (harness/c11_fresh.py)"]
ASSUMPTIONS = ["binary64 arithmetic is exact on the dyadic grids used",
               "ordered-field semantics for the symbolic ties (no rounding)",
               "hypotheses of C11_shapely_partial (result is a Polygon / MultiPolygon, passes the validator, its bounds satisfy "
               "bufferPost) are evaluated in Lean on every observed result of the pipeline",
               "hypotheses of the C11_pipeline_* theorems about GEOS's buffer (Extensive, CoversDisc 49/50 at 32 probe "
               "directions around up to 8 vertices, IsMaxTime) are evaluated on GEOS's output in every observed call with "
               "positive buffers, no exact line reversal, buffer/extent < 1e4",
               "hypotheses p1..p4 of C11_pipeline_bounds_extend_sides (GEOS's buffer contains the point rho beyond a vertex "
               "attaining each side's extreme, rho = 1 - 2e-5 where offCap holds, 0.995 otherwise) are evaluated in the same calls",
               "GEOS's offset curves deviate from the exact mitre outline by at most 1e-5 of the distance away from open line "
               "ends (observed <= 4e-7; its vertex snapping factor is 1e-6)"]
NOT_COMPARED = ["error messages (only the error class)",
                "what a call with extra options for shapely.buffer returns on the six pipeline types (the caller's choice; some "
                "options are refused with TypeError) beyond: a returned geometry is valid, the argument is untouched, later "
                "calls are unaffected",
                "the vertices of the polygon the shapely pipeline returns (only validator, bounds, containment, superset)",
                "OGC validity of the returned polygon",
                "cap / join style and the margin added to max_time in the clip rectangle (only that it is >= 0)",
                "line strings / polygons with a buffer more than 10^4 times their extent (GEOS simplifies the input by 1 % of "
                "the buffer distance; one such case is in the corpus as a known finding)"]

M = gen_geom.MAXF
TOL = "1/1099511627776"   # 2^-40, relative to the coordinate magnitude
COVER_TOL = 1e-9            # in widths of the buffers
ZERO_AS = Fraction(1, 10 ** 9)   # a zero buffer is the factor 1e9, i.e. acts as the buffer 1e-9
CLOSED = ("TimeStamp", "TimeInterval", "BoundingBox")
SHAPELY = ("Point", "LineString", "Polygon", "MultiPoint", "MultiLineString", "MultiPolygon")


def _f(s):
    return float(frac(s))


# ---------------------------------------------------------------- independent oracles (nothing from the code under test)
def _pts_of(gj):
    """every (time, frequency) vertex of a JSON geometry as exact rationals"""
    ty, c = gj["type"], gj["coordinates"]
    if ty == "TimeStamp":
        return [(frac(c), Fraction(0)), (frac(c), Fraction(M))]
    if ty == "TimeInterval":
        return [(frac(c[0]), Fraction(0)), (frac(c[1]), Fraction(M))]
    if ty == "BoundingBox":
        return [(frac(c[0]), frac(c[1])), (frac(c[2]), frac(c[3]))]
    if ty == "Point":
        return [(frac(c[0]), frac(c[1]))]
    out = []

    def walk(x):
        if isinstance(x, list) and len(x) == 2 and isinstance(x[0], str):
            out.append((frac(x[0]), frac(x[1])))
        else:
            for y in x:
                walk(y)
    walk(c)
    return out


def _bounds_of(gj):
    """(start, low, end, high) of a JSON geometry, computed on the rationals it carries"""
    ps = _pts_of(gj)
    return (min(p[0] for p in ps), min(p[1] for p in ps), max(p[0] for p in ps), max(p[1] for p in ps))


def _shp(gj):
    """the shapely geometry of a JSON geometry, built by shapely itself (not by soundevent's converters)"""
    import shapely.geometry as sg
    ty = gj["type"]
    c = gen_geom.coords_float(gj)
    if ty == "TimeStamp":
        return sg.LineString([(c, 0.0), (c, float(M))])
    if ty == "TimeInterval":
        return sg.box(c[0], 0.0, c[1], float(M))
    if ty == "BoundingBox":
        return sg.box(c[0], c[1], c[2], c[3])
    return sg.shape({"type": ty, "coordinates": c})


# ---------------------------------------------------------------- implementation adapters
NAMES = {"tb": "time_buffer", "fb": "freq_buffer"}
SHAPES = ("kw", "pos", "kwrev", "mixed", "omit")
NUMS = ("float", "int", "np64", "np32", "npint", "bool",
        # numpy scalars as they come out of typed arrays / parsed headers: unsigned integers (unary minus and
        # subtraction wrap around in their own type), narrow signed integers, narrow floats
        "npu8", "npu16", "npu32", "npu64", "npi8", "npi16", "npi32", "npf16", "npbool")
_NP_INTS = {"npu8": ("uint8", 0, 2 ** 8), "npu16": ("uint16", 0, 2 ** 16), "npu32": ("uint32", 0, 2 ** 32),
            "npu64": ("uint64", 0, 2 ** 64), "npi8": ("int8", -2 ** 7, 2 ** 7), "npi16": ("int16", -2 ** 15, 2 ** 15),
            "npi32": ("int32", -2 ** 31, 2 ** 31)}
PATHS = ("validate", "ctor", "mv", "json", "jsonrt", "copy", "deepcopy", "pycopy", "tuple", "intcoords", "npcoords", "subclass")


def _arg(inp, key, salt):
    """the buffer as the caller may pass it: float, int (when integral) or numpy scalar -- chosen from the whole
    input, so a replay passes the same representation and the same value is seen in all of them over a run"""
    q = frac(inp[key])
    h = zlib.crc32((jkey(inp) + salt).encode())
    if q.denominator == 1 and h % 3 == 0:
        return int(q)
    if h % 3 == 1:
        import numpy as np
        return np.float64(float(q))
    return float(q)


def _repr_num(q, kind):
    """the number `q` in the representation `kind` if it has one there (else as a float)"""
    import numpy as np
    x = float(q)
    if kind == "int" and q.denominator == 1:
        return int(q)
    if kind == "npint" and q.denominator == 1 and abs(q) < 2 ** 62:
        return np.int64(int(q))
    if kind == "bool" and q in (0, 1):
        return bool(q)
    if kind == "np64":
        return np.float64(x)
    if kind == "np32" and float(np.float32(x)) == x:
        return np.float32(x)
    if kind in _NP_INTS and q.denominator == 1 and _NP_INTS[kind][1] <= q < _NP_INTS[kind][2]:
        return getattr(np, _NP_INTS[kind][0])(int(q))
    if kind == "npf16" and abs(x) <= 2048 and float(np.float16(x)) == x:
        return np.float16(x)
    if kind == "npbool" and q in (0, 1):
        return np.bool_(bool(q))
    return x


def _shape(inp):
    """the call as the caller writes it: (keys passed by position, keys passed by keyword in that order)"""
    sh = (inp.get("how") or {}).get("shape", "kw")
    tz, fz = frac(inp["tb"]) == 0, frac(inp["fb"]) == 0
    if sh == "pos":
        return ["tb", "fb"], []
    if sh == "kwrev":
        return [], ["fb", "tb"]
    if sh == "mixed":
        return ["tb"], ["fb"]
    if sh == "omit":          # a zero buffer is the default: leave it out
        if tz and fz:
            return [], []
        if fz:
            return ["tb"], []
        if tz:
            return [], ["fb"]
        return ["tb"], ["fb"]
    return [], ["tb", "fb"]


def _model_call(inp):
    """the same call for the model: positional values and keyword values, bound by `boundBuffers bufferSig`"""
    if not inp.get("how"):
        return {"tb": inp["tb"], "fb": inp["fb"]}
    pos, kw = _shape(inp)
    return {"pos": [inp[k] for k in pos], "kw": [[NAMES[k], inp[k]] for k in kw]}


def _call(d, inp, k1="tb", k2="fb", opts=None):
    from soundevent.geometry import buffer_geometry
    how = inp.get("how")
    opts = dict(opts or {})
    if not how:
        with _guarding():
            return buffer_geometry(d, time_buffer=_arg(inp, k1, "t"), freq_buffer=_arg(inp, k2, "f"), **opts)
    val = {"tb": _repr_num(frac(inp[k1]), how.get("nt", "float")), "fb": _repr_num(frac(inp[k2]), how.get("nf", "float"))}
    pos, kw = _shape({"how": how, "tb": inp[k1], "fb": inp[k2]})
    with _guarding():
        return buffer_geometry(d, *[val[k] for k in pos], **{NAMES[k]: val[k] for k in kw}, **opts)


def _conv(c, leaf, seq=list):
    if isinstance(c, (list, tuple)):
        return seq(_conv(x, leaf, seq) for x in c)
    return leaf(c)


def _build_geom(gj, path=None):
    """the data object of a JSON geometry, built the way `path` says (None: the validator on a dict)"""
    from soundevent import data
    import numpy as np
    ty, c = gj["type"], gen_geom.coords_float(gj)
    if path in (None, "validate"):
        return data.geometry_validate({"type": ty, "coordinates": c}, mode="dict")
    cls = getattr(data, ty)
    if path == "ctor":
        return cls(coordinates=c)
    if path == "mv":
        return cls.model_validate({"type": ty, "coordinates": c})
    if path == "json":
        return cls.model_validate_json(json.dumps({"type": ty, "coordinates": c}))
    if path == "jsonrt":
        return cls.model_validate_json(cls(coordinates=c).model_dump_json())
    if path == "copy":
        return cls(coordinates=c).model_copy()
    if path == "deepcopy":
        return cls(coordinates=c).model_copy(deep=True)
    if path == "pycopy":
        return copy.deepcopy(cls(coordinates=c))
    if path == "tuple":
        return cls(coordinates=_conv(c, float, tuple))
    if path == "intcoords":
        return cls(coordinates=_conv(c, lambda x: int(x) if float(x).is_integer() else x))
    if path == "npcoords":
        return cls(coordinates=_conv(c, np.float64))
    if path == "subclass":
        return type("My" + ty, (cls,), {})(coordinates=c)
    raise ValueError(f"unknown construction path {path}")


def _geom(inp):
    """the argument object of a case; it must carry exactly the content of the case (else the case is void)"""
    path = (inp.get("how") or {}).get("path")
    d = _build_geom(inp["g"], path)
    if path and gen_geom.from_data(d) != inp["g"]:
        raise _Void(f"construction path {path} does not yield the geometry of the case")
    return d


class _Void(Exception):
    """the harness could not build the case (never the verdict of the code under test)"""


def _buffer(inp):
    return _call(_geom(inp), inp)


def _pure_call(inp, spy=False):
    """buffer the same object with other buffers first, then the call that is judged (optionally observing the
    calls into shapely), then look at the argument again and buffer it once more: the function must not modify
    its argument nor remember anything"""
    d = _geom(inp)
    before = gen_geom.from_data(d)
    try:        # a first call on the same object with other buffers: nothing of it may show in the call that is judged
        _call(d, {"tb": rat(frac(inp["tb"]) + 1), "fb": rat(frac(inp["fb"]) + 2)})
    except Exception:  # noqa: BLE001
        pass
    if spy:
        with _spying() as sp:
            r = _call(d, inp)
    else:
        sp, r = None, _call(d, inp)
    out = {"val": gen_geom.from_data(r)}
    if gen_geom.from_data(d) != before:
        out["impure"] = "the geometry passed as argument was modified"
    else:
        try:
            again = gen_geom.from_data(_call(d, inp))
        except Exception as e:  # noqa: BLE001
            again = repr(e)[:80]
        if again != out["val"]:
            out["impure"] = "a second call with the same arguments gave a different result"
    return d, r, out, sp


def _voidable(impl):
    """a case the harness cannot build (e.g. a construction path the data model does not offer) is void, not a verdict"""
    def wrapped(inp):
        try:
            return impl(inp)
        except _Void as e:
            return {"void": str(e)}
    return wrapped


def _impl_closed(inp):
    return _pure_call(inp)[2]


_LIB_CACHE = {}
_PIPE_CACHE = {}
_GEOS_CACHE = {}     # jkey(inp) -> (scaled input, GEOS's buffer of it) of the observed call, for the probe contract


def _uncovered(outer, inner, sx, sy):
    """largest distance, in widths of the buffers (sx, sy), of a vertex of inner \\ outer from outer"""
    import numpy as np
    import shapely
    if outer.covers(inner):
        return 0.0
    d = inner.difference(outer)
    if d.is_empty:
        return 0.0
    f = np.array([1.0 / sx if sx > 0 else 1e9, 1.0 / sy if sy > 0 else 1e9])
    o = shapely.transform(outer, lambda x: x * f)
    dd = shapely.transform(d, lambda x: x * f)
    dist = float(max(o.distance(shapely.Point(c)) for c in shapely.get_coordinates(dd)))
    # binary64 resolution of the coordinates, expressed in buffer widths (2^-46 relative per axis)
    mx = np.abs(shapely.get_coordinates(outer)).max(axis=0) * f
    return max(0.0, dist - float(mx.max()) * 2.0 ** -46)


class _NonFinite(ArithmeticError):
    """the code under test handed a geometry with infinite / NaN coordinates to shapely.buffer"""


def _finite(geometry):
    """GEOS can take the whole process down (segmentation fault) when it buffers a line whose coordinates are
    infinite; such a geometry is refused with an error instead -- the call fails either way, the check survives"""
    import numpy as np
    import shapely
    try:
        ok = bool(np.isfinite(shapely.get_coordinates(geometry)).all())
    except Exception:  # noqa: BLE001   not a geometry: shapely's own business
        ok = True
    if not ok:
        raise _NonFinite("a geometry with non-finite coordinates was handed to shapely.buffer")


class _Guard:
    """the `shapely` module as soundevent.geometry.operations sees it during a call made by the harness: everything
    is forwarded unchanged, except that `buffer` refuses non-finite coordinates (see `_finite`)"""

    def __init__(self, real):
        self._real = real

    def __getattr__(self, name):
        return getattr(self._real, name)

    def buffer(self, geometry, distance, *a, **kw):
        _finite(geometry)
        return self._real.buffer(geometry, distance, *a, **kw)


class _guarding:
    def __enter__(self):
        try:
            import shapely
            import soundevent.geometry.operations as ops
            self.ops, self.saved = ops, getattr(ops, "shapely", None)
            self.on = self.saved is shapely      # not while the spy (which guards itself) or a tracer stub is in place
            if self.on:
                ops.shapely = _Guard(shapely)
        except Exception:  # noqa: BLE001
            self.on = False
        return self

    def __exit__(self, *exc):
        if self.on:
            self.ops.shapely = self.saved
        return False


class _Spy:
    """wraps the `shapely` module seen by soundevent.geometry.operations: the real functions run, their
    arguments and results are kept"""

    def __init__(self, real):
        self._real = real
        self.transforms, self.buffers, self.clips = [], [], []

    def __getattr__(self, name):
        return getattr(self._real, name)

    def transform(self, geometry, transformation, *a, **kw):
        out = self._real.transform(geometry, transformation, *a, **kw)
        self.transforms.append((geometry, transformation, out))
        return out

    def buffer(self, geometry, distance, *a, **kw):
        _finite(geometry)
        out = self._real.buffer(geometry, distance, *a, **kw)
        self.buffers.append((geometry, distance, out))
        return out

    def clip_by_rect(self, geometry, xmin, ymin, xmax, ymax, *a, **kw):
        out = self._real.clip_by_rect(geometry, xmin, ymin, xmax, ymax, *a, **kw)
        self.clips.append((geometry, (xmin, ymin, xmax, ymax), out))
        return out


class _spying:
    def __enter__(self):
        import shapely
        import soundevent.geometry.operations as ops
        self.ops, self.saved = ops, getattr(ops, "shapely", None)
        self.spy = _Spy(shapely)
        if self.saved is shapely:
            ops.shapely = self.spy
        return self.spy

    def __exit__(self, *exc):
        if self.saved is not None:
            self.ops.shapely = self.saved
        return False


RHO = Fraction(49, 50)        # < cos(pi/32) - 1/100: GEOS round caps are 32-gons inscribed in the unit circle (apothem 0.99518) and it
                              # simplifies the input line by up to 1 % of the distance before offsetting
_DIRS = [((k + 0.5) * math.pi / 16) for k in range(32)]    # mid-edge directions of the caps: the worst ones


def _observe(sp, r):
    """what `buffer_shapely_geometry` asked of shapely in this call, and the contracts of the pipeline theorems
    evaluated on what GEOS returned; None if the calls were not of the expected shape (nothing is concluded)"""
    import numpy as np
    import shapely
    if sp is None or len(sp.buffers) != 1 or len(sp.clips) != 1 or len(sp.transforms) != 2:
        return None
    (T0, f1, T), (Tb, dist, B), (B0, f2, U), (Uc, rect, C) = sp.transforms[0], sp.buffers[0], sp.transforms[1], sp.clips[0]
    if Tb is not T or B0 is not B or Uc is not U:
        return None
    one = np.array([[1.0, 1.0]])
    sc, un = np.asarray(f1(one.copy()), dtype=float)[0], np.asarray(f2(one.copy()), dtype=float)[0]
    obs = {"scaled": [rat(sc[0]), rat(sc[1])], "dist": rat(dist), "unscaled": [rat(un[0]), rat(un[1])],
           "rect": [rat(x) for x in rect], "qm": rat(B.bounds[2]) if not B.is_empty else None,
           "max_time": rat(U.bounds[2]) if not U.is_empty else None,
           "returned_clipped": bool(_shp(gen_geom.from_data(r)).equals(C))}
    con = {}
    if not B.is_empty:
        con["extensive"] = bool(B.covers(T))
        ux = shapely.get_coordinates(U)[:, 0]
        con["is_max_time"] = bool(ux.max() <= U.bounds[2])
        v = shapely.get_coordinates(T)
        v = v[np.linspace(0, len(v) - 1, min(len(v), 8)).astype(int)]
        rho = float(RHO)
        px = (v[:, None, 0] + rho * np.cos(_DIRS)[None, :]).ravel()
        py = (v[:, None, 1] + rho * np.sin(_DIRS)[None, :]).ravel()
        con["covers_disc"] = bool(shapely.contains_xy(B, px, py).all())
        con["scaled_magnitude"] = float(np.abs(v).max())
    obs["contracts"] = con
    obs["_geos"] = (T, B)
    return obs


def _impl_shapely(inp):
    d, r, out, sp = _pure_call(inp, spy=True)
    _LIB_CACHE[jkey(inp)] = out["val"]
    try:
        obs = _observe(sp, r)
        if obs is not None:
            _GEOS_CACHE[jkey(inp)] = obs.pop("_geos")
        _PIPE_CACHE[jkey(inp)] = obs
    except Exception:  # noqa: BLE001 - an observation that cannot be made concludes nothing
        _PIPE_CACHE[jkey(inp)] = None
    out["uncovered"] = repr(_uncovered(_shp(out["val"]), _shp(inp["g"]), _f(inp["tb"]), _f(inp["fb"])))
    return out


def _impl_pipeline(inp):
    k = jkey(inp)
    if k not in _PIPE_CACHE:
        _impl_shapely(inp)
    obs = _PIPE_CACHE.get(k)
    return {"val": obs} if obs is not None else {"val": None}


def _impl_monotone(inp):
    d = _geom(inp)
    r1 = _call(d, inp)
    r2 = _call(d, inp, "tb2", "fb2")
    ex = _uncovered(_shp(gen_geom.from_data(r2)), _shp(gen_geom.from_data(r1)), _f(inp["tb2"]), _f(inp["fb2"]))
    return {"val": {"excess": repr(ex)}}


def _impl_valid(inp):
    """is the raw geometry a value the data model accepts unchanged"""
    from soundevent import data
    g = inp["g"]
    raw = {"type": g["type"], "coordinates": gen_geom.coords_float(g)}
    try:
        v = data.geometry_validate(raw, mode="dict")
    except ValueError:
        return {"val": False}
    return {"val": gen_geom.from_data(v) == g}


# ---------------------------------------------------------------- comparisons and monitors
def _flat(c):
    if isinstance(c, list):
        for x in c:
            yield from _flat(x)
    else:
        yield c


def _cmp_closed_free(inp, io, mo):
    if io.get("void"):
        return None
    if io.get("impure"):
        return io["impure"]
    if "val" not in io or "val" not in mo:
        a = {k: v for k, v in io.items() if k != "trace"}
        return None if a == mo else "implementation and model disagree"
    if io["val"]["type"] != mo["val"]["type"]:
        return "result type differs"
    xs, ys = list(_flat(io["val"]["coordinates"])), list(_flat(mo["val"]["coordinates"]))
    if len(xs) != len(ys):
        return "result arity differs"
    for x, y in zip(xs, ys):
        if x != y and not round_once_eq(frac(y), _f(x)):
            return f"coordinate {x} is not the correctly rounded model value {y}"
    return None


def _cmp_closed(inp, io, mo):
    if io.get("void"):
        return None
    a = {k: v for k, v in io.items() if k != "trace"}
    return None if a == mo else "implementation and model disagree"


def _cmp_shapely(inp, io, mo):
    if io.get("void"):
        return None
    a = {k: v for k, v in io.items() if k not in ("trace", "uncovered", "impure")}
    return None if a == mo else "guard / dispatch of buffer_geometry disagrees with the model"


def _post(ctx, inp, r):
    return ctx.model("shapely_post", {"g": inp["g"], "tb": inp["tb"], "fb": inp["fb"], "r": r, "tol": TOL, "mu": END_MARGIN})["val"]


def _holds_closed(ctx, inp, io):
    if io.get("void"):
        ctx.tally("void-case")
        return None
    neg = frac(inp["tb"]) < 0 or frac(inp["fb"]) < 0
    if neg:
        return None if io.get("raise") == "invalid" else "a negative buffer was not rejected with ValueError"
    if "val" not in io:
        return f"buffer_geometry raised {io.get('raise')} on a valid geometry with non-negative buffers"
    if io.get("impure"):
        return io["impure"]
    p = _post(ctx, inp, io["val"])
    if not p["valid"]:
        return "result is not a valid geometry (leaves the domain or is mis-ordered)"
    if not p.get("post_strict"):
        return f"bounds of the result do not extend the original's by the buffers: shortfall={p.get('shortfall')}"
    return None


def _ratio(inp):
    """largest buffer / extent over the axes on which the geometry has an extent"""
    b = _bounds_of(inp["g"])
    out = 0.0
    for ext, buf in ((b[2] - b[0], frac(inp["tb"])), (b[3] - b[1], frac(inp["fb"]))):
        if ext > 0 and buf > 0:
            out = max(out, float(buf / ext))
    return out


def _zero_axis_max(inp):
    """largest coordinate along the axes whose buffer is exactly zero (these are multiplied by 1e9)"""
    b = _bounds_of(inp["g"])
    return float(max([b[2]] * (frac(inp["tb"]) == 0) + [b[3]] * (frac(inp["fb"]) == 0) + [Fraction(0)]))


def _has_reversal(gj):
    """a vertex at which a line string turns back on itself exactly (collinear, opposite direction)"""
    lines = [gj["coordinates"]] if gj["type"] == "LineString" else gj["coordinates"] if gj["type"] == "MultiLineString" else []
    for ln in lines:
        pts = [(frac(p[0]), frac(p[1])) for p in ln]
        pts = [p for i, p in enumerate(pts) if i == 0 or p != pts[i - 1]]
        for a, b, c in zip(pts, pts[1:], pts[2:]):
            u, v = (b[0] - a[0], b[1] - a[1]), (c[0] - b[0], c[1] - b[1])
            if u[0] * v[1] - u[1] * v[0] == 0 and u[0] * v[0] + u[1] * v[1] < 0:
                return True
    return False


OFFCAP_NOISE = Fraction(1, 10 ** 5)    # GEOS's offset curves carry noise of ~1e-6 of the distance (its vertex snapping factor)
END_MARGIN = "1/100"                   # an open line end this close (in buffers) to a side's extreme puts its round cap there


def _holds_shapely(ctx, inp, io):
    if io.get("void"):
        ctx.tally("void-case")
        return None
    tb, fb = frac(inp["tb"]), frac(inp["fb"])
    if tb < 0 or fb < 0:
        return None if io.get("raise") == "invalid" else "a negative buffer was not rejected with ValueError"
    facts = (f"type={inp['g']['type']} zero_buffer={tb == 0 or fb == 0} reversal={_has_reversal(inp['g'])} "
             f"ratio={_ratio(inp):.3e} zero_axis_max={_zero_axis_max(inp):.3e}")
    if "val" not in io:
        return f"buffer_geometry raised {io.get('raise')} on a valid geometry with non-negative buffers; {facts}"
    if io.get("impure"):
        return io["impure"]
    p = _post(ctx, inp, io["val"])
    if not p["poly"]:
        ctx.tally("shapely:result-not-polygonal")     # not required by the property; the checks below still apply
    if not p["valid"]:
        return "result is not a valid geometry (leaves the domain)"
    unc = float(io.get("uncovered", "inf"))
    if not unc <= COVER_TOL:
        return f"result does not contain the original; uncovered={unc:.3e} buffer widths; {facts}"
    if not p.get("post"):
        sf = max(float(frac(x)) for x in p["shortfall"])
        # sides whose extreme no end of an open line attains or comes near (no round cap there): shortfall beyond the slack
        osf = max([float(frac(x)) for x, off in zip(p["shortfall_net"], p["offcap"]) if off] + [0.0])
        return (f"bounds of the result do not extend the original's by the buffers; max_shortfall={sf:.6e} "
                f"offcap_shortfall={osf:.6e}; {facts}")
    return None


def _holds_monotone(ctx, inp, io):
    if io.get("void"):
        return None
    if "val" not in io:
        return f"buffer_geometry raised {io.get('raise')}; type={inp['g']['type']}"
    ex = float(io["val"]["excess"])
    if not ex <= COVER_TOL:
        tiny = any(frac(inp[a]) == 0 and 0 < frac(inp[b]) < ZERO_AS for a, b in (("tb", "tb2"), ("fb", "fb2")))
        return (f"larger buffers do not give a superset; excess={ex:.6e} widths of the larger buffers; "
                f"type={inp['g']['type']} zero_vs_tiny={tiny}")
    return None


def _safe(fn):
    def wrapped(ctx, inp, io):
        try:
            return fn(ctx, inp, io)
        except InfraError:
            raise
        except Exception as e:  # noqa: BLE001
            return f"property monitor could not be evaluated on the implementation's output: {e!r}"
    return wrapped


def _cmp_pipeline(inp, io, mo):
    """the calls into shapely against `pipelineSkeleton` (probe points (1, 1)): the factors are one correctly
    rounded division, the inverse map and the clip rectangle go through a second rounding (tolerance)"""
    obs = io.get("val") if isinstance(io, dict) else None
    if not obs or "val" not in mo:
        return None            # rejected before the pipeline, or the calls were not observed: nothing to compare
    m = mo["val"]
    for a, b in zip(obs["scaled"], m["scaled"]):
        if not round_once_eq(frac(b), _f(a)):
            return f"scale factor {_f(a)!r} is not the correctly rounded model value {b}"
    if frac(obs["dist"]) != frac(m["dist"]):
        return f"buffer distance {obs['dist']} in the scaled space, model {m['dist']}"
    for a, b in zip(obs["unscaled"], m["unscaled"]):
        if not tol_eq(frac(b), _f(a)):
            return f"inverse scale factor {_f(a)!r}, model {b}"
    r = obs["rect"]
    if [frac(r[0]), frac(r[1]), frac(r[3])] != [frac(x) for x in m["rect"]]:
        return f"clip rectangle {r}, model {m['rect']}"
    if obs["qm"] is not None and not (m["clip_keeps_max_time"] or tol_eq(frac(obs["max_time"]), _f(r[2]))):
        return f"clip rectangle ends at {_f(r[2])!r}, before the largest time of the buffer {_f(obs['max_time'])!r}"
    if not obs["returned_clipped"]:
        return "the returned geometry is not the clipped shape"
    return None


def _holds_pipeline(ctx, inp, io):
    """hypotheses of the pipeline theorems about GEOS, evaluated on what GEOS returned in this call"""
    if not isinstance(io, dict) or "val" not in io:
        return None            # rejected before the pipeline was reached
    obs = io["val"]
    if not obs:
        ctx.tally("pipeline:not-observed")
        return None
    con = obs.get("contracts") or {}
    if not con:
        return None
    tb, fb = frac(inp["tb"]), frac(inp["fb"])
    ctx.contract("geos_bounds_is_max_time", con["is_max_time"], inp, con)
    # GEOS's buffer in its regular regime (the known findings describe what happens outside of it)
    regular = (tb > 0 and fb > 0 and not _has_reversal(inp["g"]) and _ratio(inp) < 1e4
               and con["scaled_magnitude"] < 1e9)
    if regular:
        ctx.contract("geos_buffer_extensive", con["extensive"], inp, con,
                     "GEOS's buffer of the scaled geometry does not contain it (hypothesis `Extensive`)")
        ctx.contract("geos_buffer_covers_disc", con["covers_disc"], inp, con,
                     f"GEOS's buffer misses a point within {RHO} of a vertex (hypothesis `CoversDisc {RHO}`)")
        pr = _axis_probes(ctx, inp, obs)
        if pr is not None:
            ctx.contract("geos_buffer_covers_axis_probes", all(pr["covered"]), inp, pr,
                         "GEOS's buffer misses the point rho buffers beyond an extreme vertex along an axis (hypotheses p1..p4 of "
                         f"`C11_pipeline_bounds_extend_sides`, rho = {RHO_JOINT} off the ends of open lines, {RHO_CAP} at them)")
    _GEOS_CACHE.pop(jkey(inp), None)
    return None


RHO_JOINT = 1 - 2 * OFFCAP_NOISE      # mitre joins and the axis-aligned circles around points reach the full distance
RHO_CAP = Fraction(199, 200)           # < cos(pi/32) = 0.99518: the round cap at the end of an open line is a 32-gon


def _axis_probes(ctx, inp, obs):
    """hypotheses p1..p4 of `C11_pipeline_bounds_extend_sides` on GEOS's actual buffer `B` of the scaled input `T`:
    per side, the point rho beyond a vertex attaining the extreme (cut at the domain edge) lies in `B`; rho by
    `offCap` (evaluated in Lean on the geometry of the case)"""
    import numpy as np
    import shapely
    tb = _GEOS_CACHE.get(jkey(inp))
    if tb is None:
        return None
    T, B = tb
    off = ctx.model("offcap", {"g": inp["g"], "tb": inp["tb"], "fb": inp["fb"], "mu": END_MARGIN})["val"]["offcap"]
    v = shapely.get_coordinates(T)
    if len(v) == 0 or B.is_empty:
        return None
    ff = _f(obs["scaled"][1])                      # the observed frequency factor: MAXF in the scaled space
    covered, rhos = [], []
    for side, flag in enumerate(off):
        ax, sign = side % 2, (-1.0 if side < 2 else 1.0)
        ext = v[:, ax].min() if side < 2 else v[:, ax].max()
        att = v[v[:, ax] == ext]
        rho = float(RHO_JOINT if flag else RHO_CAP)
        q = att.copy()
        q[:, ax] = q[:, ax] + sign * rho
        if side < 2:
            q[:, ax] = np.maximum(q[:, ax], 0.0)
        elif side == 3:
            q[:, ax] = np.minimum(q[:, ax], float(M) * ff)
        covered.append(bool(shapely.intersects_xy(B, q[:, 0], q[:, 1]).any()))
        rhos.append(rho)
    return {"covered": covered, "rho": rhos, "offcap": off}


def _to_model_pipeline(inp):
    obs = _PIPE_CACHE.get(jkey(inp)) or {}
    return {"px": "1", "py": "1", "qx": "1", "qy": "1", "qm": obs.get("qm") or "0",
            "xmax": (obs.get("rect") or ["0"] * 4)[2], "tb": inp["tb"], "fb": inp["fb"]}


def _to_model_shapely(inp):
    return {"g": inp["g"], **_model_call(inp), "lib": _LIB_CACHE.get(jkey(inp))}


# ---------------------------------------------------------------- histories (harness/history.py, HISTORIES.md)
OPTIONS = [{"single_sided": True}, {"mitre_limit": "1/5"}, {"quad_segs": 1}, {"quad_segs": 16}, {"mitre_limit": "10"},
           {"cap_style": "flat"}, {"join_style": "bevel"}, {"quad_segs": 2, "mitre_limit": "1"}]


def _opts(inp):
    """extra keyword arguments of a step (passed on to shapely.buffer by the six pipeline types)"""
    out = {}
    for k, v in (inp.get("opts") or {}).items():
        if isinstance(v, str):
            try:
                q = frac(v)
                v = int(q) if q.denominator == 1 else float(q)
            except Exception:  # noqa: BLE001
                pass
        out[k] = v
    return out


def _h_build(inp):
    try:
        d = _geom(inp)
    except _Void:
        d = _build_geom(inp["g"])
    return {"d": d, "inp": inp}


def _h_call(args):
    return _call(args["d"], args["inp"], opts=_opts(args["inp"]))


def _h_canon(inp, args, res):
    out = {"val": gen_geom.from_data(res)}
    if inp["g"]["type"] in SHAPELY and not inp.get("opts"):
        out["uncovered"] = repr(_uncovered(_shp(out["val"]), _shp(inp["g"]), _f(inp["tb"]), _f(inp["fb"])))
    return out


def _h_snapshot(args):
    d = args["d"]
    return [type(d).__name__, gen_geom.from_data(d)]


H_REUSE = ("same", "assign", "copy_update", "deep_copy_update", "inplace", "pycopy_assign")


def _h_modify(args, inp, how):
    """the geometry object of the previous step, changed to carry this step's geometry (same type): by assignment,
    model_copy(update=...), an in-place edit of its coordinate list, or a shallow copy that is then assigned to --
    nothing the object (or the module) remembered from its earlier use may survive (geometries are not frozen)"""
    d = args["d"]
    if getattr(d, "type", None) != inp["g"]["type"]:
        return None
    c = gen_geom.coords_float(inp["g"])
    if how == "same":
        if gen_geom.from_data(d) != inp["g"]:
            return None
    elif how == "assign":
        d.coordinates = c
    elif how == "copy_update":
        d = d.model_copy(update={"coordinates": c})
    elif how == "deep_copy_update":
        d = d.model_copy(update={"coordinates": c}, deep=True)
    elif how == "inplace":
        if isinstance(d.coordinates, list):
            d.coordinates[:] = c
        else:
            d.coordinates = c
    elif how == "pycopy_assign":
        d = copy.copy(d)
        d.coordinates = c
    else:
        return None
    if gen_geom.from_data(d) != inp["g"]:
        return None
    return {"d": d, "inp": inp}


def _h_poison(res):
    """the caller edits what it got back (the returned geometry is the caller's): nothing may be shared with later calls"""
    c = getattr(res, "coordinates", None)
    if not isinstance(c, list) or not c:
        return False
    x = c
    while isinstance(x[0], list):
        x = x[0]
    x[0] = 987654.0
    if isinstance(c[0], list):
        c.append(c[0])
    return True


def _known_in_base(ctx, op_name, inp, io, msg):
    """the step fails exactly as a known finding of the base operation describes (reported there)"""
    from .. import core
    import sys
    mod = sys.modules[__name__]
    f = core.Failure("property", op_name, inp, io, None, msg)
    return core.match_finding(mod, core.load_findings(PROPERTY), f) is not None


def _holds_step(ctx, inp, io):
    """one call of a history, judged on its own by the model of the base operation (C11_history_stepwise)"""
    if io.get("void"):
        return None
    tb, fb = frac(inp["tb"]), frac(inp["fb"])
    closed = inp["g"]["type"] in CLOSED
    if inp.get("opts") and not closed and tb >= 0 and fb >= 0:
        # options for shapely.buffer are the caller's choice: the property does not say what they give (and some are
        # refused); whatever GEOS's buffer is, a returned geometry stays in the domain (C11_pipeline_in_domain)
        if "val" in io and not ctx.model("valid", {"g": io["val"]})["val"]:
            return "result is not a valid geometry (leaves the domain)"
        return None
    if closed:                # options are not passed on for these (C11_closed_ignores_options): fully determined
        msg = _holds_closed(ctx, inp, io)
        if msg:
            return msg
        mo = ctx.model("buffer", {"g": inp["g"], **_model_call(inp)})
        return _cmp_closed(inp, io, mo)
    msg = _holds_shapely(ctx, inp, io)
    if msg:
        if _known_in_base(ctx, "buffer_shapely", inp, io, msg):
            ctx.tally("history:step-in-known-finding-class")
            return None
        return msg
    mo = ctx.model("buffer", {"g": inp["g"], **_model_call(inp), "lib": io.get("val")})
    return _cmp_shapely(inp, io, mo)


_STEP = Op("buffer_step", None, to_model=lambda i: {"g": i["g"]}, compare=lambda i, a, b: None, holds=_holds_step,
           model_op="valid", mode="tolerance")
HISTORY_RAW = history.history_op("buffer_history", _STEP, _h_build, _h_call, _h_canon, snapshot=_h_snapshot,
                                 modify=_h_modify, poison=_h_poison)
_CONFIRM = {"tries": 0, "confirmed": 0}


def _holds_history(ctx, h, io):
    """a failing history is run again in a fresh process: its replay is the whole sequence and must fail on its own
    (an earlier, unrelated history of this run may have left state behind in the module under test)"""
    msg = HISTORY_RAW.holds(ctx, h, io)
    if not msg:
        return None
    if _CONFIRM["confirmed"] >= 3:
        ctx.tally("history:failed-after-confirmed-ones")
        return None
    if _CONFIRM["tries"] >= 8:
        return "(not re-run in a fresh process) " + msg
    _CONFIRM["tries"] += 1
    try:
        from ..c11_fresh import run_fresh
        fresh = run_fresh(h)
    except Exception as e:  # noqa: BLE001
        return f"(fresh process unavailable: {e!r}) " + msg
    msg2 = HISTORY_RAW.holds(ctx, h, fresh)
    if msg2:
        _CONFIRM["confirmed"] += 1
        return msg2
    # reported only if no history of this run fails on its own (see `_report_unconfirmed`)
    ctx.tally("history:fails-only-after-earlier-histories")
    _UNCONFIRMED.append((h, io, "state carried over from earlier calls of this run (the sequence passes in a fresh "
                                "process, so this replay alone does not fail): " + msg))
    return None


_UNCONFIRMED = []


def _report_unconfirmed(ctx):
    if _UNCONFIRMED and not _CONFIRM["confirmed"]:
        h, io, msg = _UNCONFIRMED[0]
        ctx.fail("property", "buffer_history", inp=h, impl=io, detail=msg)
    del _UNCONFIRMED[:]


def _valid_input(inp):
    try:
        return _impl_valid({"g": inp["g"]})["val"] is True
    except Exception:  # noqa: BLE001
        return False


def _to_model_closed(inp):
    return {"g": inp["g"], **_model_call(inp)}


OPS = {
    "buffer_closed": Op("buffer_closed", _voidable(_impl_closed), to_model=_to_model_closed, compare=_cmp_closed,
                        holds=_safe(_holds_closed), model_op="buffer", shrink=True, valid=_valid_input),
    "buffer_closed_free": Op("buffer_closed_free", _voidable(_impl_closed), to_model=_to_model_closed,
                             compare=_cmp_closed_free, mode="round-once", model_op="buffer"),
    "buffer_shapely": Op("buffer_shapely", _voidable(_impl_shapely), to_model=_to_model_shapely, compare=_cmp_shapely,
                         holds=_safe(_holds_shapely), mode="tolerance", model_op="buffer"),
    "buffer_history": Op("buffer_history", HISTORY_RAW.impl, holds=_safe(_holds_history), compare=lambda i, a, b: None,
                         mode="tolerance", no_model=True, nontrivial=HISTORY_RAW.nontrivial),
    "monotone_shapely": Op("monotone_shapely", _voidable(_impl_monotone), to_model=lambda i: {"g": i["g"]},
                           compare=lambda i, a, b: None, holds=_safe(_holds_monotone), determined=False,
                           mode="tolerance", model_op="valid"),
    "pipeline_args": Op("pipeline_args", _voidable(_impl_pipeline), to_model=_to_model_pipeline, compare=_cmp_pipeline,
                        holds=_safe(_holds_pipeline), determined=False, mode="tolerance",
                        nontrivial=lambda i, o: bool(isinstance(o, dict) and o.get("val"))),
    "valid": Op("valid", _impl_valid),
}


# ---------------------------------------------------------------- known-finding matchers
def _num(detail, key):
    m = re.search(re.escape(key) + r"=([0-9.eE+\-]+|inf|nan)", detail)
    return float(m.group(1)) if m else None


def _fact(detail, key):
    m = re.search(re.escape(key) + r"=(\w+)", detail)
    return m.group(1) if m else None


def _m_approx_shortfall(f, m):
    """round caps are polygons and GEOS offsets carry noise: a side extends by a little less than the buffer"""
    d = f.detail
    sf, osf = _num(d, "max_shortfall"), _num(d, "offcap_shortfall")
    return (f.kind == "property" and sf is not None and _fact(d, "zero_buffer") == "False"
            and 0 < sf <= float(Fraction(m["max_shortfall"]))
            # only where a round cap is: a side whose extreme is attained at a vertex that is not the end of an open
            # line is drawn by a mitre join / an axis-aligned circle and reaches the buffer up to offset-curve noise
            and osf is not None and osf <= float(Fraction(m.get("max_offcap_shortfall", "0"))))


def _m_zero_buffer(f, m):
    """a zero buffer becomes the factor 1e9: extreme vertices are lost or GEOS returns an empty buffer (KeyError)"""
    d = f.detail
    if f.kind != "property" or _fact(d, "zero_buffer") != "True":
        return False
    if "raised key on" in d:      # GEOS returned an empty buffer: only where the scaled coordinates are huge
        z = _num(d, "zero_axis_max")
        return z is not None and z >= float(Fraction(m.get("min_key_coordinate", "0")))
    sf = _num(d, "max_shortfall")
    return sf is not None and 0 < sf <= float(Fraction(m["max_shortfall"]))


def _m_line_reversal(f, m):
    """a line string that turns back on itself: the mitre join degenerates to a flat end at that vertex"""
    d = f.detail
    if f.kind != "property" or _fact(d, "reversal") != "True" or _fact(d, "type") not in ("LineString", "MultiLineString"):
        return False
    sf, unc = _num(d, "max_shortfall"), _num(d, "uncovered")
    if sf is not None:
        return 0 < sf <= float(Fraction(m["max_shortfall"]))
    return unc is not None and 0 < unc <= float(Fraction(m["max_uncovered"]))


def _m_huge_ratio(f, m):
    """buffer >= 10^5 x extent: GEOS simplifies the (scaled, tiny) input by 1 % of the buffer distance"""
    d = f.detail
    r = _num(d, "ratio")
    return (f.kind == "property" and r is not None and r >= float(Fraction(m["min_ratio"]))
            and ("does not contain" in d or "max_shortfall" in d))


def _m_monotone_mitre(f, m):
    """mitre joins / polygonal caps under different anisotropic scalings: the smaller result sticks out"""
    d = f.detail
    ex = _num(d, "excess")
    return (f.kind in ("property", "correspondence") and ex is not None and _fact(d, "type") in m["types"]
            and 0 < ex <= float(Fraction(m["max_excess"])))


def _m_zero_vs_tiny(f, m):
    """a zero buffer acts as the buffer 1e-9 (factor 1e9): the result for a positive buffer below 1e-9 is smaller"""
    d = f.detail
    ex = _num(d, "excess")
    if f.kind not in ("property", "correspondence") or ex is None or _fact(d, "zero_vs_tiny") != "True" or not f.inp:
        return False
    tiny = [frac(f.inp[b]) for a, b in (("tb", "tb2"), ("fb", "fb2")) if frac(f.inp[a]) == 0 and 0 < frac(f.inp[b]) < ZERO_AS]
    return 0 < ex <= 1.001 * sum(float(ZERO_AS / t) for t in tiny)


FINDING_MATCHERS = {"zero_vs_tiny": _m_zero_vs_tiny, "approx_shortfall": _m_approx_shortfall, "zero_buffer": _m_zero_buffer,
                    "line_reversal": _m_line_reversal, "huge_ratio": _m_huge_ratio, "monotone_mitre": _m_monotone_mitre}


# ---------------------------------------------------------------- tie 1: tables
def _table_obligations(ctx):
    from soundevent import data
    from .. import symtrace as st
    mf = getattr(data, "MAX_FREQUENCY", None)
    if not isinstance(mf, (int, float)) or isinstance(mf, bool):
        ctx.fail("obligation", "max_frequency", detail="`MAX_FREQUENCY` not found", extra={"op": "buffer_closed"})
    else:
        ctx.obligation("max_frequency", f"example : SE.MAXF = {st.lit(Fraction(mf))} := by decide +kernel\n",
                       {"op": "buffer_closed"})
    _signature_obligation(ctx)


def _signature_obligation(ctx):
    """the positional-signature table of `buffer_geometry` (inspect.signature): the parameters after `geometry`
    that a caller can bind by position, with their defaults, must start with the model's `bufferSig`; extra
    keywords must be accepted (`**kwargs`).  `C11_call_binding` then says what every call shape binds to."""
    import inspect
    from .. import symtrace as st
    import soundevent.geometry as sgeo
    fn = getattr(sgeo, "buffer_geometry", None)
    meta = {"op": "buffer_closed"}
    try:
        params = list(inspect.signature(fn).parameters.values())
        P = inspect.Parameter
        if any(q.kind == P.VAR_POSITIONAL for q in params):
            # a generic wrapper (`*args, **kwargs`): there is no table to read; how the buffers bind is then judged by the
            # call-shape correspondence alone (every shape against `boundBuffers bufferSig`)
            ctx.tally("call_signature:opaque-wrapper")
            return
        first = params[0]
        rest = [q for q in params[1:] if q.kind in (P.POSITIONAL_ONLY, P.POSITIONAL_OR_KEYWORD)]
        kwonly = [q.name for q in params if q.kind == P.KEYWORD_ONLY]
        table = []
        for q in rest:
            d = q.default
            if len(table) < 2 and (isinstance(d, bool) or not isinstance(d, (int, float)) or q.kind != P.POSITIONAL_OR_KEYWORD):
                raise TypeError(f"parameter {q.name} has no numeric default or is positional-only")
            table.append((q.name, Fraction(d) if isinstance(d, (int, float)) and not isinstance(d, bool) else Fraction(0)))
        if first.kind not in (P.POSITIONAL_ONLY, P.POSITIONAL_OR_KEYWORD):
            raise TypeError("the geometry cannot be passed by position")
        if not any(q.kind == P.VAR_KEYWORD for q in params):
            raise TypeError("extra keyword arguments (options for shapely.buffer) are no longer accepted")
        if {"time_buffer", "freq_buffer"} & set(kwonly):
            raise TypeError("a buffer became keyword-only")
    except Exception as e:  # noqa: BLE001 - the signature changed shape: a broken obligation, never a crash
        ctx.pre_failed.append("call_signature")
        ctx.fail("obligation", "call_signature", detail=f"signature of buffer_geometry could not be tabulated: {e!r}", extra=meta)
        return
    lean = "[" + ", ".join(f'("{n}", {st.lit(d)})' for n, d in table) + "]"
    # C11_signature_table: whatever optional parameters follow, the head of the table decides how the buffers bind
    ctx.obligation("call_signature",
                   f"example : ({lean} : SE.Buf.Sig).take 2 = SE.Buf.bufferSig := by decide +kernel\n", meta)


# ---------------------------------------------------------------- tie 1b: symbolic traces
class _Built:
    """what a stubbed constructor returns: the class tag and the validated symbolic coordinates"""

    def __init__(self, tag, coords):
        self.type = tag
        self.coordinates = coords

    def model_copy(self, **kw):     # a result handed out of (or into) a cache as a copy
        return self


class _CtorMeta(type):
    """the nine geometry classes as the traced code sees them: `data.X(coordinates=...)` runs the class's own
    field validators (the real code, in pydantic's order) on the symbolic coordinates and records the result;
    `isinstance(g, data.X)` looks at the stub's type tag"""

    def __instancecheck__(cls, obj):
        return getattr(obj, "type", None) == cls.tag

    def __call__(cls, coordinates=None, **kw):
        v = coordinates
        if cls.validate:
            v = list(v)
            decs = cls.real.__pydantic_decorators__.field_validators
            for dec in decs.values():
                if "coordinates" in dec.info.fields:
                    v = dec.func(v)
            v = list(v)
        return _Built(cls.tag, v)


def _Ctor(real_cls, tag, validate=True):
    return _CtorMeta("Stub" + tag, (), {"real": real_cls, "tag": tag, "validate": validate})


class _DataProxy:
    def __init__(self, real):
        self._real = real
        for tag in gen_geom.TYPES:
            cls = getattr(real, tag, None)
            if cls is not None:
                setattr(self, tag, _Ctor(cls, tag, validate=tag in ("TimeInterval", "BoundingBox")))

    def __getattr__(self, name):
        return getattr(self._real, name)


class _StubGeometry:
    """the argument of a traced call; what code that keys a cache by the whole geometry may ask of it is there too"""

    def __init__(self, type, coordinates):
        self.type = type
        self.coordinates = coordinates

    def model_dump(self, **kw):
        return {"type": self.type, "coordinates": self.coordinates}

    def model_dump_json(self, **kw):
        return json.dumps(self.model_dump(), default=repr)

    def model_copy(self, **kw):
        return self


class _TolerantJson:
    """`json` as the traced code sees it: symbolic numbers serialise as their terms (cache keys)"""

    def __init__(self, real):
        self._real = real

    def __getattr__(self, name):
        return getattr(self._real, name)

    def dumps(self, obj, *a, **kw):
        kw.setdefault("default", repr)
        return self._real.dumps(obj, *a, **kw)


class _Marker:
    def __init__(self, g):
        self.g = g


def _geom_leaf(v):
    if not isinstance(v, (_Built, _StubGeometry)):
        raise TypeError(f"traced function returned {type(v).__name__}")
    cs = v.coordinates if isinstance(v.coordinates, (list, tuple)) else [v.coordinates]
    c = [symx.num(x) for x in cs]
    if v.type == "TimeInterval" and len(c) == 2:
        return f"some (SE.Geom.timeInterval {c[0]} {c[1]})"
    if v.type == "BoundingBox" and len(c) == 4:
        return f"some (SE.Geom.boundingBox {c[0]} {c[1]} {c[2]} {c[3]})"
    if v.type == "shapely" and len(c) == 2:
        return f"some (SE.Geom.point {c[0]} {c[1]})"
    raise TypeError(f"unexpected result {v.type}/{len(c)}")


_DEFS = ["SE.Buf.bufferGeometry", "SE.Buf.bufferTS", "SE.Buf.bufferTI", "SE.Buf.bufferBB", "SE.Buf.mkInterval",
         "SE.Buf.mkBox", "SE.MAXF"]


def _tactic(name):
    return (f"unfold {name}\n  try simp only [SE.Buf.valid, SE.Buf.okTime, SE.Buf.okPt, Bool.and_eq_true, decide_eq_true_eq] at hv\n  "
            + "\n  ".join(f"try unfold {d}" for d in _DEFS) + "\n  try unfold SE.MAXF at hv\n  first | rfl | grind (splits := 60) | se_close")


def _tie_valid(ctx, name, fn, variables, model_term, witness, meta):
    """symx.sym_tie, with the property's quantifier as a hypothesis: the traced function equals the model on
    every *valid* geometry (and every pair of buffers, negative ones included)"""
    try:
        src, tree, n = symx.extract(name, fn, variables, "Option SE.Geom", _geom_leaf)
    except InfraError:
        raise
    except Exception as e:  # noqa: BLE001 - the stub no longer fits the code: a broken obligation, never a crash
        ctx.symbolic_ties[name] = {"error": repr(e)[:300]}
        ctx.pre_failed.append(name)
        ctx.fail("obligation", name, detail=f"symbolic trace of the current source failed: {e!r}", extra=dict(meta))
        return
    ctx.symbolic_ties[name] = {"paths": n}
    args = " ".join(variables)
    ctx.obligation(name, f"{src}\ntheorem {name}_tie ({args} : Rat) (hv : SE.Buf.valid {witness} = true) : "
                         f"{name} {args} = {model_term} := by\n  {_tactic(name)}\n", meta)


_LIB = "(fun _ tb fb => some (SE.Geom.point tb fb))"
_WITNESS = {"TimeStamp": (["t"], "(.timeStamp t)"), "TimeInterval": (["s", "e"], "(.timeInterval s e)"),
            "BoundingBox": (["s", "l", "e", "h"], "(.boundingBox s l e h)"),
            "Point": (["t", "f"], "(.point t f)"), "LineString": ([], "(.lineString [])"),
            "Polygon": ([], "(.polygon [])"), "MultiPoint": ([], "(.multiPoint [])"),
            "MultiLineString": ([], "(.multiLineString [])"), "MultiPolygon": ([], "(.multiPolygon [])")}


def _module_state(mod):
    """the mutable containers (and memoising functions) at the top level of a module"""
    return {n: copy.copy(v) for n, v in list(vars(mod).items())
            if isinstance(v, (dict, list, set)) and not n.startswith("__")}


def _stateless(mod, thunk):
    """the path-exhaustive tracer replays `thunk` once per path and needs every replay to start from the same
    state: module-level containers (a cache) are put back to what they held before the trace, memoising functions
    are cleared; a trace therefore describes a call in a fresh process (later calls: histories, purity monitors)"""
    snap = _module_state(mod)

    def wrapped():
        for n, v in snap.items():
            cur = getattr(mod, n, None)
            if type(cur) is type(v):
                if isinstance(cur, list):
                    cur[:] = v
                else:
                    cur.clear()
                    cur.update(v)
        for v in list(vars(mod).values()):
            cc = getattr(v, "cache_clear", None)
            if callable(cc):
                try:
                    cc()
                except Exception:  # noqa: BLE001
                    pass
        return thunk()
    return wrapped


def _symbolic_ties(ctx):
    import soundevent.geometry.operations as ops
    from soundevent import data as real_data
    tb, fb = Sym.var("tb"), Sym.var("fb")
    sy = {n: Sym.var(n) for n in ["t", "s", "l", "e", "h", "f"]}
    orig = {n: getattr(ops, n, None) for n in ("data", "geometry_to_shapely", "buffer_shapely_geometry", "json")}
    # symbolic numbers may be used as (parts of) dictionary keys while these traces run: a cache keyed by the whole
    # input is then traced like any other code (a hit is decided by the path oracle through `==`)
    saved_hash = Sym.__hash__
    Sym.__hash__ = lambda self: hash(self.e)
    if orig["json"] is not None:
        ops.json = _TolerantJson(orig["json"])
    ops.data = _DataProxy(real_data)
    ops.geometry_to_shapely = lambda g: _Marker(g)
    ops.buffer_shapely_geometry = (lambda shp, time_buffer=0, freq_buffer=0, **kw:
                                   _Built("shapely", [time_buffer, freq_buffer]))
    try:
        closed = [
            ("buffer_timestamp", ["t", "tb"], lambda: ops.buffer_timestamp(_StubGeometry("TimeStamp", sy["t"]), time_buffer=tb),
             "SE.Buf.bufferTS t tb"),
            ("buffer_interval", ["s", "e", "tb"],
             lambda: ops.buffer_interval(_StubGeometry("TimeInterval", [sy["s"], sy["e"]]), time_buffer=tb),
             "SE.Buf.bufferTI s e tb"),
            ("buffer_bounding_box_geometry", ["s", "l", "e", "h", "tb", "fb"],
             lambda: ops.buffer_bounding_box_geometry(
                 _StubGeometry("BoundingBox", [sy["s"], sy["l"], sy["e"], sy["h"]]), time_buffer=tb, freq_buffer=fb),
             "SE.Buf.bufferBB s l e h tb fb"),
        ]
        for (fname, V, thunk, mterm), ty in zip(closed, CLOSED):
            name = "ext_" + fname
            _tie_valid(ctx, name, _stateless(ops, thunk), V, mterm, _WITNESS[ty][1], {"op": "buffer_closed"})
        # guard + dispatch of buffer_geometry, for every type tag
        for ty in gen_geom.TYPES:
            cv, witness = _WITNESS[ty]
            coords = [sy[n] for n in cv]
            coords = coords[0] if ty == "TimeStamp" else coords
            name = "ext_buffer_geometry_" + ty
            if ty in CLOSED:
                _tie_valid(ctx, name,
                           _stateless(ops, lambda ty=ty, coords=coords: ops.buffer_geometry(_StubGeometry(ty, coords), time_buffer=tb, freq_buffer=fb)),
                           cv + ["tb", "fb"], f"SE.Buf.bufferGeometry {_LIB} {witness} tb fb", witness, {"op": "buffer_closed"})
                continue
            symx.sym_tie(ctx, name,
                         _stateless(ops, lambda ty=ty, coords=coords: ops.buffer_geometry(_StubGeometry(ty, coords), time_buffer=tb, freq_buffer=fb)),
                         cv + ["tb", "fb"], "Option SE.Geom",
                         f"SE.Buf.bufferGeometry {_LIB} {witness} tb fb", _geom_leaf,
                         tactic=_tactic(name),
                         meta={"op": "buffer_shapely"})
    finally:
        Sym.__hash__ = saved_hash
        for n, v in orig.items():
            if v is not None:
                setattr(ops, n, v)


# ---- the shapely pipeline: symbolic stand-ins for numpy coordinate arrays, shapely and json
class _SymArr:
    """an (n, 2) coordinate array of symbolic numbers: what the callbacks of `shapely.transform` receive"""

    def __init__(self, rows):
        self.rows = [list(r) for r in rows]

    def _zip(self, o, fn):
        if isinstance(o, _SymArr):
            cols = None
            other = o.rows
        else:
            other = None
            try:
                cols = list(o)
            except TypeError:
                cols = [o, o]
            if len(cols) != 2:
                raise TypeError("cannot broadcast against an (n, 2) array")
        out = []
        for i, r in enumerate(self.rows):
            c = other[i] if other is not None else cols
            out.append([fn(Sym.lift(r[0]), c[0]), fn(Sym.lift(r[1]), c[1])])
        return _SymArr(out)

    __array_ufunc__ = None     # numpy operands defer to the reflected methods below

    def __mul__(self, o): return self._zip(o, lambda a, b: a * b)
    def __rmul__(self, o): return self._zip(o, lambda a, b: b * a)
    def __truediv__(self, o): return self._zip(o, lambda a, b: a / b)
    def __add__(self, o): return self._zip(o, lambda a, b: a + b)
    def __radd__(self, o): return self._zip(o, lambda a, b: b + a)
    def __sub__(self, o): return self._zip(o, lambda a, b: a - b)
    def __len__(self): return len(self.rows)
    def __iter__(self): return iter(self.rows)

    def __getitem__(self, k):
        if isinstance(k, tuple) and len(k) == 2 and isinstance(k[0], slice) and isinstance(k[1], int):
            return [r[k[1]] for r in self.rows[k[0]]]
        return self.rows[k]

    @property
    def shape(self): return (len(self.rows), 2)

    @property
    def T(self): return [[r[0] for r in self.rows], [r[1] for r in self.rows]]


class _SymShape:
    """a shapely geometry seen through one generic point and its bounding box (symbolic).  A coordinate map
    is applied to the point and to the two corners of the box (right for maps that increase along each axis,
    which is what `C11_pipeline_scaling` proves of both transforms)."""

    def __init__(self, log, pt, bounds):
        self._log, self.pt, self._bounds = log, pt, bounds

    @property
    def bounds(self):
        return tuple(self._bounds)

    def buffer(self, distance, **kw):
        return _ShapelyStub.buffer_(self._log, self, distance)

    @property
    def __geo_interface__(self):
        return {"type": self._log["kind"], "coordinates": self}


class _GeoJson:
    def __init__(self, kind, shape):
        self.kind, self.shape = kind, shape


class _ShapelyStub:
    """stands in for the `shapely` module inside `buffer_shapely_geometry`: records what the function asks of it"""

    def __init__(self, real, log, kind):
        self._real, self._log, self._kind = real, log, kind
        log["kind"] = kind

    def __getattr__(self, name):
        return getattr(self._real, name)

    def transform(self, geometry, transformation, include_z=False, **kw):
        out = transformation(_SymArr([geometry.pt, geometry.bounds[:2], geometry.bounds[2:]]))
        rows = [list(r) for r in out]
        self._log.setdefault("transforms", []).append(rows[0])
        return _SymShape(self._log, rows[0], rows[1] + rows[2])

    @staticmethod
    def buffer_(log, geometry, distance):
        if "buffer" in log:
            raise TypeError("shapely.buffer called more than once")
        log["buffer"] = (geometry.pt, distance)
        q = [Sym.var("qx"), Sym.var("qy")]
        return _SymShape(log, q, [Sym.var("q0"), Sym.var("q1"), Sym.var("qm"), Sym.var("q3")])

    def buffer(self, geometry, distance, *a, **kw):
        return _ShapelyStub.buffer_(self._log, geometry, distance)

    def clip_by_rect(self, geometry, xmin, ymin, xmax, ymax, **kw):
        if "clip" in self._log:
            raise TypeError("shapely.clip_by_rect called more than once")
        self._log["clip"] = (geometry.pt, [xmin, ymin, xmax, ymax], geometry.bounds[2])
        return _SymShape(self._log, geometry.pt, geometry.bounds)

    def to_geojson(self, geometry, *a, **kw):
        return _GeoJson(self._kind, geometry)


class _JsonStub:
    def __init__(self, real):
        self._real = real

    def __getattr__(self, name):
        return getattr(self._real, name)

    def loads(self, s, *a, **kw):
        if isinstance(s, _GeoJson):
            return {"type": s.kind, "coordinates": s.shape}
        return self._real.loads(s, *a, **kw)


def _pipeline_thunk(ops, kind, tb, fb):
    """run the real `buffer_shapely_geometry` on a symbolic shape; the value is everything it asked of shapely"""
    import json as real_json
    import shapely as real_shapely
    from soundevent import data as real_data

    def thunk():
        log = {}
        proxy = _DataProxy(real_data)
        saved = {n: getattr(ops, n, None) for n in ("shapely", "json", "data")}
        ops.shapely, ops.json, ops.data = _ShapelyStub(real_shapely, log, kind), _JsonStub(real_json), proxy
        try:
            g = _SymShape(log, [Sym.var("px"), Sym.var("py")],
                          [Sym.var("p0"), Sym.var("p1"), Sym.var("p2"), Sym.var("p3")])
            out = ops.buffer_shapely_geometry(g, time_buffer=tb, freq_buffer=fb)
        finally:
            for n, v in saved.items():
                if v is not None:
                    setattr(ops, n, v)
                elif hasattr(ops, n):
                    delattr(ops, n)
        if not isinstance(out, _Built) or out.type != kind or not isinstance(out.coordinates, _SymShape):
            raise TypeError(f"a clipped {kind} was not returned as data.{kind}")
        if "buffer" not in log or "clip" not in log:
            raise TypeError("the function did not buffer and clip through shapely")
        if out.coordinates.pt is not log["clip"][0]:
            raise TypeError("the returned geometry is not the clipped one")
        return log
    return thunk


def _pipeline_leaf(log):
    n = symx.num
    sc, dist = log["buffer"]
    un, rect, max_time = log["clip"]
    return (f"some (({n(sc[0])}, {n(sc[1])}), {n(dist)}, ({n(un[0])}, {n(un[1])}), "
            f"{n(rect[0])}, {n(rect[1])}, decide ({n(max_time)} ≤ {n(rect[2])}), {n(rect[3])})")


_PIPE_DEFS = ["SE.Buf.pipelineSkeletonSpec", "SE.Buf.scalePt", "SE.Buf.unscalePt", "SE.Buf.clipRect", "SE.Buf.factor", "SE.MAXF"]


def _pipeline_ties(ctx):
    import soundevent.geometry.operations as ops
    tb, fb = Sym.var("tb"), Sym.var("fb")
    for kind in ("Polygon", "MultiPolygon"):
        name = "ext_buffer_shapely_geometry_" + kind
        tac = (f"unfold {name}\n  " + "\n  ".join(f"try unfold {d}" for d in _PIPE_DEFS)
               + "\n  first\n  | rfl\n  | ((repeat' split) <;> (try simp only [Option.some.injEq, Prod.mk.injEq, decide_eq_true_eq]) <;> grind)"
               + "\n  | grind (splits := 20)\n  | se_close")
        symx.sym_tie(ctx, name, _pipeline_thunk(ops, kind, tb, fb), ["px", "py", "qx", "qy", "qm", "tb", "fb"],
                     "Option (SE.Pt × Rat × SE.Pt × Rat × Rat × Bool × Rat)",
                     "some (SE.Buf.pipelineSkeletonSpec px py qx qy tb fb)", _pipeline_leaf,
                     tactic=tac, meta={"op": "buffer_shapely"})


# ---------------------------------------------------------------- tie 2 generators
def _g(ty, c):
    def enc(x):
        if isinstance(x, (list, tuple)):
            return [enc(y) for y in x]
        return rat(x)
    return {"type": ty, "coordinates": enc(c)}


def _case(g, tb, fb):
    return {"g": g, "tb": rat(tb), "fb": rat(fb)}


H = Fraction(1, 2)
T_BUFS = [Fraction(-1, 2), 0, H, 1, 4, 10 ** 7]
F_BUFS = [-1, 0, H, 1, 2, M, 2 * M]


def closed_grid_cases():
    """every time stamp / interval / box on a small grid touching time 0, frequency 0 and MAX x every buffer pair"""
    ts = [0, H, 1, 2]
    fs = [0, 1, M - 1, M]
    for t in ts:
        for tb, fb in itertools.product(T_BUFS, [-1, 0, 1]):
            yield _case(_g("TimeStamp", t), tb, fb)
    for s, e in itertools.combinations_with_replacement(ts, 2):
        for tb, fb in itertools.product(T_BUFS, [-1, 0, 1]):
            yield _case(_g("TimeInterval", [s, e]), tb, fb)
    for s, e in itertools.combinations_with_replacement([0, 1, 2], 2):
        for l, h in itertools.combinations_with_replacement(fs, 2):
            for tb, fb in itertools.product(T_BUFS, F_BUFS):
                yield _case(_g("BoundingBox", [s, l, e, h]), tb, fb)


def closed_random_cases(rng, n):
    for i in range(n):
        ty = CLOSED[i % 3]
        k = rng.choice([1, 3, 6])
        scale = rng.choice([(8.0, 8.0), (100.0, 24000.0), (3600.0, float(M))])
        g = gen_geom.gen_geometry(rng, ty, tmax=scale[0], fmax=scale[1], k=k)
        if rng.random() < 0.2 and ty == "BoundingBox":
            c = g["coordinates"]
            c[rng.choice([1, 3])] = rng.choice(["0", str(M)])
            c[1], c[3] = sorted([c[1], c[3]], key=frac)
            g = {"type": ty, "coordinates": [rat(frac(x)) for x in c]}
        q = 1 << k
        tb = Fraction(rng.randint(-2, 40 * q), q) if rng.random() < 0.9 else Fraction(rng.choice([0, 10 ** 7]))
        fb = Fraction(rng.randint(-2, 40 * q), q) * rng.choice([1, 1, 1000, 10 ** 5]) if rng.random() < 0.9 else Fraction(rng.choice([0, 2 * M]))
        yield _case(g, tb, fb)


def closed_free_cases(rng, n):
    def t():
        return rng.choice([rng.uniform(0, 10), round(rng.uniform(0, 100), 2), rng.uniform(0, 3600)])

    def f():
        return rng.choice([rng.uniform(0, M), round(rng.uniform(0, 24000), 1), float(M), 0.0])
    for i in range(n):
        ty = CLOSED[i % 3]
        if ty == "TimeStamp":
            c = t()
        elif ty == "TimeInterval":
            c = sorted([t(), t()])
        else:
            a, b = sorted([t(), t()])
            l, h = sorted([f(), f()])
            c = [a, l, b, h]
        tb = rng.choice([0.0, rng.uniform(0, 5), round(rng.uniform(0, 1), 3), rng.uniform(0, 200)])
        fb = rng.choice([0.0, rng.uniform(0, 500), round(rng.uniform(0, 100), 1), rng.uniform(0, 2 * M)])
        yield {"g": {"type": ty, "coordinates": gen_geom._enc_f(c)}, "tb": rat(tb), "fb": rat(fb)}


def _norm(gj):
    return gen_geom.from_data(gen_geom.to_data(gj))


def shapely_special_geometries():
    """the six shapely-buffered types at the edges of the domain and in degenerate shapes"""
    out = [
        _g("Point", [0, 0]), _g("Point", [3, M]), _g("Point", [0, M]), _g("Point", [H, 1000]),
        _g("MultiPoint", [[0, 0], [5, M]]), _g("MultiPoint", [[1, 2]]), _g("MultiPoint", [[4, 1], [1, 7], [3, 3]]),
        _g("LineString", [[0, 0], [4, M]]), _g("LineString", [[1, 3], [2, 3], [7, 3]]), _g("LineString", [[1, 2], [1, 5]]),
        _g("LineString", [[0, 5], [2, 0], [4, 5]]), _g("LineString", [[1, 5], [3, 1], [2, 7], [4, 2]]),
        _g("MultiLineString", [[[1, 3], [2, 3]], [[4, 3], [5, 3]]]), _g("MultiLineString", [[[0, M], [3, M - 8]], [[1, 0], [2, 4]]]),
        _g("Polygon", [[[0, 0], [8, 0], [8, 8], [0, 8], [0, 0]]]),
        _g("Polygon", [[[0, 0], [8, 0], [8, 8], [0, 8], [0, 0]], [[2, 2], [4, 2], [4, 4], [2, 4], [2, 2]]]),
        _g("Polygon", [[[0, M - 16], [8, M - 16], [4, M], [0, M - 16]]]), _g("Polygon", [[[1, 2], [5, 2], [3, 7], [1, 2]]]),
        _g("Polygon", [[[0, 5], [1, 100], [2, 5], [0, 5]]]),
        _g("MultiPolygon", [[[[0, 0], [2, 0], [1, 3], [0, 0]]], [[[4, 1], [6, 1], [5, 3], [4, 1]]]]),
        _g("MultiPolygon", [[[[0, 0], [8, 0], [8, 8], [0, 8], [0, 0]], [[2, 2], [4, 2], [4, 4], [2, 4], [2, 2]]],
                            [[[9, 1], [12, 1], [12, 9], [9, 1]]]]),
    ]
    return [_norm(g) for g in out]


def _extent(gj):
    b = _bounds_of(gj)
    return float(b[2] - b[0]), float(b[3] - b[1])


def _buffers_for(rng, gj, decades=(-2, 2)):
    """a pair of positive dyadic buffers between 10^a and 10^b times the extent (or of unit size on a flat axis)"""
    et, ef = _extent(gj)
    out = []
    for ext in (et, ef):
        base = ext if ext > 0 else rng.choice([0.125, 1.0, 8.0])
        v = base * 10 ** rng.uniform(*decades)
        e = math.floor(math.log2(v)) - 6
        out.append(Fraction(max(1, round(v / 2.0 ** e))) * Fraction(2) ** e)
    return out


def shapely_cases(rng, n):
    geoms = shapely_special_geometries()
    scales = [(8.0, 8.0, 3), (64.0, 20000.0, 1), (1000.0, float(M), 0), (4.0, 4.0, 2)]
    i = 0
    while len(geoms) < n:
        ty = SHAPELY[i % 6]
        tmax, fmax, k = scales[(i // 6) % len(scales)]
        g = _norm(gen_geom.gen_valid(rng, ty, tmax=tmax, fmax=fmax, k=k))
        i += 1
        if ty in ("Polygon", "MultiPolygon") and not _is_simple(g):
            continue
        geoms.append(g)
    for g in geoms:
        tb, fb = _buffers_for(rng, g)
        r = rng.random()
        if r < 0.08:
            tb = -tb if rng.random() < 0.5 else tb
            fb = -fb if tb > 0 else fb
        elif r < 0.25 and g["type"] in ("Point", "MultiPoint"):
            # points take buffers larger than the domain
            tb, fb = rng.choice([(tb, Fraction(2 * M)), (Fraction(10 ** 7), fb), (Fraction(10 ** 7), Fraction(2 * M))])
        elif r < 0.32:
            fb = Fraction(2 * M) if _extent(g)[1] * 10 ** 4 >= 2 * M else fb
        yield _case(g, tb, fb)


def tiny_buffer_cases(rng, n):
    """buffers far below the geometry's extent (1e-7 .. 1e-3 of a unit), on small coordinates where binary64
    still resolves them"""
    for i in range(n):
        g = _norm(gen_geom.gen_valid(rng, SHAPELY[i % 6], tmax=8.0, fmax=8.0, k=3))
        if g["type"] in ("Polygon", "MultiPolygon") and not _is_simple(g):
            continue
        tb = Fraction(rng.randint(1, 1 << 10), 1 << rng.choice([20, 24, 28, 33]))
        fb = Fraction(rng.randint(1, 1 << 10), 1 << rng.choice([20, 24, 28, 33]))
        if i % 4 == 0:
            fb = _buffers_for(rng, g)[1]
        elif i % 4 == 1:
            tb = _buffers_for(rng, g)[0]
        yield _case(g, tb, fb)


def zero_buffer_cases(rng, n):
    """one buffer (or both) exactly zero: the factor-1e9 branch of the pipeline"""
    geoms = shapely_special_geometries()
    for i in range(n):
        g = geoms[i % len(geoms)] if i < len(geoms) else _norm(gen_geom.gen_valid(rng, SHAPELY[i % 6], tmax=8.0, fmax=8.0, k=3))
        if g["type"] in ("Polygon", "MultiPolygon") and not _is_simple(g):
            continue
        tb, fb = _buffers_for(rng, g, decades=(-1, 1))
        which = i % 3
        yield _case(g, 0 if which != 1 else tb, 0 if which != 0 else fb)


def monotone_cases(rng, n):
    for c in shapely_cases(rng, n):
        tb, fb = frac(c["tb"]), frac(c["fb"])
        if tb <= 0 or fb <= 0 or tb > 10 ** 6 or fb > M:
            continue
        k1, k2 = rng.choice([(1, 1), (1, Fraction(3, 2)), (Fraction(3, 2), 1), (4, 4), (Fraction(1025, 1024), 1), (2, 1), (1, 8)])
        yield {"g": c["g"], "tb": c["tb"], "fb": c["fb"], "tb2": rat(tb * k1), "fb2": rat(fb * k2)}


def monotone_zero_cases(rng, n):
    """the smaller pair has a zero buffer (the factor 1e9, which acts as the buffer 1e-9): against the same pair,
    and against a positive buffer of at least 1e-9 on that axis (hypotheses `hzt`, `hzf` of
    C11_pipeline_monotone_ideal); small coordinates, where 1e-9 is still resolved"""
    for i in range(n):
        g = _norm(gen_geom.gen_valid(rng, SHAPELY[i % 6], tmax=8.0, fmax=8.0, k=3))
        if g["type"] in ("Polygon", "MultiPolygon") and not _is_simple(g):
            continue
        tb, fb = _buffers_for(rng, g, decades=(-1, 1))
        up = rng.choice([Fraction(0), Fraction(1, 10 ** 9), Fraction(1, 1 << 20), Fraction(1, 8), Fraction(2)])
        k = rng.choice([1, Fraction(3, 2), 4])
        if i % 2:
            yield {"g": g, "tb": "0", "fb": rat(fb), "tb2": rat(up), "fb2": rat(fb * k)}
        else:
            yield {"g": g, "tb": rat(tb), "fb": "0", "tb2": rat(tb * k), "fb2": rat(up)}


def _is_simple(gj):
    """OGC validity of a polygonal geometry (the property's quantifier: non-self-intersecting), asked of shapely"""
    try:
        return bool(_shp(gj).is_valid)
    except Exception:  # noqa: BLE001
        return False


# sizes at which an implementation could switch strategy (> 16, > 256, >= 1024 vertices of the input or of the
# buffered outline, which has about twice as many as a line and as many as a ring, plus the caps), each with its
# neighbours, and the sizes in between
SIZES = [15, 16, 17, 18, 33, 64, 100, 112, 120, 126, 127, 128, 129, 130, 131, 140, 200, 254, 255, 256, 257, 258, 300,
         511, 512, 513, 700, 1000, 1023, 1024, 1025, 1300, 2000]
SIZES_QUICK = [16, 17, 64, 112, 127, 128, 129, 130, 131, 200, 255, 256, 257, 300, 512, 513, 1000, 1024, 1025, 2000]
DENSE_KINDS = ("band", "contour", "ellipse", "closed_contour", "multi_contour", "multi_band", "multipoint")
MAX_MULTIPOINT = 520          # GEOS unions one circle per point: seconds per call beyond this


def _q(x, k):
    return Fraction(round(x * (1 << k)), 1 << k)


def dense_geometry(rng, kind, n):
    """a smooth, densely sampled shape with about n vertices whose extremes lie on shallow parts of the outline:
    a whistle contour (line), the band around it (polygon), an ellipse (polygon / closed line), two of them
    (multi-types), the samples alone (multi-point); times on the 2^-12 grid, frequencies on the 2^-4 grid"""
    t0 = rng.choice([0.0, 0.5, 1.0, 30.0])
    T = rng.choice([0.5, 2.0, 8.0])
    f0 = rng.choice([800.0, 6000.0, 40000.0])
    a = f0 * rng.choice([0.05, 0.2])
    k = rng.choice([0.5, 1.0, 1.0, 3.0])

    def contour(n, t0, T, up=True):
        return [[_q(t0 + T * i / (n - 1), 12), _q(f0 + (a if up else -a) * math.sin(k * math.pi * i / (n - 1)), 4)] for i in range(n)]

    def band(n, t0, T):
        m = max(3, n // 2)
        upper = contour(m, t0, T)
        lower = [[p[0], p[1] - _q(a * (1.0 + 0.4 * math.sin(math.pi * i / (m - 1))), 4)] for i, p in enumerate(upper)]
        ring = upper + lower[::-1]
        return [ring + [ring[0]]]

    def ellipse(n, ct, cf, rt, rf):
        ring = [[_q(ct + rt * math.cos(2 * math.pi * i / n), 12), _q(cf + rf * math.sin(2 * math.pi * i / n), 4)] for i in range(n)]
        return ring + [ring[0]]

    if kind == "contour":
        return _g("LineString", contour(n, t0, T))
    if kind == "band":
        return _g("Polygon", band(n, t0, T))
    if kind == "ellipse":
        return _g("Polygon", [ellipse(n, t0 + T, f0, T, a)])
    if kind == "closed_contour":
        return _g("LineString", ellipse(n, t0 + T, f0, T, a))
    if kind == "multi_contour":
        return _g("MultiLineString", [contour(max(2, n // 2), t0, T), contour(max(2, n - n // 2), t0 + 2 * T, T, up=False)])
    if kind == "multi_band":
        return _g("MultiPolygon", [band(max(6, n // 2), t0, T), band(max(6, n - n // 2), t0 + 2 * T, T)])
    if kind == "multipoint":
        return _g("MultiPoint", contour(min(n, MAX_MULTIPOINT), t0, T))
    raise ValueError(kind)


def dense_cases(rng, sizes, kinds_per_size):
    """many-vertex geometries x buffers between 0.3 % and 50 % of their extent (the buffered outline stays smooth)"""
    i = 0
    for n in sizes:
        for j in range(kinds_per_size):
            kind = DENSE_KINDS[(i + j) % len(DENSE_KINDS)]
            g = _norm(dense_geometry(rng, kind, n))
            if g["type"] in ("Polygon", "MultiPolygon") and not _is_simple(g):
                continue
            tb, fb = _buffers_for(rng, g, decades=(-2.5, -0.3))
            yield _case(g, tb, fb)
        i += kinds_per_size


def closed_boundary_cases():
    """tolerance-sized offsets (2^-20 .. 2^-40, and the smallest positive floats) on both sides of every comparison
    the closed forms and the guard make, at small and large magnitudes, and the exact ties; all sums stay exact
    except where marked `free` (one rounding, judged in round-once mode)"""
    eps = [Fraction(1, 1 << 20), Fraction(1, 1 << 30), Fraction(1, 1 << 40)]
    tiny = [Fraction(1, 1 << 40), Fraction(1, 1 << 60), Fraction(1e-12), Fraction(5e-324), Fraction(1e-9)]
    samples = [_g("TimeStamp", 1), _g("TimeInterval", [1, 2]), _g("BoundingBox", [1, 10, 2, 20]), _g("Point", [1, 10]),
               _g("LineString", [[1, 10], [2, 20]]), _g("Polygon", [[[1, 10], [2, 10], [2, 20], [1, 10]]]),
               _g("MultiPoint", [[1, 10]]), _g("MultiLineString", [[[1, 10], [2, 20]]]),
               _g("MultiPolygon", [[[[1, 10], [2, 10], [2, 20], [1, 10]]]])]
    # the guard: a buffer just below zero is rejected, zero and just above are not -- for every type
    for g in samples:
        g = _norm(g)
        for d in tiny:
            for tb, fb in ((-d, 1), (1, -d), (-d, -d), (-d, 0), (0, -d)):
                yield _case(g, tb, fb)
            if g["type"] in CLOSED:       # just above zero: accepted; `t - d` is rounded once (judged in round-once mode)
                for tb, fb in ((d, 1), (1, d), (d, d), (0, d), (d, 0)):
                    yield {**_case(g, tb, fb), "free": True}
    # the clamp at time 0: start - tb just below, at and just above 0 (small and large times)
    for t in (1, 4096, 10 ** 7):
        for d in eps + [0]:
            if t * (1 << 40) * 2 >= (1 << 52) and d and d < Fraction(1, 1 << 20):
                continue
            for sgn in (1, -1):
                tb = t + sgn * d
                yield _case(_g("TimeStamp", t), tb, 0)
                yield _case(_g("TimeInterval", [t, t + 1]), tb, 1)
                yield _case(_g("BoundingBox", [t, 10, t + 1, 20]), tb, 1)
    # the clamps at frequency 0 and MAX_FREQUENCY: low - fb and high + fb just inside, at and just beyond the edge
    for a in (1, 1024, 10 ** 6):
        for d in [Fraction(1, 1 << 20), Fraction(1, 1 << 28), 0]:
            for sgn in (1, -1):
                fb = a + sgn * d
                yield _case(_g("BoundingBox", [1, a, 2, M - a]), 1, fb)       # both edges at once
                yield _case(_g("BoundingBox", [1, a, 2, a]), 0, fb)
                yield _case(_g("BoundingBox", [0, M - a, 0, M - a]), 0, fb)
    # interplay: a geometry starting at (or a hair after) time 0 x tiny / small time buffers x zero / tiny / unit
    # frequency buffers -- every combination, for the three closed types
    for s0 in (0, Fraction(1, 1 << 41), Fraction(1, 1 << 21)):
        for tb in (Fraction(1, 1 << 40), Fraction(1, 1 << 20), Fraction(1, 1 << 11), Fraction(1, 2)):
            for fb in (0, Fraction(1, 1 << 28), 1):
                yield _case(_g("TimeStamp", s0), tb, fb)
                yield _case(_g("TimeInterval", [s0, s0 + 1]), tb, fb)
                yield _case(_g("BoundingBox", [s0, Fraction(1, 1 << 29), s0 + 1, 20]), tb, fb)
                yield _case(_g("BoundingBox", [s0, 0, s0, M]), tb, fb)
    # degenerate boxes / intervals sitting on the edges, buffers equal to the whole domain
    for g in (_g("BoundingBox", [0, 0, 0, 0]), _g("BoundingBox", [0, M, 0, M]), _g("BoundingBox", [0, 0, 0, M]),
              _g("TimeInterval", [0, 0]), _g("TimeStamp", 0)):
        for tb, fb in ((0, 0), (0, M), (M, 0), (Fraction(1, 1 << 40), Fraction(1, 1 << 28)), (M, M)):
            yield _case(g, tb, fb)


def lattice_cases():
    """every lattice point of two non-dyadic buffer axes (0.01 s, 0.1 Hz steps) against coordinates on such lattices"""
    for i in range(101):
        for tb in (i * 0.01, i / 100):
            yield {"g": {"type": "TimeStamp", "coordinates": rat(0.29)}, "tb": rat(tb), "fb": "0"}
            yield {"g": {"type": "TimeInterval", "coordinates": [rat(0.58), rat(0.59)]}, "tb": rat(tb), "fb": "0"}
            yield {"g": {"type": "BoundingBox", "coordinates": [rat(0.3), rat(1.1), rat(0.7), rat(float(M) - 0.3)]},
                   "tb": rat(tb), "fb": rat(i * 0.1)}


_VARIANT_GEOMS = {
    "TimeStamp": [2], "TimeInterval": [[1, 3]], "BoundingBox": [[1, 2, 3, 7]], "Point": [[2, 5]],
    "LineString": [[[1, 2], [2, 6], [4, 3]]], "Polygon": [[[[1, 2], [5, 2], [3, 7], [1, 2]]]],
    "MultiPoint": [[[1, 2], [3, 5]]], "MultiLineString": [[[[1, 3], [2, 4]], [[4, 3], [5, 1]]]],
    "MultiPolygon": [[[[[0, 0], [2, 0], [1, 3], [0, 0]]], [[[4, 1], [6, 1], [5, 3], [4, 1]]]]],
}
_NUM_VALUES = {"float": [(Fraction(3, 8), Fraction(5, 2)), (0, Fraction(5, 2)), (Fraction(3, 8), 0)],
               "np64": [(Fraction(3, 8), Fraction(5, 2)), (0, Fraction(1, 2)), (Fraction(7, 4), 0)],
               "np32": [(Fraction(1, 2), Fraction(3, 4)), (0, Fraction(3, 4)), (Fraction(1, 2), 0)],
               "int": [(3, 5), (0, 7), (3, 0)], "npint": [(3, 5), (0, 7), (5, 0)], "bool": [(1, 1), (0, 1), (1, 0)],
               "npu8": [(1, 3), (0, 5), (3, 0)], "npu16": [(3, 300), (0, 7), (1, 0)], "npu32": [(1, 5), (0, 70000), (3, 0)],
               "npu64": [(3, 1), (0, 7), (5, 0)], "npi8": [(3, 5), (0, 1), (7, 0)], "npi16": [(1, 300), (0, 3), (5, 0)],
               "npi32": [(5, 3), (0, 70000), (1, 0)],
               # binary16: buffers whose reciprocal (the scale factor of the pipeline) is exact in that type too
               "npf16": [(Fraction(1, 2), Fraction(1, 4)), (0, 2), (Fraction(1, 8), 0)],
               "npbool": [(1, 1), (0, 1), (1, 0)]}
# the largest buffer of a narrow type (twice it does not fit the type any more); binary64 holds all of them exactly
_NUM_LIMITS = {"npu8": 2 ** 8 - 1, "npi8": 2 ** 7 - 1, "npu16": 2 ** 16 - 1, "npi16": 2 ** 15 - 1, "npu32": 2 ** 32 - 1,
               "npi32": 2 ** 31 - 1, "npu64": 2 ** 40 + 1, "npint": 2 ** 40 + 1, "npf16": 1024, "np32": 2 ** 24 - 1}


def variant_cases(rng, full=False):
    """the same calls written in every way a caller may: (type x call shape x number representation) and
    (type x construction path x zero / positive buffer pattern), plus random combinations"""
    for ty in gen_geom.TYPES:
        g = _norm(_g(ty, _VARIANT_GEOMS[ty][0]))
        for sh in SHAPES:
            for i, nt in enumerate(NUMS):
                nf = NUMS[(i + SHAPES.index(sh)) % len(NUMS)]
                for j, ((tb, _), (_, fb)) in enumerate(zip(_NUM_VALUES[nt], _NUM_VALUES[nf])):
                    if not full and j != (i + SHAPES.index(sh)) % 3:
                        continue
                    yield {**_case(g, tb, fb), "how": {"shape": sh, "nt": nt, "nf": nf}}
        # both buffers in the same representation (two entries of one typed array), every zero / positive pattern
        for i, nt in enumerate(NUMS):
            for j, (tb, fb) in enumerate(_NUM_VALUES[nt]):
                yield {**_case(g, tb, fb), "how": {"shape": SHAPES[(i + j) % len(SHAPES)], "nt": nt, "nf": nt}}
        # buffers at the upper end of a narrow type (closed forms; points, which take buffers of any size)
        if ty in CLOSED or ty in ("Point", "MultiPoint"):
            for i, (nt, lim) in enumerate(sorted(_NUM_LIMITS.items())):
                for j, (tb, fb) in enumerate([(lim, lim), (lim, 0), (0, lim)] if ty in CLOSED else [(lim, lim)]):
                    yield {**_case(g, tb, fb), "how": {"shape": SHAPES[(i + j) % len(SHAPES)], "nt": nt, "nf": nt}}
        for k, path in enumerate(PATHS):
            for j, (tb, fb) in enumerate(_NUM_VALUES["float"]):
                yield {**_case(g, tb, fb), "how": {"shape": SHAPES[(k + j) % len(SHAPES)], "path": path}}
    for i in range(120 if not full else 1200):
        ty = gen_geom.TYPES[i % 9]
        g = _norm(gen_geom.gen_valid(rng, ty, tmax=8.0, fmax=8.0, k=3))
        if ty in ("Polygon", "MultiPolygon") and not _is_simple(g):
            continue
        nt, nf = rng.choice(NUMS), rng.choice(NUMS)
        tb, fb = rng.choice(_NUM_VALUES[nt])[0], rng.choice(_NUM_VALUES[nf])[1]
        yield {**_case(g, tb, fb), "how": {"shape": rng.choice(SHAPES), "nt": nt, "nf": nf, "path": rng.choice(PATHS)}}


def _h_variants(x, rng):
    """neighbours of a call: the same geometry with other buffers / a zero buffer / written another way / with
    options for shapely.buffer, and another geometry with the same buffers"""
    tb, fb = frac(x["tb"]), frac(x["fb"])
    out = [{**x, "tb": rat(tb * 2), "fb": rat(fb / 2)}, {**x, "tb": "0"}, {**x, "fb": "0"}, {**x, "tb": rat(tb + 1), "fb": rat(fb + 2)},
           {**x, "how": {"shape": rng.choice(SHAPES), "nt": rng.choice(NUMS), "nf": rng.choice(NUMS), "path": rng.choice(PATHS)}}]
    for o in rng.sample(OPTIONS, 3):
        out.append({**{k: v for k, v in x.items() if k != "how"}, "opts": o})
    ty = rng.choice(gen_geom.TYPES)
    out.append({**x, "g": _norm(_g(ty, _VARIANT_GEOMS[ty][0]))})
    return out


def history_leak_grid(full=False):
    """a call with an option for shapely.buffer, then plain calls: the option may not show in them"""
    base = {ty: _case(_norm(_g(ty, _VARIANT_GEOMS[ty][0])), Fraction(1, 2), Fraction(3, 4)) for ty in gen_geom.TYPES}
    i = 0
    for o in OPTIONS:
        for b in SHAPELY:
            firsts = gen_geom.TYPES if full else [gen_geom.TYPES[i % 9], SHAPELY[i % 6]]
            for a in firsts:
                yield {"seq": [{"inp": {**base[a], "opts": o}}, {"inp": base[b]}, {"inp": base["BoundingBox"]}]}
            i += 1


def history_cases(rng, n, dense=2):
    cases = []
    for ty in gen_geom.TYPES:
        cases.append(_case(_norm(_g(ty, _VARIANT_GEOMS[ty][0])), Fraction(1, 2), Fraction(3, 4)))
        for _ in range(3):
            g = _norm(gen_geom.gen_valid(rng, ty, tmax=8.0, fmax=8.0, k=3))
            if ty in ("Polygon", "MultiPolygon") and not _is_simple(g):
                continue
            tb, fb = _buffers_for(rng, g, decades=(-1, 0.5))
            cases.append(_case(g, tb, fb))
    for c in list(dense_cases(rng, [140, 300], dense)):
        cases.append(c)
    return history.sequences(rng, cases, n, variants=_h_variants, reuse_hows=H_REUSE, poison=True)


def valid_cases(rng, results, n):
    """the Lean validator against the data model: real results of the pipeline, generated geometries, malformed variants"""
    pool = list(results)
    for i in range(n):
        pool.append(_norm(gen_geom.gen_valid(rng, gen_geom.TYPES[i % 9], tmax=8.0, fmax=8.0, k=2)))
    out = []
    for g in pool:
        out.append({"g": g})
        m = _malform(rng, g)
        if m is not None:
            out.append({"g": m})
    return out


def _malform(rng, g):
    import copy
    g = copy.deepcopy(g)
    c, ty = g["coordinates"], g["type"]

    def leaf_lists(x):
        if isinstance(x, list) and x and isinstance(x[0], str):
            yield x
        elif isinstance(x, list):
            for y in x:
                yield from leaf_lists(y)
    kind = rng.choice(["neg_time", "neg_freq", "over_max", "short", "order"])
    if ty == "TimeStamp":
        g["coordinates"] = "-1/4"
        return g
    if ty == "TimeInterval":
        g["coordinates"] = rng.choice([["2", "1"], ["-1", "1"], [c[0], c[0]]])
        return g
    pts = list(leaf_lists(c))
    if not pts:
        return None
    p = rng.choice(pts)
    if ty == "BoundingBox":
        if kind == "order":
            p[0], p[2] = "3", "1"
        else:
            p[rng.choice([1, 3])] = rng.choice(["-1", str(M + 1)])
        return g
    if kind == "neg_time":
        p[0] = "-1/8"
    elif kind == "neg_freq":
        p[1] = "-1/8"
    elif kind == "over_max":
        p[1] = rat(Fraction(M) + Fraction(1, 8))
    elif kind == "short":
        if ty in ("Polygon", "MultiLineString"):
            c[0] = c[0][:2] if ty == "Polygon" else c[0][:1]
        elif ty == "MultiPolygon":
            c[0][0] = c[0][0][:2]
        elif ty in ("LineString", "MultiPoint"):
            g["coordinates"] = c[:1] if ty == "LineString" else []
        else:
            p[1] = "-1"
    else:
        if ty in ("LineString",):
            g["coordinates"] = list(reversed(c))
        elif ty == "MultiLineString":
            c[0] = list(reversed(c[0]))
        elif ty == "Polygon":
            g["coordinates"] = []
        elif ty == "MultiPolygon":
            c[0] = []
        else:
            p[1] = str(M + 2)
    return g


# ---------------------------------------------------------------- stages
def _closed_stage(ctx):
    grid = list(closed_grid_cases())
    ctx.run_cases(OPS["buffer_closed"], grid)
    ctx.exhaustive["closed forms grid"] = (f"{len(grid)} cases: time stamps / intervals on {{0,1/2,1,2}}, boxes on times {{0,1,2}} x "
                                           f"frequencies {{0,1,MAX-1,MAX}}, x time buffers {[str(x) for x in T_BUFS]} x frequency "
                                           f"buffers {[str(x) for x in F_BUFS]}")
    rnd = list(closed_random_cases(ctx.rng, ctx.budget(6000, 60000)))
    for c in rnd:
        ctx.tally("closed:" + c["g"]["type"])
    ctx.run_cases(OPS["buffer_closed"], rnd)
    ctx.run_cases(OPS["buffer_closed_free"], closed_free_cases(ctx.rng, ctx.budget(3000, 30000)))


def _boundary_stage(ctx):
    bc = list(closed_boundary_cases())
    ctx.tally("closed:boundary-offsets", sum(1 for c in bc if c["g"]["type"] in CLOSED))
    ctx.run_cases(OPS["buffer_closed"], [c for c in bc if c["g"]["type"] in CLOSED and not c.get("free")])
    ctx.run_cases(OPS["buffer_closed_free"], [{k: v for k, v in c.items() if k != "free"} for c in bc if c.get("free")])
    ctx.run_cases(OPS["buffer_shapely"], [c for c in bc if c["g"]["type"] in SHAPELY])
    ctx.exhaustive["comparison boundaries"] = (f"{len(bc)} cases: buffers -d, 0, +d for d in 2^-40, 2^-60, 1e-12, 1e-9, 5e-324 on all nine "
                                               "types (guard); start - tb, low - fb, high + fb at 0 / MAX_FREQUENCY -+ 2^-20..2^-40 at "
                                               "magnitudes 1, 4096, 1e6, 1e7; degenerate boxes on the edges")
    lc = list(lattice_cases())
    ctx.run_cases(OPS["buffer_closed_free"], lc)
    ctx.exhaustive["non-dyadic lattices"] = f"{len(lc)} cases: every time buffer k*0.01 and k/100, k = 0..100 (frequency buffers k*0.1)"


def _variants_stage(ctx):
    vc = list(variant_cases(ctx.rng, full=ctx.thorough()))
    for c in vc:
        h = c["how"]
        ctx.tally("call:" + h.get("shape", "kw"))
        ctx.tally("number:" + h.get("nt", "float"))
        ctx.tally("path:" + str(h.get("path", "validate")))
    ctx.run_cases(OPS["buffer_closed"], [c for c in vc if c["g"]["type"] in CLOSED])
    sh = [c for c in vc if c["g"]["type"] in SHAPELY]
    ctx.run_cases(OPS["buffer_shapely"], sh)
    ctx.run_cases(OPS["pipeline_args"], sh)
    ctx.exhaustive["call shapes"] = (f"{len(vc)} cases: nine types x call shapes {list(SHAPES)} x number representations {list(NUMS)}; "
                                     f"nine types x construction paths {list(PATHS)} x (both / time only / frequency only) buffers")


def _dense_stage(ctx):
    sizes = SIZES if ctx.thorough() else SIZES_QUICK
    dc = list(dense_cases(ctx.rng, sizes, ctx.budget(2, 7)))
    for c in dc:
        ctx.tally("dense:" + c["g"]["type"])
    ctx.run_cases(OPS["buffer_shapely"], dc)
    ctx.run_cases(OPS["pipeline_args"], dc)
    mc = [{"g": c["g"], "tb": c["tb"], "fb": c["fb"], "tb2": rat(frac(c["tb"]) * 2), "fb2": rat(frac(c["fb"]) * Fraction(3, 2))}
          for c in dc[::ctx.budget(4, 2)]]
    ctx.run_cases(OPS["monotone_shapely"], mc)
    ctx.exhaustive["vertex counts"] = f"{len(dc)} dense geometries with {sizes} vertices ({ctx.budget(2, 7)} of {list(DENSE_KINDS)} per size)"


def _history_stage(ctx):
    grid = list(history_leak_grid(full=ctx.thorough()))
    hs = grid + history_cases(ctx.rng, ctx.budget(150, 1500))
    for h in hs:
        for st in h["seq"]:
            ctx.tally("history:" + (st.get("reuse") or "fresh") + ("+poison" if st.get("poison") else "")
                      + ("+options" if st["inp"].get("opts") else ""))
    ctx.run_cases(OPS["buffer_history"], hs)
    _report_unconfirmed(ctx)


def _shapely_stage(ctx):
    cases = list(shapely_cases(ctx.rng, ctx.budget(2400, 24000)))
    for c in cases:
        ctx.tally("shapely:" + c["g"]["type"])
    ctx.run_cases(OPS["buffer_shapely"], cases)
    zc = list(zero_buffer_cases(ctx.rng, ctx.budget(360, 3600)))
    ctx.tally("shapely:zero-buffer", len(zc))
    ctx.run_cases(OPS["buffer_shapely"], zc)
    tc = list(tiny_buffer_cases(ctx.rng, ctx.budget(240, 2400)))
    ctx.tally("shapely:tiny-buffer", len(tc))
    ctx.run_cases(OPS["buffer_shapely"], tc)
    ctx.run_cases(OPS["pipeline_args"], cases + zc + tc)
    results = [v for v in list(_LIB_CACHE.values())[:ctx.budget(150, 1500)] if v]
    ctx.run_cases(OPS["valid"], valid_cases(ctx.rng, results, ctx.budget(180, 2700)))


def _monotone_stage(ctx):
    ctx.run_cases(OPS["monotone_shapely"], monotone_cases(ctx.rng, ctx.budget(1200, 12000)))
    zc = list(monotone_zero_cases(ctx.rng, ctx.budget(180, 1800)))
    ctx.tally("monotone:zero-buffer", len(zc))
    ctx.run_cases(OPS["monotone_shapely"], zc)


def _timed(ctx, name, fn, *a):
    import time
    t0 = time.time()
    try:
        return ctx.stage(name, fn, *a)
    finally:
        ctx.tally("seconds:" + name, round(time.time() - t0, 1))


def run(ctx):
    _timed(ctx, "tables", _table_obligations, ctx)
    _timed(ctx, "symbolic-ties", _symbolic_ties, ctx)
    _timed(ctx, "symbolic-pipeline", _pipeline_ties, ctx)
    _timed(ctx, "discharge", ctx.discharge, ["SoundeventModel.Buffer", "SoundeventModel.Tactics"])
    _timed(ctx, "corpus", ctx.run_corpus, OPS)
    _timed(ctx, "closed-forms", _closed_stage, ctx)
    _timed(ctx, "boundaries", _boundary_stage, ctx)
    _timed(ctx, "shapely-pipeline", _shapely_stage, ctx)
    _timed(ctx, "dense", _dense_stage, ctx)
    _timed(ctx, "call-variants", _variants_stage, ctx)
    _timed(ctx, "shapely-monotone", _monotone_stage, ctx)
    # last: calls with options for shapely.buffer happen only here, so nothing they might leave behind in the module
    # under test can reach the cases of the other stages (whose replays are single calls)
    _timed(ctx, "histories", _history_stage, ctx)


def search(ctx, failures):
    """a tie broke: the exhaustive edge grid and a wide random stream of every operation"""
    ctx.stage("search-closed", lambda: ctx.run_cases(OPS["buffer_closed"], list(closed_grid_cases())
                                                     + [c for c in closed_boundary_cases() if c["g"]["type"] in CLOSED and not c.get("free")]
                                                     + [c for c in variant_cases(ctx.rng) if c["g"]["type"] in CLOSED]
                                                     + list(closed_random_cases(ctx.rng, 6000))))
    ctx.stage("search-shapely", lambda: ctx.run_cases(OPS["buffer_shapely"], list(shapely_cases(ctx.rng, 900))
                                                      + list(zero_buffer_cases(ctx.rng, 120)) + list(tiny_buffer_cases(ctx.rng, 120))
                                                      + list(dense_cases(ctx.rng, SIZES_QUICK, 3))))
    ctx.stage("search-histories", lambda: (ctx.run_cases(OPS["buffer_history"], list(history_leak_grid())
                                                         + history_cases(ctx.rng, 100)), _report_unconfirmed(ctx)))
