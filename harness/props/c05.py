"""C05 — Bounds, geometric features and anchor points agree with the coordinates."""
import copy
import inspect
import math
import typing
from fractions import Fraction

from ..core import Op, jkey
from .. import history as hist
from .. import c05_gen as G5
from ..leanio import InfraError
from ..rat import rat, frac, round_once_eq, tol_eq
from .. import symtrace as st
from .. import symx
from ..symtrace import Sym
from .. import gen_geom

PROPERTY = "C05"
LEAN_MODULE = "Proofs.C05"
_T = "SE.Proofs.C05."
THEOREMS = [_T + n for n in [
    "C05_bounds_via_shape", "C05_bounds_minmax", "C05_bounds_minmax_columns", "C05_bounds_unique",
    "C05_bounds_defined", "C05_bounds_ordered", "C05_time_only_full_band", "C05_box_bounds",
    "C05_bounds_all_coordinates", "C05_bounds_holds_iff",
    "C05_conversion_kind", "C05_conversion_lossless", "C05_conversion_vertex_set", "C05_conversion_box",
    "C05_features_consistent", "C05_features_nonneg", "C05_features_holds_iff", "C05_feature_table_total",
    "C05_points_table", "C05_points_delegated", "C05_points_inside", "C05_points_inside_geometry",
    "C05_unknown_position_rejected",
    # review additions
    "C05_conversion_calls", "C05_conversion_box_ring", "C05_conversion_ring_order",
    "C05_points_degenerate", "C05_points_from_coordinates", "C05_vertex_inside", "C05_dispatch",
    "C05_centroid_inside_partial", "C05_tame_types", "C05_getPoint_inside_partial",
    "C05_centroid_point", "C05_centroid_time_stamp", "C05_centroid_box",
    # follow-up: histories and call forms
    "C05_history_pure", "C05_history_poison", "C05_history_revisit", "C05_call_forms", "C05_call_forms_unary",
    "C05_sig_shape",
    # follow-up (wave 5): the anchor points as binary64 values
    "C05_points_selection", "C05_points_exact_mid", "C05_midpoint_rounded", "C05_points_rounded",
    "C05_anchor_holds_sound", "C05_anchor_holds_model"]]
LEVEL_TEXT = ("Lean theorems over the model: compute_bounds is exactly (min time, min freq, max time, max freq) over the "
              "coordinates (unique; time-only types over [0, MAX_FREQUENCY]; polygons: holes inside the shell envelope), it is "
              "the envelope of the modelled shapely conversion, the conversion is the shapely constructor call each "
              "*_to_shapely makes, lossless / order- and vertex-set preserving and of the right kind (box ring vertex by "
              "vertex), every feature is what its name says of those bounds and the feature list is determined, the nine "
              "named positions are the stated corner / edge midpoint / centre, lie inside the bounds and coincide on degenerate "
              "bounds, unknown names and unknown type tags are rejected; GEOS's centroid algorithm is modelled and the centroid "
              "is proved inside the bounds for every shape without holes whose shells are fan-convex (all points, lines, "
              "boxes, intervals, triangles, convex polygons; _partial: simple polygons with holes not proved, monitored), "
              "point_on_surface of 0/1-dimensional shapes is a vertex (contract) hence inside. get_geometry_point (all eleven "
              "positions), compute_bounds, compute_geometric_features on every type and every *_to_shapely are re-derived "
              "from the source on each run by path-exhaustive symbolic tracing and proved equal to the model for all "
              "(validated) inputs; tables (feature keys, Positions literal, MAX_FREQUENCY) are re-extracted and checked by "
              "`decide`; all code paths are run differentially on all nine geometry types, on shared objects (sessions), "
              "through every construction path, and across re-assignment / model_copy / deepcopy of the coordinates (histories). "
              "Follow-up: a history of calls in one process is modelled (`runHist`: fresh or changed content, calls, results "
              "the caller mutates) and proved to be the per-call answers of the pure model on the content the object has at "
              "that call (`C05_history_pure`, `_poison`, `_revisit`), so every step of a run of the real code is judged on its "
              "own; Python's binding of positional / keyword arguments is modelled (`bindCall`) and all call forms of the four "
              "functions are proved to denote the same (geometry, position) (`C05_call_forms`, `_unary`, `C05_sig_shape`), the "
              "parameter lists being re-read by introspection on every run (`sigOK` by `decide`). Wave 5: the anchor points "
              "at the level of binary64 values: corner / edge components are selections of the bounds whatever the midpoint "
              "values are (`C05_points_selection`, `pointAtM` = `pointAt` at the exact midpoints: `C05_points_exact_mid`), and "
              "for every monotone rounding function that leaves the bounds alone the rounded midpoint stays inside them "
              "(`C05_midpoint_rounded`, `C05_points_rounded`); the monitor `holdsAnchor` evaluated on the observed floats accepts "
              "only points inside the bounds whose corner / edge components are the bounds bit for bit "
              "(`C05_anchor_holds_sound`) and accepts the model's own answer (`C05_anchor_holds_model`).")
LEVEL_NOTE = ("Trusted: Lean kernel, symbolic tracer (ordered-field semantics; shapely constructors / compute_bounds / "
              "geometry_to_shapely / Feature replaced by recording or symbolic stand-ins, by identity of the objects), shapely "
              "`bounds` as min/max of the shell vertices, shapely ring closure, GEOS segment length as sqrt(dx^2+dy^2) in "
              "binary64 (parameter `len` of the centroid model, contract 0 <= len checked). Unmodelled: shapely's "
              "point_on_surface for areal shapes (post-condition `inside the bounds` monitored, strictly), the centroid of "
              "non-tame polygons is modelled and compared (tolerance 2^-40) but `inside` is only monitored there; binary64 "
              "rounding of `end - start` and `(a + b) / 2` off the dyadic grid (round-once comparison with 2 ulp slack). "
              "Histories, construction paths (22, incl. unvalidated assignment of ints / tuples / numpy scalars / shared "
              "lists, subclass instances, pickle), call forms, sibling lifts, tolerance-sized extents (2^-7 ... 2^-40 at "
              "offsets up to 86400 s / 4 MHz), size thresholds (16 ... 1100 vertices, 300 parts) and two non-dyadic lattices "
              "are generator-bounded differential runs that validate the model against the code; they decide nothing by "
              "themselves. Trusted in addition: Python's argument binding as `bindCall` states it; a call without position "
              "is held to the default the signature declares (the documented 'bottom-left' when it declares none). "
              "The symbolic ties are ordered-field statements: `start + 1.0 * (end - start)` traces to `end`; whether the code "
              "*selects* a bound or computes it is observed only by the float-level monitor `holds_anchor` on decimal "
              "geometries (generator-bounded; half of them rejection-sampled so that `a + (b - a) != b` or `b - (b - a) != a`). "
              "Model tied to the code by regenerated obligations and generator-bounded correspondence.")
TECHNIQUE = ("Lean 4 proof over model; symbolic-trace equality obligations and table obligations regenerated from source; "
             "differential correspondence with Lean-evaluated property statements on the real I/O")
RULE = ("geometries of all nine types (random on dyadic grids of several scales, polygons with holes in both orientations, "
        "multi-geometries, zero-extent, open-ring, closed-loop and self-intersecting corner cases, arbitrary floats) x "
        "{compute_bounds, compute_geometric_features, shapely conversion, every position name incl. unknown ones, centroid "
        "against GEOS's formula, sessions on one shared object through seven construction paths, histories of re-assigned / "
        "copied objects, type dispatch}; follow-up (HISTORIES.md): single calls through 22 construction paths x 5 call forms "
        "(positional, keyword, keyword reversed, mixed, position left out); histories through harness/history.py: x, a "
        "neighbour of x (one coordinate moved by 2^-24, shifted, prefix kept and extended, same end points, parts reordered, "
        "the same coordinates under another type tag, another call / call form / construction path), x again, on fresh "
        "objects and on the previous object changed by ten routes (assignment, model_copy(update) shallow / deep, copy / "
        "deepcopy / pickle + assignment, slice and item assignment inside the coordinate list, unvalidated tuples / ints), "
        "arguments snapshotted around every call, returned values poisoned in place (list extended, elements edited, arrays "
        "overwritten) and re-read at the end, 9 types x 6 calls poison sweep; every special and random geometry lifted to its "
        "sibling types; extents 2^-7 ... 2^-40 at five time and four frequency offsets and bounds decided at the last bits; "
        "16 / 17 / 256 / 257 / 1023 / 1024 / 1100 vertices and 17 / 300 parts; all 121 points of a 0.01 s and a 0.1 Hz lattice; "
        "every reported replay is confirmed to fail as the only thing a fresh process does; wave 5: decimal geometries "
        "(milliseconds, tenths / hundredths of Hz, arbitrary binary64 values; all nine types, bounds pairs rejection-sampled "
        "for inexact `end - start`) x the nine bounds positions judged on the float values (corner / edge components equal "
        "to the bound bit for bit, every component inside the bounds, midpoints within 2 ulp of the correctly rounded "
        "(a + b) / 2) x centroid / point_on_surface inside the bounds; "
        "non-trivial = the implementation returned a value; distinct = distinct (operation, input)")
TRUSTED = ["shapely `bounds` = min/max over the vertices of the converted shape (polygon: shell)",
           "shapely LinearRing closure rule (open ring or closed 3-vertex ring gets its first vertex appended); "
           "`ShCall.realize` (what shapely builds from a constructor call), compared differentially by the `shape` op",
           "GEOS Centroid: fan triangles about the first ring vertex, ring orientation = sign of the fan sum (simple rings), "
           "area > length > points fallback; segment length sqrt(dx*dx+dy*dy) in binary64 supplied by the harness",
           "Python's binding of positional and keyword arguments to a parameter list (`SE.Bnd.bindCall`); "
           "`inspect.signature` as the parameter list of the four public functions",
           "symbolic tracer stand-ins: compute_bounds -> symbolic 4-tuple, geometry_to_shapely -> object with symbolic "
           "`bounds`, `centroid`, `point_on_surface` and three `geoms`, Feature -> (term, value) record, shapely "
           "constructors -> recorded calls; geometries built with model_construct (no validation) around symbolic coordinates"]
ASSUMPTIONS = ["binary64 arithmetic is exact on the dyadic grids used (differences and half-sums of <= 30-bit dyadics)",
               "ordered-field semantics for the symbolic ties (no rounding); conversion ties range over validated "
               "geometries (interval / box / line ordering as the data model's validators guarantee, stated as hypotheses)",
               "polygons have their holes inside the envelope of their shell (every OGC-valid polygon; evaluated in Lean "
               "per input, the all-coordinates reading of the bounds clause is only asserted there)",
               "GEOS's ring orientation (isCCW) equals the sign of the ring's area: true of simple rings; centroid values of "
               "multi-ring shapes with a non-simple ring are not compared"]
NOT_COMPARED = ["error messages (only the error class)",
                "vertex order / corner repetition of the rectangle ring shapely builds for TimeInterval / BoundingBox "
                "(compared exactly first, as a closed vertex set otherwise)",
                "point_on_surface values (shapely's algorithm; `inside the bounds` monitored, `is a vertex` for 0/1-dimensional shapes)",
                "centroid values of multi-ring shapes with a self-intersecting ring (orientation convention of GEOS not modelled)",
                "polygons with a hole outside the shell envelope (OGC-invalid): bounds compared with the model "
                "(shell only, as GEOS does), the all-coordinates clause is not asserted",
                "the last 2 ulp of differences / half-sums off the dyadic grid (re-associated formulas round differently): a "
                "midpoint component is pinned to `inside [lo, hi] as floats, within 2 ulp of the correctly rounded (lo + hi) / 2 "
                "and within 2^-50 (relative to the larger bound) of the exact midpoint`, not to the bit pattern of "
                "`(lo + hi) / 2` (the unchanged code is bit-exact on 10^5 decimal geometries, but `lo + (hi - lo) / 2` is an "
                "equally good midpoint and differs in the last bit); corner / edge components ARE pinned bit for bit",
                "geometry-like objects that are not instances of the data model's geometry classes (duck-typed `.type` / "
                "`.coordinates`: a dispatch by isinstance is a legitimate implementation); instances of subclasses are used",
                "unvalidated coordinates the code does not accept today (numeric strings, numpy arrays put in by assignment)",
                "which position a call without position means when the signature declares no name as default: held to the "
                "documented 'bottom-left'; parameter names (keyword calls use the names the signature has now)",
                "centroid / point_on_surface inside histories (their model needs shapely's answer as a parameter; single calls only)",
                "the order in which equal results are produced; identity of returned objects (only that a caller's mutation "
                "of one result never shows in another)"]

TOL = "1/1099511627776"   # 2^-40
BOUNDS_POS = ["bottom-left", "bottom-right", "top-left", "top-right", "center-left", "center-right",
              "top-center", "bottom-center", "center"]
LIB_POS = ["centroid", "point_on_surface"]
UNKNOWN_POS = ["left-top", "top_left", "Top-Left", "center-center", "", "top", "left", "top-left-", "-",
               "bottom-middle", "centre", "middle", "top-left-right", "centroid ", "point-on-surface"]
FEATURE_NAMES = ["duration", "low_freq", "high_freq", "bandwidth", "num_segments"]


def _f(s):
    return float(frac(s))


# ---------------------------------------------------------------- implementation adapters
def _norm(gj):
    """the validated geometry value (boxes swapped, line strings time-ordered by the data model)"""
    return gen_geom.from_data(gen_geom.to_data(gj))


def _impl_bounds(inp):
    from soundevent.geometry import compute_bounds
    return {"val": _bounds_json(compute_bounds(gen_geom.to_data(inp["g"])))}


def _bounds_json(b):
    b = list(b)
    if len(b) != 4:
        raise AssertionError("compute_bounds did not return four numbers")
    return [rat(x) for x in b]


def _term_name(term):
    from soundevent import terms
    for n in FEATURE_NAMES:
        if term == getattr(terms, n):
            return n
    return "?" + str(getattr(term, "name", term))


def _impl_features(inp):
    from soundevent.geometry.features import compute_geometric_features
    fs = compute_geometric_features(gen_geom.to_data(inp["g"]))
    return {"val": [[_term_name(f.term), rat(f.value)] for f in fs]}


def _impl_point(inp):
    from soundevent.geometry import get_geometry_point
    p = get_geometry_point(gen_geom.to_data(inp["g"]), inp["pos"])
    if len(p) != 2:
        raise AssertionError("not a pair")
    return {"val": [rat(p[0]), rat(p[1])]}


_LIB_CACHE = {}


def _impl_lib_point(inp):
    out = _impl_point(inp)
    _LIB_CACHE[jkey(inp)] = out["val"]
    return out


def _coords(seq):
    return [[rat(x), rat(y)] for x, y in seq.coords]


def _poly_json(p):
    return {"shell": _coords(p.exterior), "holes": [_coords(r) for r in p.interiors]}


def _impl_shape(inp):
    from soundevent.geometry import geometry_to_shapely
    return {"val": _shape_json(geometry_to_shapely(gen_geom.to_data(inp["g"])))}


def _shape_json(s):
    if s.has_z:
        raise AssertionError("3-D shape")
    k = s.geom_type
    if k == "Point":
        v = {"kind": k, "coords": _coords(s)[0]}
    elif k == "LineString":
        v = {"kind": k, "coords": _coords(s)}
    elif k == "Polygon":
        v = {"kind": k, **_poly_json(s)}
    elif k == "MultiPoint":
        v = {"kind": k, "parts": [_coords(g)[0] for g in s.geoms]}
    elif k == "MultiLineString":
        v = {"kind": k, "parts": [_coords(g) for g in s.geoms]}
    elif k == "MultiPolygon":
        v = {"kind": k, "parts": [_poly_json(g) for g in s.geoms]}
    else:
        v = {"kind": k}
    return v


# ---------------------------------------------------------------- comparisons and monitors
def _cmp_shape(inp, io, mo):
    if io == mo:
        return None
    if inp["g"]["type"] in ("TimeInterval", "BoundingBox") and "val" in io and "val" in mo:
        # the rectangle: the property pins kind and corners, not which corner shapely starts at nor
        # whether a degenerate rectangle repeats a corner
        a, b = io["val"], mo["val"]
        if (a.get("kind") == b.get("kind") == "Polygon" and a.get("holes") == b.get("holes") == []
                and sorted(set(map(tuple, a["shell"]))) == sorted(set(map(tuple, b["shell"])))
                and 4 <= len(a["shell"]) <= 6 and a["shell"][0] == a["shell"][-1]):
            return None
    return "shapely conversion differs from the model (kind / structure / coordinates)"


def _num_eq_round_once(a, b):
    """a: impl rational string, b: model rational string; equal after one correct rounding, or within
    2 ulp of that (an algebraically equal but re-associated formula, e.g. `s + (e - s) / 2` for the
    midpoint, rounds differently; the property does not pin the rounding)"""
    if a == b or round_once_eq(frac(b), float(frac(a))):
        return True
    fa, fb = float(frac(a)), float(frac(b))
    return abs(fa - fb) <= 2 * math.ulp(fb)


def _cmp_features_free(inp, io, mo):
    if "val" not in io or "val" not in mo:
        return None if io == mo else "implementation and model disagree"
    a, b = io["val"], mo["val"]
    if [x[0] for x in a] != [x[0] for x in b]:
        return "feature names differ"
    for (n, x), (_n, y) in zip(a, b):
        if not _num_eq_round_once(x, y):
            return f"feature {n}: implementation {x} is not the correctly rounded model value {y}"
    return None


def _cmp_point_free(inp, io, mo):
    if "val" not in io or "val" not in mo:
        return None if io == mo else "implementation and model disagree"
    for x, y in zip(io["val"], mo["val"]):
        if not _num_eq_round_once(x, y):
            return f"coordinate {x} is not the correctly rounded model value {y}"
    return None


def _holds_bounds(ctx, inp, io):
    if "val" not in io:
        return "compute_bounds raised on a valid geometry"
    r = ctx.model("holds_bounds", {"g": inp["g"], "b": io["val"]})
    if r.get("val") is not True:
        return "bounds are not (min time, min freq, max time, max freq) over the coordinates"
    return None


def _holds_features(ctx, inp, io):
    if "val" not in io:
        return "compute_geometric_features raised on a valid geometry"
    b = _impl_bounds(inp)["val"]
    r = ctx.model("holds_features", {"g": inp["g"], "b": b, "fs": io["val"]})
    if r.get("val") is not True:
        return "features are not consistent with compute_bounds of the same geometry"
    return None


def _holds_point(ctx, inp, io):
    if inp["pos"] not in BOUNDS_POS:
        return None
    if "val" not in io:
        return "get_geometry_point raised for a named position"
    r = ctx.model("inside", {"g": inp["g"], "p": io["val"], "tol": None})
    if r.get("val") is not True:
        return "named position outside the bounds"
    return None


ANCHOR_TOL = "1/1125899906842624"   # 2^-50, relative to the larger bound: how far a binary64 midpoint may be from (a+b)/2
_MID_T = ("center", "top-center", "bottom-center")
_MID_F = ("center", "center-left", "center-right")


def _holds_anchor(ctx, inp, io):
    """wave 5: the anchor-point clause judged on the float values themselves (Lean `holdsAnchor`, meaning fixed by
    C05_anchor_holds_sound / _model): inside the bounds of the coordinates as floats, corner / edge components equal
    to the bound bit for bit, midpoint components inside [lo, hi] and within 2^-50 (relative) of (lo + hi) / 2"""
    if inp["pos"] not in BOUNDS_POS:
        return None
    if "val" not in io:
        return "get_geometry_point raised for a named position"
    r = ctx.model("holds_anchor", {"g": inp["g"], "pos": inp["pos"], "p": io["val"], "tol": ANCHOR_TOL})
    if r.get("val") is True:
        return None
    b = ctx.model("bounds", {"g": inp["g"]}).get("val")
    why = "a corner / edge component is not the bound itself, or a midpoint is not the midpoint"
    try:
        x, y = frac(io["val"][0]), frac(io["val"][1])
        st, lo, en, hi = (frac(v) for v in b)
        if not (st <= x <= en and lo <= y <= hi):
            why = "the point lies outside the bounds of the coordinates"
    except Exception:  # noqa: BLE001
        pass
    return (f"anchor point {inp['pos']} = ({_f(io['val'][0])!r}, {_f(io['val'][1])!r}) does not agree with the bounds "
            f"{[_f(v) for v in b] if b else b!r}: {why}")


def _cmp_anchor(inp, io, mo):
    """corner / edge components: the very float (exact equality with the model, which selects a bound);
    midpoint components: one correct rounding of (a + b) / 2, or within 2 ulp of it (`a + (b - a) / 2` rounds twice)"""
    if "val" not in io or "val" not in mo:
        return None if io == mo else "implementation and model disagree"
    mids = (inp["pos"] in _MID_T, inp["pos"] in _MID_F)
    for x, y, mid, axis in zip(io["val"], mo["val"], mids, ("time", "frequency")):
        if mid:
            if not _num_eq_round_once(x, y):
                return f"{axis} {x} is not the correctly rounded midpoint {y}"
        elif x != y:
            return f"{axis} {_f(x)!r} is not the bound {_f(y)!r} itself"
    return None


def _excursion(ctx, inp, p):
    """(relative distance of p outside the bounds of the coordinates (the model's), every violated axis has zero
    extent, largest relative extent of a violated axis)"""
    b = [frac(x) for x in ctx.model("bounds", {"g": inp["g"]})["val"]]
    x, y = frac(p[0]), frac(p[1])
    ex = Fraction(0)
    only_flat = True
    ext = Fraction(0)
    for v, lo, hi in ((x, b[0], b[2]), (y, b[1], b[3])):
        d = max(lo - v, v - hi, Fraction(0))
        scale = max(Fraction(1), abs(lo), abs(hi))
        if d > 0:
            ext = max(ext, (hi - lo) / scale)
            if lo != hi:
                only_flat = False
        ex = max(ex, d / scale)
    return float(ex), only_flat, float(ext)


LOW_DIM = ("TimeStamp", "Point", "LineString", "MultiPoint", "MultiLineString")


def _ogc_invalid(gj):
    """polygonal geometry that shapely / GEOS calls invalid (self-intersecting ring, hole crossing or
    outside its shell): computed from the coordinates, not through the code under test"""
    if gj["type"] not in ("Polygon", "MultiPolygon"):
        return False
    import shapely
    polys = [gj["coordinates"]] if gj["type"] == "Polygon" else gj["coordinates"]
    try:
        shp = [shapely.Polygon([(_f(x), _f(y)) for x, y in rings[0]],
                               [[(_f(x), _f(y)) for x, y in r] for r in rings[1:]]) for rings in polys]
        return not all(p_.is_valid for p_ in shp) or not shapely.MultiPolygon(shp).is_valid
    except Exception:  # noqa: BLE001
        return True


def _holds_lib_point(ctx, inp, io):
    if "val" not in io:
        return f"{inp['pos']} raised on a valid geometry"
    if inp["pos"] == "point_on_surface" and inp["g"]["type"] in LOW_DIM:
        # contract behind C05_vertex_inside: for shapes of dimension 0 / 1 GEOS answers a vertex
        v = ctx.model("is_vertex", {"g": inp["g"], "p": io["val"]})
        ctx.contract("point_on_surface_is_vertex", v.get("val") is True, inp, io["val"],
                     detail="point_on_surface of a point / line shape is not one of its vertices")
    r = ctx.model("inside", {"g": inp["g"], "p": io["val"], "tol": None})
    if r.get("val") is True:
        return None
    ex, flat, ext = _excursion(ctx, inp, io["val"])
    extra = ""
    if inp["pos"] == "centroid" and _ogc_invalid(inp["g"]):
        mo = ctx.model("centroid", _to_model_centroid(inp))
        same = "val" in mo and all(tol_eq(frac(y), float(frac(x))) for x, y in zip(io["val"], mo["val"]))
        extra = f" ogc_invalid_polygon=True geos_formula={same or not _orientation_free(inp['g'])}"
    return (f"{inp['pos']} outside the bounds; rel_excursion={ex:.3e} zero_extent_axis_only={flat} "
            f"violated_axis_rel_extent={ext:.3e}{extra}")


def _to_model_lib(inp):
    return {"g": inp["g"], "pos": inp["pos"], "lib": _LIB_CACHE.get(jkey(inp))}


def _safe(fn):
    """a monitor that cannot be evaluated (the code changed shape, an adapter raised) reports that as
    the failure of the property at this input instead of crashing the check"""
    def wrapped(ctx, inp, io):
        try:
            return fn(ctx, inp, io)
        except InfraError:
            raise
        except Exception as e:  # noqa: BLE001
            return f"property monitor could not be evaluated on the implementation's output: {e!r}"
    return wrapped


# ---------------------------------------------------------------- review additions: centroid, sessions, dispatch
def _seg_lens(gj):
    """every segment of the converted shape with its binary64 length as GEOS computes it
    (sqrt(dx*dx + dy*dy)): consecutive vertices of every line / ring, the closing segment of every
    ring, the four sides of a box / interval, the vertical segment of a time stamp.  This is the
    parameter `len` of the centroid model (its contract `0 <= len` is checked by the driver)."""
    ty, c = gj["type"], gj["coordinates"]
    mx = rat(M)
    if ty == "TimeStamp":
        lines = [[[c, "0"], [c, mx]]]
    elif ty == "TimeInterval":
        lines = [[[c[1], "0"], [c[1], mx], [c[0], mx], [c[0], "0"], [c[1], "0"]]]
    elif ty == "BoundingBox":
        a, l, b, h = c
        lines = [[[b, l], [b, h], [a, h], [a, l], [b, l]]]
    elif ty == "LineString":
        lines = [c]
    elif ty == "MultiLineString":
        lines = c
    elif ty == "Polygon":
        lines = [r + [r[0]] for r in c]
    elif ty == "MultiPolygon":
        lines = [r + [r[0]] for poly in c for r in poly]
    else:
        lines = []
    out, seen = [], set()
    for ln in lines:
        for p_, q_ in zip(ln, ln[1:]):
            key = (tuple(p_), tuple(q_))
            if key in seen:
                continue
            seen.add(key)
            dx, dy = _f(p_[0]) - _f(q_[0]), _f(p_[1]) - _f(q_[1])
            out.append([p_, q_, rat(math.sqrt(dx * dx + dy * dy))])
    return out


def _rings(gj):
    if gj["type"] == "Polygon":
        return list(gj["coordinates"])
    if gj["type"] == "MultiPolygon":
        return [r for poly in gj["coordinates"] for r in poly]
    return []


def _ring_simple(r):
    import shapely
    try:
        pts = [(_f(x), _f(y)) for x, y in r]
        if pts[0] != pts[-1]:
            pts.append(pts[0])
        return bool(shapely.LinearRing(pts).is_simple)
    except Exception:  # noqa: BLE001
        return False


def _orientation_free(gj):
    """the model takes a ring's orientation from the sign of its area, GEOS from `isCCW`; the two agree
    on simple rings, and the orientation cancels when the shape has a single ring"""
    rs = _rings(gj)
    return len(rs) <= 1 or all(_ring_simple(r) for r in rs)


def _simple(gj):
    """OGC validity of a polygonal geometry, decided from the coordinates with shapely objects built here
    (never through geometry_to_shapely, the code under test); other types: True"""
    return not _ogc_invalid(gj)


def _gen_valid(rng, ty=None, **kw):
    """gen_geom.gen_valid with the independent validity filter"""
    for _ in range(50):
        g = gen_geom.gen_geometry(rng, ty, **kw)
        if _simple(g):
            return g
    return gen_geom.gen_geometry(rng, "BoundingBox", **kw)


def _impl_centroid(inp):
    return _impl_point({"g": inp["g"], "pos": "centroid"})


def _to_model_centroid(inp):
    return {"g": inp["g"], "lens": _seg_lens(inp["g"])}


def _cmp_centroid(inp, io, mo):
    if "val" not in io or "val" not in mo:
        return None if io == mo else "centroid: implementation and model disagree"
    if not _orientation_free(inp["g"]):
        return None
    for x, y in zip(io["val"], mo["val"]):
        if not tol_eq(frac(y), float(frac(x))):
            return f"centroid coordinate {float(frac(x))!r} is not GEOS's centroid formula {float(frac(y))!r} (tolerance 2^-40)"
    return None


SESSION_CALLS = ([{"op": "bounds"}, {"op": "features"}, {"op": "shape"}]
                 + [{"op": "point", "pos": p_} for p_ in BOUNDS_POS]
                 + [{"op": "bounds"}, {"op": "features"}, {"op": "point", "pos": "top-left"}]
                 # follow-up: the same calls by keyword / mixed / with the position left out (after calls with another one)
                 + [{"op": "bounds", "form": "kw"}, {"op": "features", "form": "kw"}, {"op": "shape", "form": "kw"},
                    {"op": "point", "pos": "top-right", "form": "kw"}, {"op": "point", "pos": "center-left", "form": "kw_rev"},
                    {"op": "point", "pos": "bottom-center", "form": "mixed"}, {"op": "point", "form": "default"}])
BUILDS = ["validate", "class", "json", "int", "numpy", "tuple", "copy",
          # follow-up: further construction paths of the same value (HISTORIES.md section 2)
          "json_cls_reordered", "dict_reordered", "shallow_copy", "copy_copy", "float32", "npint", "nparray",
          "str", "subclass", "pickle", "raw_int", "raw_tuple", "raw_float32", "raw_npint", "raw_shared"]


def _tuples(c):
    return tuple(_tuples(x) for x in c) if isinstance(c, list) else c


def _conv(c, leaf):
    return [_conv(y, leaf) for y in c] if isinstance(c, list) else leaf(c)


def _leaf_int(x):
    return int(x) if float(x).is_integer() else x


def _leaf_f32(x):
    import numpy as np
    return np.float32(x) if float(np.float32(x)) == float(x) else np.float64(x)


def _leaf_npint(x):
    import numpy as np
    return np.int64(x) if float(x).is_integer() else np.float64(x)


_SUBCLASSES = {}


def _subclass(cls):
    if cls not in _SUBCLASSES:
        name = "Derived" + cls.__name__
        _SUBCLASSES[cls] = type(name, (cls,), {"__module__": __name__})
        globals()[name] = _SUBCLASSES[cls]       # picklable by reference
    return _SUBCLASSES[cls]


def _share(c):
    """equal sub-lists become one shared list object (a part repeated as the same Python object)"""
    seen = {}

    def walk(x):
        if not isinstance(x, list):
            return x
        y = [walk(v) for v in x]
        return seen.setdefault(jkey(y), y)
    return walk(c)


def _build(gj, how):
    """the same geometry value through another construction path of the data model; the `raw_*` paths
    put ints / tuples / numpy scalars / shared list objects into the object by plain assignment (geometries
    are not frozen and do not validate on assignment), everything else goes through the validators"""
    from soundevent import data
    cls = getattr(data, gj["type"])
    c = gen_geom.coords_float(gj)
    if how == "class":
        return cls(coordinates=c)
    if how == "json":
        import json
        return data.geometry_validate(json.dumps({"type": gj["type"], "coordinates": c}), mode="json")
    if how == "json_cls_reordered":
        import json
        return cls.model_validate_json(json.dumps({"coordinates": c, "type": gj["type"]}))
    if how == "dict_reordered":
        return cls.model_validate({"coordinates": c, "type": gj["type"]})
    if how == "int":
        return cls(coordinates=_conv(c, _leaf_int))
    if how == "numpy":
        import numpy as np
        return cls(coordinates=_conv(c, np.float64))
    if how == "float32":
        return cls(coordinates=_conv(c, _leaf_f32))
    if how == "npint":
        return cls(coordinates=_conv(c, _leaf_npint))
    if how == "nparray":
        import numpy as np
        try:
            return cls(coordinates=np.array(c, dtype=float) if gj["type"] != "TimeStamp" else np.float64(c))
        except Exception:  # noqa: BLE001 - ragged coordinates, or arrays no longer accepted by the data model
            return cls(coordinates=c)
    if how == "str":
        try:
            return cls(coordinates=_conv(c, repr))
        except Exception:  # noqa: BLE001 - numeric strings are a lax-mode courtesy of the data model
            return cls(coordinates=c)
    if how == "tuple":
        return cls(coordinates=_tuples(c))
    if how == "copy":
        return gen_geom.to_data(gj).model_copy(deep=True)
    if how == "shallow_copy":
        return gen_geom.to_data(gj).model_copy()
    if how == "copy_copy":
        return copy.copy(gen_geom.to_data(gj))
    if how == "pickle":
        import pickle
        return pickle.loads(pickle.dumps(gen_geom.to_data(gj)))
    if how == "subclass":
        return _subclass(cls)(coordinates=c)
    if how.startswith("raw_"):
        obj = gen_geom.to_data(gj)
        c = gen_geom.from_data(obj)["coordinates"]
        c = _conv(c, lambda x: float(frac(x)))          # the validated (normalised) value
        raw = {"raw_int": lambda: _conv(c, _leaf_int), "raw_tuple": lambda: _tuples(c),
               "raw_float32": lambda: _conv(c, _leaf_f32), "raw_npint": lambda: _tuples(_conv(c, _leaf_npint)),
               "raw_shared": lambda: _share(c)}[how]()
        obj.coordinates = raw
        return obj
    return gen_geom.to_data(gj)


# -- call forms (HISTORIES.md section 2: keyword vs positional arguments) ---------------------------
FORMS = ["pos", "kw", "kw_rev", "mixed", "default"]
DOCUMENTED_DEFAULT = "bottom-left"      # "position ... Defaults to 'bottom-left'" (docstring of get_geometry_point)


def _public():
    from soundevent.geometry import compute_bounds, get_geometry_point, geometry_to_shapely
    from soundevent.geometry.features import compute_geometric_features
    return {"bounds": compute_bounds, "features": compute_geometric_features, "point": get_geometry_point,
            "shape": geometry_to_shapely}


def _params(fn):
    """[(name, has_default, default, kind)] of the parameters that can be named in a call (no *args / **kw)"""
    try:
        ps = list(inspect.signature(fn).parameters.values())
    except (TypeError, ValueError):
        return None
    return [(p_.name, p_.default is not inspect.Parameter.empty, p_.default, p_.kind) for p_ in ps
            if p_.kind not in (inspect.Parameter.VAR_POSITIONAL, inspect.Parameter.VAR_KEYWORD)]


def _kw_names(o):
    """names by which the geometry (and the position) can be passed as keywords, or None"""
    ps = _params(_public()[o])
    need = 2 if o == "point" else 1
    if ps is None or len(ps) < need:
        return None
    if any(k == inspect.Parameter.POSITIONAL_ONLY for _n, _h, _d, k in ps[:need]):
        return None
    return [n for n, _h, _d, _k in ps[:need]]


def _declared_default():
    """the position a call without position asks for, as the signature declares it (None: not a name)"""
    ps = _params(_public()["point"])
    if ps is None or len(ps) < 2 or not ps[1][1] or not isinstance(ps[1][2], str):
        return None
    return ps[1][2]


def _norm_call(call):
    """the (op, pos) a call form denotes: what `C05_call_forms` says the arguments bind to"""
    o = call["op"]
    if o != "point":
        return {"op": o}
    if call.get("form") == "default":
        # the name the signature declares; a signature that declares none (`position=None`, resolved
        # inside) is held to the documented default
        return {"op": o, "pos": _declared_default() or DOCUMENTED_DEFAULT}
    return {"op": o, "pos": call.get("pos", DOCUMENTED_DEFAULT)}


def _call_raw(geom, call):
    """one operation on an existing geometry object, in the given call form: the raw result"""
    o = call["op"]
    fn = _public().get(o)
    if fn is None:
        raise AssertionError("unknown session call")
    form = call.get("form", "pos")
    names = _kw_names(o) if form in ("kw", "kw_rev", "mixed") else None
    if o != "point":
        if names is not None:
            return fn(**{names[0]: geom})
        return fn(geom)
    pos = call.get("pos", DOCUMENTED_DEFAULT)
    if form == "default":
        return fn(geom)
    if names is not None and form == "kw":
        return fn(**{names[0]: geom, names[1]: pos})
    if names is not None and form == "kw_rev":
        return fn(**{names[1]: pos, names[0]: geom})
    if names is not None and form == "mixed":
        return fn(geom, **{names[1]: pos})
    return fn(geom, pos)


def _canon_raw(call, r):
    o = call["op"]
    if o == "bounds":
        return {"val": _bounds_json(r)}
    if o == "features":
        return {"val": [[_term_name(f.term), rat(f.value)] for f in r]}
    if o == "point":
        if len(r) != 2:
            raise AssertionError("not a pair")
        return {"val": [rat(r[0]), rat(r[1])]}
    return {"val": _shape_json(r)}


def _impl_session(inp):
    """all operations on ONE geometry object, interleaved with the same operations on another
    geometry; the raw results are kept until every call has been made and only then read (state
    carried between calls, caches, shared result objects, mutation of the argument all show up
    here); the last entry is the object's own coordinates after all calls"""
    geom = _build(inp["g"], inp.get("build", "validate"))
    other = gen_geom.to_data(inp["other"]) if inp.get("other") else None
    raw = []
    for i, call in enumerate(inp["calls"]):
        def on_other():
            if other is not None:
                try:
                    _call_raw(other, call)
                except Exception:  # noqa: BLE001
                    pass
        if i % 2 == 0:
            on_other()
        raw.append(_call_raw(geom, call))
        on_other()
    outs = [_canon_raw(c, r) for c, r in zip(inp["calls"], raw)]
    outs.append(gen_geom.from_data(geom))
    return {"val": outs}


def _to_model_session(inp):
    return {"g": inp["g"], "calls": [_norm_call(c) for c in inp["calls"]]}


def _cmp_session(inp, io, mo):
    if io == mo:
        return None
    if "val" in io and "val" in mo and len(io["val"]) == len(mo["val"]):
        for i, (a, b) in enumerate(zip(io["val"], mo["val"])):
            if a == b:
                continue
            what = inp["calls"][i] if i < len(inp["calls"]) else "the geometry itself after the calls (argument mutated)"
            if isinstance(what, dict) and what.get("op") == "shape" and _cmp_shape(inp, a, b) is None:
                continue
            return f"call #{i} {what} on a shared object (build={inp.get('build', 'validate')}) differs from the model"
        return None
    return "session: implementation and model disagree"


MUTATIONS = ["assign", "copy_update", "deep_copy_update", "deepcopy_assign", "copy_assign",
             # follow-up: in-place edits of the coordinate list (no assignment happens at all), unvalidated values
             "inplace_slice", "inplace_items", "assign_raw_tuple", "assign_raw_int", "pickle_assign"]


def _set_items(cur, new):
    """make the list `cur` equal to `new` using item assignment only (every list object is kept)"""
    if not (isinstance(cur, list) and isinstance(new, list) and len(cur) == len(new)):
        return False
    for i, (a, b) in enumerate(zip(cur, new)):
        if isinstance(a, list) and isinstance(b, list):
            if not _set_items(a, b):
                cur[i] = b
        else:
            cur[i] = b
    return True


def _change(obj, coords, do):
    """the object (or its successor) carrying the new coordinates, changed the way `do` says"""
    if do == "assign":
        obj.coordinates = coords
    elif do == "copy_update":
        obj = obj.model_copy(update={"coordinates": coords})
    elif do == "deep_copy_update":
        obj = obj.model_copy(update={"coordinates": coords}, deep=True)
    elif do == "deepcopy_assign":
        obj = copy.deepcopy(obj)
        obj.coordinates = coords
    elif do == "copy_assign":
        obj = copy.copy(obj)
        obj.coordinates = coords
    elif do == "pickle_assign":
        import pickle
        obj = pickle.loads(pickle.dumps(obj))
        obj.coordinates = coords
    elif do == "inplace_slice":
        if isinstance(obj.coordinates, list) and isinstance(coords, list):
            obj.coordinates[:] = coords
        else:
            obj.coordinates = coords
    elif do == "inplace_items":
        if not _set_items(obj.coordinates, coords):
            if isinstance(obj.coordinates, list) and isinstance(coords, list):
                obj.coordinates[:] = coords
            else:
                obj.coordinates = coords
    elif do == "assign_raw_tuple":
        obj.coordinates = _tuples(coords)
    elif do == "assign_raw_int":
        obj.coordinates = _conv(coords, _leaf_int)
    else:
        raise AssertionError("unknown history step")
    return obj


def _impl_history(inp):
    """a sequence of steps on one geometry object: queries, and re-assignment of the coordinates /
    model_copy(update=...) / copy + assignment with new valid coordinates of the same type; every
    query must answer for the coordinates the object has at that step (geometries are not frozen,
    so nothing may be remembered across a change of the coordinates)"""
    obj, outs = None, []
    for step in inp["steps"]:
        do = step["do"]
        if do == "query":
            raw = [_call_raw(obj, c) for c in step["calls"]]
            outs.append([_canon_raw(c, r) for c, r in zip(step["calls"], raw)] + [gen_geom.from_data(obj)])
            continue
        if do == "new":
            obj = _build(step["g"], step.get("build", "validate"))
            continue
        obj = _change(obj, gen_geom.coords_float(step["g"]), do)
    return {"val": outs}


def _cmp_history(inp, io, mo):
    if io == mo:
        return None
    if "val" in io and "val" in mo and len(io["val"]) == len(mo["val"]):
        queries = [s_ for s_ in inp["steps"] if s_["do"] == "query"]
        k = 0
        trail = []
        for s_ in inp["steps"]:
            if s_["do"] != "query":
                trail.append(s_["do"])
                continue
            a, b = io["val"][k], mo["val"][k]
            k += 1
            for i, (x, y) in enumerate(zip(a, b)):
                if x == y:
                    continue
                what = s_["calls"][i] if i < len(s_["calls"]) else "the coordinates of the object"
                if isinstance(what, dict) and what.get("op") == "shape" and _cmp_shape({"g": b[-1]}, x, y) is None:
                    continue
                return (f"after {' -> '.join(trail)}: {what} does not answer for the coordinates the object has now "
                        f"(query #{k} of {len(queries)})")
        return None
    return "history: implementation and model disagree"


# ---------------------------------------------------------------- follow-up: histories through harness/history.py
def _impl_call(inp):
    """ONE call, on a geometry built through the given construction path, in the given call form; second
    entry: the object's coordinates after the call"""
    geom = _build(inp["g"], inp.get("build", "validate"))
    res = _call_raw(geom, inp["call"])
    return {"val": [_canon_raw(inp["call"], res), gen_geom.from_data(geom)]}


def _to_model_call(inp):
    return {"g": inp["g"], "calls": [_norm_call(inp["call"])]}


def _cmp_call(inp, io, mo):
    if not (isinstance(mo, dict) and "val" in mo and len(mo["val"]) == 2):
        return "call: the model did not answer"
    want = mo["val"][0]
    got = {"raise": io["raise"]} if "raise" in io else (io["val"][0] if io.get("val") else None)
    what = f"{inp['call']} (build={inp.get('build', 'validate')})"
    if got != want:
        if not (inp["call"]["op"] == "shape" and isinstance(got, dict) and _cmp_shape(inp, got, want) is None):
            return f"{what} differs from the model"
    if "val" in io and len(io["val"]) > 1 and io["val"][1] != mo["val"][1]:
        return f"{what}: the geometry itself changed during the call (argument mutated)"
    return None


def _holds_call(ctx, inp, io):
    c = _norm_call(inp["call"])
    out = io["val"][0] if isinstance(io, dict) and io.get("val") else io
    sub = {"g": inp["g"], "pos": c.get("pos")}
    if c["op"] == "bounds":
        return _holds_bounds(ctx, sub, out)
    if c["op"] == "features":
        return _holds_features(ctx, sub, out)
    if c["op"] == "point":
        return _holds_point(ctx, sub, out)
    return None


def _poison_item(x):
    """mutate an element of a returned container in place (Feature objects are plain mutable models)"""
    if hasattr(x, "value") and hasattr(x, "term"):
        try:
            x.value = float(x.value) + 1000.0
            return True
        except Exception:  # noqa: BLE001
            return False
    return False


def _poison(res):
    """what a caller may do to a value it was handed: extend / edit the list (`feats += other_features`),
    edit its elements, write into an array.  False: nothing mutable was returned."""
    import numpy as np
    done = False
    if isinstance(res, list):
        if res and all(isinstance(x, (int, float)) for x in res):
            res[:] = [-1.0] * len(res)
            return True
        for x in res:
            done = _poison_item(x) or done
        try:
            from soundevent import data, terms
            res.append(data.Feature(term=terms.duration, value=2.0))
            res.append(data.Feature(term=terms.low_freq, value=1000.0))
            res.append(data.Feature(term=terms.num_segments, value=7.0))
            done = True
        except Exception:  # noqa: BLE001
            pass
        return done
    if isinstance(res, np.ndarray):
        if res.flags.writeable and res.size:
            res[...] = -1.0
            return True
        return False
    if isinstance(res, dict):
        if res:
            res.clear()
            return True
        return False
    if isinstance(res, tuple):
        for x in res:
            if isinstance(x, (list, dict, np.ndarray)):
                done = _poison(x) or done
        return done
    return _poison_item(res)


def _h_build(inp):
    return {"geom": _build(inp["g"], inp.get("build", "validate")), "call": inp["call"]}


def _h_modify(args, inp, how):
    geom = args["geom"]
    if getattr(geom, "type", None) != inp["g"]["type"] or how not in MUTATIONS:
        return None
    return {"geom": _change(geom, gen_geom.coords_float(inp["g"]), how), "call": inp["call"]}


def _try_norm(gj):
    """the validated value of a candidate geometry, None if the data model rejects it or it is not a
    simple polygon (stay inside the quantifier of the exact comparisons)"""
    try:
        n = _norm(gj)
    except Exception:  # noqa: BLE001
        return None
    return n if _simple(n) else None


def _random_call(rng):
    o = rng.choice(["bounds", "features", "features", "shape", "point", "point"])
    if o != "point":
        return {"op": o, "form": rng.choice(["pos", "pos", "kw"])}
    return {"op": o, "pos": rng.choice(BOUNDS_POS), "form": rng.choice(FORMS)}


def _h_variants(x, rng):
    """neighbours of a base input: the same geometry with another call / call form / construction path,
    and geometries that share a part of the content with it under the same call"""
    out = [dict(x, call=_random_call(rng), build=rng.choice(BUILDS)) for _ in range(2)]
    out.append(dict(x, call={"op": "features"}))
    for n in G5.neighbours(x["g"], rng):
        n = _try_norm(n)
        if n is not None and n != x["g"]:
            out.append(dict(x, g=n))
            out.append(dict(x, g=n, build=rng.choice(BUILDS)))
    return out


class _Foreign:
    """a geometry-like object of a type the library does not know"""

    def __init__(self, tag):
        self.type = tag
        self.coordinates = [0.0, 0.0]


def _impl_dispatch(inp):
    """both dispatching functions on a type tag: a known tag on a sample geometry of that type,
    an unknown one on a foreign object"""
    from soundevent.geometry import geometry_to_shapely
    from soundevent.geometry.features import compute_geometric_features
    tag = inp["tag"]
    if tag in gen_geom.TYPES:
        geom = gen_geom.to_data(_SAMPLE[tag])
    else:
        geom = _Foreign(tag)
    errs = []
    for fn in (geometry_to_shapely, compute_geometric_features):
        try:
            fn(geom)
            errs.append(None)
        except NotImplementedError:
            errs.append("notimpl")
    if errs == [None, None]:
        return {"val": None}
    if errs == ["notimpl", "notimpl"]:
        return {"raise": "notimpl"}
    return {"val": errs}


_SAMPLE = {
    "TimeStamp": {"type": "TimeStamp", "coordinates": "1"},
    "TimeInterval": {"type": "TimeInterval", "coordinates": ["1", "2"]},
    "Point": {"type": "Point", "coordinates": ["1", "2"]},
    "LineString": {"type": "LineString", "coordinates": [["1", "2"], ["3", "4"]]},
    "Polygon": {"type": "Polygon", "coordinates": [[["1", "2"], ["3", "2"], ["2", "4"], ["1", "2"]]]},
    "BoundingBox": {"type": "BoundingBox", "coordinates": ["1", "2", "3", "4"]},
    "MultiPoint": {"type": "MultiPoint", "coordinates": [["1", "2"]]},
    "MultiLineString": {"type": "MultiLineString", "coordinates": [[["1", "2"], ["3", "4"]]]},
    "MultiPolygon": {"type": "MultiPolygon", "coordinates": [[[["1", "2"], ["3", "2"], ["2", "4"], ["1", "2"]]]]},
}
UNKNOWN_TAGS = ["Circle", "", "timestamp", "Boundingbox", "GeometryCollection", "LinearRing", "Point "]


OPS = {
    "bounds": Op("bounds", _impl_bounds, holds=_safe(_holds_bounds)),
    "features": Op("features", _impl_features, holds=_safe(_holds_features)),
    "point": Op("point", _impl_point, holds=_safe(_holds_point)),
    "shape": Op("shape", _impl_shape, compare=_cmp_shape),
    "features_free": Op("features_free", _impl_features, compare=_cmp_features_free, mode="round-once",
                        model_op="features"),
    "point_free": Op("point_free", _impl_point, compare=_cmp_point_free, mode="round-once", model_op="point"),
    "anchor_free": Op("anchor_free", _impl_point, compare=_cmp_anchor, holds=_safe(_holds_anchor), mode="round-once",
                      model_op="point"),
    "lib_point": Op("lib_point", _impl_lib_point, to_model=_to_model_lib, holds=_safe(_holds_lib_point),
                    mode="tolerance", model_op="point"),
    # review additions
    "centroid": Op("centroid", _impl_centroid, to_model=_to_model_centroid, compare=_cmp_centroid,
                   determined=False, mode="tolerance"),
    "session": Op("session", _impl_session, to_model=_to_model_session, compare=_cmp_session),
    "history": Op("history", _impl_history, to_model=lambda inp: {"steps": [
        dict(s_, calls=[_norm_call(c) for c in s_["calls"]]) if s_["do"] == "query" else s_ for s_ in inp["steps"]]},
        compare=_cmp_history),
    "dispatch": Op("dispatch", _impl_dispatch, nontrivial=lambda inp, out: True, determined=False),
    # follow-up: one call through a construction path and a call form; histories of such calls
    "call": Op("call", _impl_call, to_model=_to_model_call, compare=_cmp_call, holds=_safe(_holds_call), model_op="session"),
}
OPS["call_history"] = hist.history_op(
    "call_history", OPS["call"], build=_h_build,
    call=lambda args: _call_raw(args["geom"], args["call"]),
    canon=lambda inp, args, res: {"val": [_canon_raw(inp["call"], res)]},
    snapshot=lambda args: gen_geom.from_data(args["geom"]),
    modify=_h_modify, poison=_poison)


def _rounding_excursion(failure, m):
    """known finding: shapely's centroid leaves the bounds by an ulp or so along an axis on which the
    geometry has zero extent, or an extent of a few ulps (`max_rel_extent`) -- only this position, only such
    axes, only below the magnitude bound"""
    if failure.kind != "property" or failure.inp.get("pos") != m.get("position"):
        return False
    d = failure.detail
    if "rel_excursion=" not in d:
        return False
    flat = "zero_extent_axis_only=True" in d
    if not flat:
        if "violated_axis_rel_extent=" not in d or "max_rel_extent" not in m:
            return False
        if float(d.split("violated_axis_rel_extent=")[1].split()[0]) > float(Fraction(m["max_rel_extent"])):
            return False
    ex = float(d.split("rel_excursion=")[1].split()[0])
    return 0 < ex <= float(Fraction(m["max_rel_excursion"]))


def _invalid_polygon_centroid(failure, m):
    """known finding: the centroid of an OGC-invalid (self-intersecting, ...) polygon the data model accepts
    is GEOS's signed-area formula, which can lie anywhere -- only this position, only such polygons,
    only when the value is the one the modelled formula gives"""
    if failure.kind != "property" or failure.inp.get("pos") != m.get("position"):
        return False
    if (failure.inp.get("g") or {}).get("type") not in ("Polygon", "MultiPolygon"):
        return False
    return "ogc_invalid_polygon=True geos_formula=True" in failure.detail


FINDING_MATCHERS = {"rounding_excursion": _rounding_excursion,
                    "invalid_polygon_centroid": _invalid_polygon_centroid}


# ---------------------------------------------------------------- tie 1: tables
def _lean_strs(xs):
    return "[" + ", ".join('"' + str(x).replace("\\", "\\\\").replace('"', '\\"') + '"' for x in xs) + "]"


def _positions(ops):
    lit = getattr(ops, "Positions", None)
    return [p for p in typing.get_args(lit) if isinstance(p, str)] if lit is not None else None


def _table_obligations(ctx):
    import soundevent.geometry.operations as ops
    import soundevent.geometry.features as F
    from soundevent import data
    positions = _positions(ops)
    if not positions:
        # a type alias: without it the guard of get_geometry_point is still observed name by name through the
        # symbolic ties (all eleven names of the model and six unknown ones) and the `point` correspondence
        ctx.note("`Positions` literal not found in operations.py: literal obligations not generated, the guard is "
                 "observed through get_geometry_point only")
    else:
        ctx.obligation("positions_literal",
                       f"example : ({_lean_strs(positions)} : List String) = SE.Bnd.positionNames := by decide\n",
                       {"op": "point"})
        # Python's own `split("-")` on the names agrees with the model's splitDash
        split_tbl = ", ".join(f"({_lean_strs([p])[1:-1]}, {_lean_strs(p.split('-'))})" for p in positions)
        ctx.obligation("positions_split",
                       f"example : ([{split_tbl}] : List (String × List String)).all "
                       f"(fun p => SE.Bnd.splitDash p.1 == p.2) = true := by decide\n", {"op": "point"})
    table = getattr(F, "_COMPUTE_FEATURES", None)
    if not isinstance(table, dict):
        # a private name: its absence is not a failure, the dispatch is observed through the public function
        # (ties ext_features_<type>, ext_features_unknown_type and the `dispatch` correspondence)
        ctx.note("`_COMPUTE_FEATURES` is not a dict in features.py: key-table obligation not generated, "
                 "dispatch observed through compute_geometric_features only")
    else:
        keys = [str(k) for k in table.keys()]
        ctx.obligation("feature_table_keys",
                       f"def keys : List String := {_lean_strs(keys)}\n"
                       "theorem keys_cover : ∀ k ∈ SE.Bnd.featureTypes, k ∈ keys := by decide\n"
                       "theorem keys_only : ∀ k ∈ keys, k ∈ SE.Bnd.featureTypes := by decide\n"
                       "theorem table_total (g : SE.Geom) : g.tag ∈ keys :=\n"
                       "  SE.Proofs.C05.C05_feature_table_total keys keys_cover g\n", {"op": "features"})
    ctx.stage("signatures", _signature_obligations, ctx)
    # the five feature terms are told apart by equality with the library's term objects: they must be five
    # different terms carrying the names the feature documentation gives them
    from soundevent import terms
    ts = [getattr(terms, n, None) for n in FEATURE_NAMES]
    ctx.contract("feature_terms_distinct", all(t is not None for t in ts)
                 and all(ts[i] != ts[j] for i in range(len(ts)) for j in range(i)), None,
                 [str(getattr(t, "name", t)) for t in ts], detail="the feature terms of soundevent.terms are not five distinct terms")
    mf = getattr(data, "MAX_FREQUENCY", None)
    if not isinstance(mf, (int, float)) or isinstance(mf, bool):
        ctx.fail("obligation", "max_frequency", detail="`MAX_FREQUENCY` not found", extra={"op": "bounds"})
    else:
        ctx.obligation("max_frequency",
                       f"example : SE.MAXF = {st.lit(Fraction(mf))} := by decide +kernel\n", {"op": "bounds"})


def _signature_obligations(ctx):
    """the parameter lists of the four public functions, re-read by introspection: the geometry first and
    required, then (get_geometry_point) the position with a default that is one of the names, then only
    parameters with defaults -- the shape `C05_call_forms` / `C05_call_forms_unary` speak about, so that the
    positional, keyword and mixed call forms the check uses all denote the same (geometry, position)"""
    for o, fn in _public().items():
        ps = _params(fn)
        if ps is None:
            ctx.note(f"signature of the `{o}` function cannot be inspected: keyword call forms not used for it")
            continue
        if o == "point" and _declared_default() is None:
            ctx.note("get_geometry_point declares no position name as default: the call without position is held to "
                     "the documented 'bottom-left', signature obligation not generated")
            continue
        need = 2 if o == "point" else 1
        if any(k == inspect.Parameter.KEYWORD_ONLY for _n, _h, _d, k in ps[:need]):
            ctx.fail("obligation", "signature_" + o, detail="a documented positional parameter became keyword-only",
                     extra={"op": "call"})
            continue

        def tok(d):
            return d if isinstance(d, str) else "<" + type(d).__name__ + ">"
        items = ", ".join("⟨" + _lean_strs([n])[1:-1] + ", " + ("some " + _lean_strs([tok(d)])[1:-1] if has else "none") + "⟩"
                          for n, has, d, _k in ps)
        ctx.obligation("signature_" + o,
                       f"example : SE.Bnd.sigOK ([{items}] : List SE.Bnd.Param) {'true' if o == 'point' else 'false'} = true "
                       ":= by decide\n", {"op": "call"})


# ---------------------------------------------------------------- tie 1b: symbolic traces
def _feature_leaf(v):
    """[(term, value), ...] recorded by the Feature stub -> Lean `some [("name", value), ...]`"""
    items = ", ".join(f'("{_term_name(t)}", {symx.num(x)})' for t, x in v)
    return f"some [{items}]"


class _StubFeature:
    """a Feature stand-in: a (term, value) record that also answers `.term` / `.value`"""

    def __init__(self, term, value):
        self.term, self.value = term, value

    def __iter__(self):
        return iter((self.term, self.value))


class _StubGeometry:
    """a geometry stand-in for tracing: carries a type tag, symbolic coordinates and the symbolic
    bounds the stubbed compute_bounds / geometry_to_shapely hand out"""

    def __init__(self, type, coordinates, bounds):
        self.type = type
        self.coordinates = coordinates
        self._bounds = bounds

    @classmethod
    def geom_type(cls):
        return None


class _StubPointShape:
    """a shapely Point stand-in carrying a symbolic coordinate pair"""

    def __init__(self, xy):
        self.coords = [tuple(xy)]
        self.x, self.y = xy
        self.geom_type = "Point"


class _StubShape:
    """what the stubbed geometry_to_shapely returns: symbolic `bounds`, three parts, symbolic
    centroid / point on surface"""

    def __init__(self, bounds, centroid=None, surface=None):
        self.bounds = bounds
        self.geoms = [None, None, None]
        self.geom_type = "Stub"
        self._centroid, self._surface = centroid, surface

    @property
    def centroid(self):
        if self._centroid is None:
            raise st.Untraceable("centroid of a shape stub without one")
        return _StubPointShape(self._centroid)

    def point_on_surface(self):
        if self._surface is None:
            raise st.Untraceable("point_on_surface of a shape stub without one")
        return _StubPointShape(self._surface)

    representative_point = point_on_surface


class _ModuleProxy:
    """a module whose listed attributes are replaced, everything else passed through"""

    def __init__(self, real, repl):
        self.__dict__["_real"] = real
        self.__dict__["_repl"] = repl

    def __getattr__(self, name):
        if name in self._repl:
            return self._repl[name]
        return getattr(self._real, name)


class _Patched:
    """context manager: in `module`, globals that ARE one of `by_identity`'s keys are replaced by the
    mapped stub, globals that are one of the `modules` are replaced by a proxy with `attrs` overridden.
    Observes what the code calls, not how it imported it."""

    def __init__(self, module, by_identity, modules, attrs):
        self.module, self.by_identity, self.modules, self.attrs = module, by_identity, modules, attrs
        self.saved = {}

    def __enter__(self):
        for name, val in list(vars(self.module).items()):
            if name.startswith("__"):
                continue
            repl = None
            for real, stub in self.by_identity:
                if val is real:
                    repl = stub
            for real in self.modules:
                if val is real:
                    repl = _ModuleProxy(real, self.attrs)
            if repl is not None:
                self.saved[name] = val
                setattr(self.module, name, repl)
        return self

    def __exit__(self, *exc):
        for name, val in self.saved.items():
            setattr(self.module, name, val)
        return False


def _mk_geom(ty, coords, bounds=None):
    """a geometry for tracing: a real `soundevent.data` object built without validation (so that
    `isinstance` / `.type` dispatch both work) carrying symbolic coordinates; falls back to a stub"""
    try:
        from soundevent import data
        g = getattr(data, ty).model_construct(coordinates=coords)
        if getattr(g, "type", None) != ty:
            raise ValueError("type tag")
        object.__setattr__(g, "_bounds", bounds)
        return g
    except Exception:  # noqa: BLE001
        return _StubGeometry(ty, coords, bounds)


class _Call:
    """a recorded shapely constructor call"""

    def __init__(self, kind, *args):
        self.kind, self.args = kind, args


def _as_pts(c):
    if isinstance(c, _Call) and c.kind == "lineString":
        return c.args[0]
    return [tuple(p_.args[0]) if isinstance(p_, _Call) else tuple(p_) for p_ in c]


def _as_poly(x):
    """an item of MultiPolygon's argument: a recorded Polygon call or a (shell, holes) pair"""
    if isinstance(x, _Call) and x.kind == "polygon":
        return x.args
    shell, holes = x[0], (x[1] if len(x) > 1 else [])
    return _as_pts(shell), [_as_pts(h) for h in (holes or [])]


def _recorders():
    """recording stand-ins for the shapely constructors `conversion.py` may call"""
    def box(minx, miny, maxx, maxy, ccw=True, **kw):
        if ccw is not True or kw:
            raise st.Untraceable("box(ccw=False)")
        return _Call("box", minx, miny, maxx, maxy)

    def point(*a, **kw):
        xy = a[0] if len(a) == 1 else a
        return _Call("point", tuple(xy))

    def linestring(coords, **kw):
        return _Call("lineString", _as_pts(coords))

    def linearring(coords, **kw):
        return _as_pts(coords)

    def polygon(shell=None, holes=None, **kw):
        return _Call("polygon", _as_pts(shell), [_as_pts(h) for h in (holes or [])])

    def multipoint(points, **kw):
        return _Call("multiPoint", _as_pts(points))

    def multilinestring(lines, **kw):
        return _Call("multiLineString", [_as_pts(ln) for ln in lines])

    def multipolygon(polys, **kw):
        return _Call("multiPolygon", [_as_poly(x) for x in polys])

    return {"box": box, "Point": point, "points": point, "LineString": linestring, "linestrings": linestring,
            "LinearRing": linearring, "linearrings": linearring, "Polygon": polygon, "polygons": polygon,
            "MultiPoint": multipoint, "multipoints": multipoint, "MultiLineString": multilinestring,
            "multilinestrings": multilinestring, "MultiPolygon": multipolygon, "multipolygons": multipolygon}


def _lean_pt(p_):
    return f"({symx.num(p_[0])}, {symx.num(p_[1])})"


def _lean_pts(ps):
    return "[" + ", ".join(_lean_pt(p_) for p_ in ps) + "]"


def _lean_rings(rs):
    return "[" + ", ".join(_lean_pts(r) for r in rs) + "]"


def _call_leaf(v):
    """recorded constructor call -> Lean `some (ShCall.realize <call>)`"""
    if not isinstance(v, _Call):
        raise st.Untraceable(f"conversion returned {type(v).__name__}, not a recorded shapely call")
    k, a = v.kind, v.args
    C = "SE.Bnd.ShCall."
    if k == "box":
        t = f"{C}box {symx.num(a[0])} {symx.num(a[1])} {symx.num(a[2])} {symx.num(a[3])}"
    elif k == "point":
        t = f"{C}point {_lean_pt(a[0])}"
    elif k in ("lineString", "multiPoint"):
        t = f"{C}{k} {_lean_pts(a[0])}"
    elif k == "polygon":
        t = f"{C}polygon {_lean_pts(a[0])} {_lean_rings(a[1])}"
    elif k == "multiLineString":
        t = f"{C}multiLineString {_lean_rings(a[0])}"
    elif k == "multiPolygon":
        t = f"{C}multiPolygon [" + ", ".join(f"({_lean_pts(sh)}, {_lean_rings(hs)})" for sh, hs in a[0]) + "]"
    else:
        raise st.Untraceable(k)
    return f"some (SE.Bnd.ShCall.realize ({t}))"


def _sym_pts(prefix, n):
    names = [f"{prefix}{i}{c}" for i in range(n) for c in "tf"]
    return names, [[Sym.var(f"{prefix}{i}t"), Sym.var(f"{prefix}{i}f")] for i in range(n)]


_FEAT_SIMP = ("simp [SE.Bnd.features, SE.Bnd.shapeFeatures, SE.Bnd.boundsFeatures, SE.Bnd.fDuration, SE.Bnd.fLow, "
              "SE.Bnd.fHigh, SE.Bnd.fBandwidth, SE.Bnd.fSegments]")


def _ops_patch(ops, b, centroid=None, surface=None):
    """operations.py with compute_bounds / geometry_to_shapely / the shapely functions it may use
    replaced by symbolic stand-ins (by identity of the objects, however they were imported)"""
    import shapely
    attrs = {"point_on_surface": lambda g, **kw: g.point_on_surface(),
             "centroid": lambda g, **kw: g.centroid,
             "bounds": lambda g, **kw: g.bounds}
    by_id = []
    import soundevent.geometry.conversion as convmod
    conv_stub = lambda g: _StubShape(g._bounds, centroid, surface)   # noqa: E731
    by_id.append((convmod.geometry_to_shapely, conv_stub))
    for n, f in attrs.items():
        real = getattr(shapely, n, None)
        if real is not None:
            by_id.append((real, f))
    # also when reached through a module object (`conversion.geometry_to_shapely(...)`, `shapely.bounds(...)`)
    return by_id, [shapely, convmod], dict(attrs, geometry_to_shapely=conv_stub)


def _symbolic_ties(ctx):
    import soundevent.geometry.operations as ops
    import soundevent.geometry.features as F
    BV = ["st", "lo", "en", "hi"]
    b = tuple(Sym.var(n) for n in BV)
    # --- get_geometry_point with compute_bounds (and the conversion) stubbed: every name of the
    #     literal and unknown ones
    G = _mk_geom("BoundingBox", list(b), b)
    by_id, mods, attrs = _ops_patch(ops, b)
    cb = getattr(ops, "compute_bounds", None)
    with _Patched(ops, by_id + ([(cb, lambda g: g._bounds)] if cb is not None else []), mods, attrs):
        positions = [p for p in (_positions(ops) or BOUNDS_POS) if p not in LIB_POS]
        for pos in positions + UNKNOWN_POS[:6]:
            name = "ext_point_" + "".join(c if c.isalnum() else "_" for c in pos) + ("" if pos in positions else "_unknown")
            ctx.sym_tie(name, lambda pos=pos: tuple(ops.get_geometry_point(G, pos)), BV, "Rat × Rat",
                        f'(SE.Bnd.pointAt (fun _ => (0, 0)) {_lean_strs([pos])[1:-1]} ⟨st, lo, en, hi⟩).toOption',
                        tactic=f"unfold {name}\n  first | rfl | decide | (simp [SE.Bnd.pointAt, SE.Bnd.positionNames]; done)"
                               f" | (simp [SE.Bnd.pointAt, SE.Bnd.positionNames, Except.toOption, SE.Bnd.splitDash, "
                               f"SE.Bnd.splitAux, SE.Bnd.timeSel, SE.Bnd.freqSel] <;> (try constructor) <;> ring)",
                        meta={"op": "point"}, catch=(ValueError, KeyError))
    ctx.stage("symbolic-ties-delegation", _delegation_ties, ctx)
    ctx.stage("symbolic-ties-conversion", _conversion_ties, ctx)
    # --- compute_geometric_features on every type (through the public function: a wrong row of the
    #     dispatch table is a wrong function)
    t, s, e, lo_, hi_ = Sym.var("t"), Sym.var("s"), Sym.var("e"), Sym.var("l"), Sym.var("h")
    closed = {
        "TimeStamp": (["t"], t, "SE.Bnd.features (.timeStamp t)"),
        "TimeInterval": (["s", "e"], (s, e), "SE.Bnd.features (.timeInterval s e)"),
        "BoundingBox": (["s", "l", "e", "h"], (s, lo_, e, hi_), "SE.Bnd.features (.boundingBox s l e h)"),
    }
    import shapely
    import soundevent.geometry.conversion as convmod
    from soundevent import data as datamod
    feat_stub = lambda term=None, value=None, **kw: _StubFeature(term, value)   # noqa: E731
    conv_stub = lambda g: _StubShape(g._bounds)   # noqa: E731
    by_id = [(datamod.Feature, feat_stub), (convmod.geometry_to_shapely, conv_stub)]
    attrs = {"bounds": lambda g, **kw: g.bounds, "get_num_geometries": lambda g, **kw: len(g.geoms)}
    for n, f in attrs.items():
        real = getattr(shapely, n, None)
        if real is not None:
            by_id.append((real, f))
    attrs = dict(attrs, geometry_to_shapely=conv_stub, Feature=feat_stub)
    with _Patched(F, by_id, [shapely, convmod, datamod], attrs):
        for key in gen_geom.TYPES:
            name = "ext_features_" + key
            if key in closed:
                V, coords, mterm = closed[key]
            else:
                # coordinates deliberately unusable: these functions must read the converted shape only
                V, coords = BV, None
                mterm = f'some (SE.Bnd.shapeFeatures "{key}" ⟨st, lo, en, hi⟩ 3)'
            geo = _mk_geom(key, coords, b)
            symx.sym_tie(ctx, name, lambda geo=geo: F.compute_geometric_features(geo), V,
                         "Option (List (String × Rat))", mterm, _feature_leaf,
                         tactic=f"unfold {name}\n  first | rfl | ({_FEAT_SIMP}; done) | ({_FEAT_SIMP} <;> grind)",
                         meta={"op": "features"}, catch=(ValueError, NotImplementedError))
        # an unknown type tag is NotImplementedError
        foreign = _StubGeometry("Circle", None, b)
        symx.sym_tie(ctx, "ext_features_unknown_type", lambda: F.compute_geometric_features(foreign), BV,
                     "Option (List (String × Rat))",
                     '(match SE.Bnd.dispatch "Circle" with | .ok _ => some [] | .error _ => none)', _feature_leaf,
                     tactic="unfold ext_features_unknown_type\n  first | rfl | decide | (simp [SE.Bnd.dispatch, SE.Bnd.featureTypes]; done)",
                     meta={"op": "dispatch"}, catch=(NotImplementedError,))


def _delegation_ties(ctx):
    """compute_bounds returns the `bounds` of the converted shape; the `centroid` / `point_on_surface`
    branches of get_geometry_point return shapely's answer for the converted shape, unchanged"""
    import soundevent.geometry.operations as ops
    BV = ["st", "lo", "en", "hi"]
    b = tuple(Sym.var(n) for n in BV)
    cx, cy, px, py = (Sym.var(n) for n in ("cx", "cy", "px", "py"))
    by_id, mods, attrs = _ops_patch(ops, b, (cx, cy), (px, py))
    G = _mk_geom("BoundingBox", list(b), b)
    with _Patched(ops, by_id, mods, attrs):
        ctx.sym_tie("ext_compute_bounds", lambda: tuple(ops.compute_bounds(G)), BV, "Rat × Rat × Rat × Rat",
                    "some (st, lo, en, hi)", tactic="unfold ext_compute_bounds\n  first | rfl | (simp; done)",
                    meta={"op": "bounds"}, catch=(ValueError, KeyError))
        lib = 'fun n => if n = "centroid" then (cx, cy) else (px, py)'
        for pos in LIB_POS:
            name = "ext_point_" + pos
            ctx.sym_tie(name, lambda pos=pos: tuple(ops.get_geometry_point(G, pos)),
                        BV + ["cx", "cy", "px", "py"], "Rat × Rat",
                        f'(SE.Bnd.pointAt ({lib}) "{pos}" ⟨st, lo, en, hi⟩).toOption',
                        tactic=f"unfold {name}\n  first | rfl | decide | (simp [SE.Bnd.pointAt, SE.Bnd.positionNames]; done)",
                        meta={"op": "lib_point"}, catch=(ValueError, KeyError))


def _conversion_ties(ctx):
    """every `*_to_shapely` through `geometry_to_shapely`, with the shapely constructors recording:
    the call made on symbolic coordinates, realised by the model of shapely, is the model's shape"""
    import shapely
    import shapely.geometry as sg
    import soundevent.geometry.conversion as conv
    rec = _recorders()
    by_id = []
    for n, f in rec.items():
        for mod in (shapely, sg):
            real = getattr(mod, n, None)
            if real is not None:
                by_id.append((real, f))
    t, s_, e_, l_, h_ = (Sym.var(n) for n in ("t", "s", "e", "l", "h"))
    n3, p3 = _sym_pts("a", 3)
    n4, p4 = _sym_pts("b", 4)
    nh, ph = _sym_pts("c", 3)
    nq, pq = _sym_pts("d", 3)
    L = lambda ps: _lean_pts(ps)   # noqa: E731
    cases = {
        "TimeStamp": (["t"], t, "(.timeStamp t)"),
        "TimeInterval": (["s", "e"], [s_, e_], "(.timeInterval s e)"),
        "Point": (["t", "l"], [t, l_], "(.point t l)"),
        "BoundingBox": (["s", "l", "e", "h"], [s_, l_, e_, h_], "(.boundingBox s l e h)"),
        "LineString": (n3, p3, f"(.lineString {L(p3)})"),
        "MultiPoint": (n3, p3, f"(.multiPoint {L(p3)})"),
        "MultiLineString": (n3 + n4, [p3, p4], f"(.multiLineString [{L(p3)}, {L(p4)}])"),
        "Polygon": (n4 + nh + nq, [p4, ph, pq], f"(.polygon [{L(p4)}, {L(ph)}, {L(pq)}])"),
        "MultiPolygon": (n4 + nh + nq + n3, [[p4, ph], [pq], [p3]],
                         f"(.multiPolygon [[{L(p4)}, {L(ph)}], [{L(pq)}], [{L(p3)}]])"),
    }
    # what the data model's validators guarantee about the order of the stored numbers (the symbolic
    # inputs range over validated geometries only: a branch that no valid geometry takes is not a difference)
    hyps = {
        "TimeInterval": ["s ≤ e"], "BoundingBox": ["s ≤ e", "l ≤ h"],
        "LineString": ["a0t ≤ a2t"], "MultiLineString": ["a0t < a2t", "b0t < b3t"],
    }
    simp = ("simp [SE.Bnd.toShape, SE.Bnd.ShCall.realize, SE.Bnd.polyOf, SE.Bnd.boxRing, SE.MAXF]")
    with _Patched(conv, by_id, [shapely, sg], rec):
        for key in gen_geom.TYPES:
            V, coords, gterm = cases[key]
            name = "ext_conversion_" + key
            geo = _mk_geom(key, coords)
            symx.sym_tie(ctx, name, lambda geo=geo: conv.geometry_to_shapely(geo), V, "Option SE.Bnd.Shape",
                         f"some (SE.Bnd.toShape {gterm})", _call_leaf,
                         tactic=f"unfold {name}\n  first | rfl | ({simp}; done) | ({simp} <;> grind) | (split <;> {simp} <;> grind)",
                         meta={"op": "shape"}, catch=(ValueError, NotImplementedError), hyps=hyps.get(key, ()))
        # an unknown type tag is NotImplementedError (model: `dispatch`)
        foreign = _StubGeometry("Circle", [t, l_], None)
        symx.sym_tie(ctx, "ext_conversion_unknown_type", lambda: conv.geometry_to_shapely(foreign), ["t", "l"],
                     "Option SE.Bnd.Shape", '(match SE.Bnd.dispatch "Circle" with | .ok _ => some (SE.Bnd.Shape.point (t, l)) | .error _ => none)',
                     _call_leaf, tactic="unfold ext_conversion_unknown_type\n  first | rfl | decide | (simp [SE.Bnd.dispatch, SE.Bnd.featureTypes]; done)",
                     meta={"op": "dispatch"}, catch=(NotImplementedError,))


# ---------------------------------------------------------------- tie 2 generators
def _g(ty, c):
    def enc(x):
        if isinstance(x, (list, tuple)):
            return [enc(y) for y in x]
        return rat(x) if not isinstance(x, str) else x
    return {"type": ty, "coordinates": enc(c)}


M = gen_geom.MAXF
H = Fraction(1, 2)


def special_geometries():
    """zero-extent and structural corner cases of every type (all accepted by the data model)"""
    out = [
        _g("TimeStamp", 0), _g("TimeStamp", 3), _g("TimeStamp", Fraction(7, 8)),
        _g("TimeInterval", [0, 0]), _g("TimeInterval", [2, 2]), _g("TimeInterval", [0, 5]), _g("TimeInterval", [1, H * 7]),
        _g("Point", [0, 0]), _g("Point", [3, M]), _g("Point", [H, 1000]),
        _g("BoundingBox", [1, 2, 1, 2]), _g("BoundingBox", [1, 2, 1, 4]), _g("BoundingBox", [1, 2, 3, 2]),
        _g("BoundingBox", [0, 0, 4, M]), _g("BoundingBox", [0, 0, 0, 0]), _g("BoundingBox", [1, 2, 3, 5]),
        _g("LineString", [[1, 2], [1, 2]]), _g("LineString", [[1, 2], [1, 5]]), _g("LineString", [[1, 3], [2, 3], [7, 3]]),
        _g("LineString", [[0, 0], [4, M]]), _g("LineString", [[1, 5], [3, 1], [2, 7], [4, 2]]),
        _g("LineString", [[2, 1], [1, 3], [2, 6]]),
        _g("Polygon", [[[1, 2], [2, 2], [3, 2], [1, 2]]]), _g("Polygon", [[[1, 2], [1, 2], [1, 2], [1, 2]]]),
        _g("Polygon", [[[1, 2], [2, 2], [3, 5]]]), _g("Polygon", [[[1, 2], [2, 2], [1, 2]]]),
        _g("Polygon", [[[1, 2], [1, 2], [1, 2]]]), _g("Polygon", [[[1, 2], [2, 2], [3, 5], [1, 2], [1, 2]]]),
        _g("Polygon", [[[1, 2], [2, 2], [3, 5], [1, H * 5]]]),
        _g("Polygon", [[[0, 0], [8, 0], [8, 8], [0, 8], [0, 0]], [[2, 2], [4, 2], [4, 4], [2, 4], [2, 2]]]),
        _g("Polygon", [[[0, 0], [8, 0], [8, 8], [0, 8], [0, 0]], [[1, 1], [2, 1], [2, 2], [1, 1]],
                       [[5, 5], [7, 5], [7, 7]]]),
        _g("Polygon", [[[0, 0], [2, 2], [2, 0], [0, 2], [0, 0]]]),
        _g("Polygon", [[[1, 2], [5, 2], [3, 7], [1, 2]], [[8, 8], [9, 8], [9, 9], [8, 8]]]),   # hole outside the shell
        _g("MultiPoint", [[1, 2]]), _g("MultiPoint", [[1, 2], [1, 2]]), _g("MultiPoint", [[1, 2], [3, 2], [2, 2]]),
        _g("MultiPoint", [[0, 0], [5, M]]), _g("MultiPoint", [[4, 1], [1, 7], [3, 3], [2, 9]]),
        _g("MultiLineString", [[[1, 3], [2, 3]], [[4, 3], [5, 3]]]), _g("MultiLineString", [[[1, 3], [2, 5]]]),
        _g("MultiLineString", [[[1, 3], [2, 5], [3, 1]], [[0, 9], [1, 0]], [[6, 2], [7, 2]]]),
        _g("MultiPolygon", [[[[1, 2], [2, 2], [3, 2], [1, 2]]]]),
        _g("MultiPolygon", [[[[1, 2], [2, 2], [3, 5]]], [[[4, 1], [6, 1], [5, 3], [4, 1]]]]),
        _g("MultiPolygon", [[[[0, 0], [8, 0], [8, 8], [0, 8], [0, 0]], [[2, 2], [4, 2], [4, 4], [2, 4], [2, 2]]],
                            [[[9, 1], [12, 1], [12, 9], [9, 1]]], [[[13, 0], [14, 0], [14, 1], [13, 0]]]]),
        _g("MultiPolygon", [[[[9, 1], [12, 1], [12, 9], [9, 1]], [[0, 20], [1, 20], [1, 21], [0, 20]]]]),  # hole outside
        # review: lines that return to their first vertex, repeated vertices, boxes / intervals on the axes
        _g("LineString", [[1, 2], [3, 5], [1, 2]]), _g("LineString", [[1, 2], [1, 2], [3, 4], [3, 4], [5, 1]]),
        _g("MultiLineString", [[[1, 2], [2, 2], [2, 2]], [[2, 3], [5, 7]]]),
        _g("BoundingBox", [1, 0, 2, 0]), _g("BoundingBox", [0, 0, 2, 3]), _g("BoundingBox", [0, 5, 0, 9]),
        _g("TimeInterval", [0, H]), _g("MultiPoint", [[0, 0], [0, 0], [0, 0]]),
    ]
    return [_norm(g) for g in out]


def random_geometries(rng, n):
    """grid-mode geometries of every type at several scales (all arithmetic exact in binary64)"""
    scales = [(8.0, 8.0, 3), (4.0, 4.0, 2), (64.0, 20000.0, 1), (1000.0, float(M), 0), (2.0, 16.0, 5)]
    out = []
    for i in range(n):
        ty = gen_geom.TYPES[i % len(gen_geom.TYPES)]
        tmax, fmax, k = scales[(i // len(gen_geom.TYPES)) % len(scales)]
        kw = {}
        if rng.random() < 0.25:
            kw = {"tmin": 0.0, "fmin": 0.0}
        g = _gen_valid(rng, ty, tmax=tmax, fmax=fmax, k=k, **kw)
        out.append(_norm(g))
    # polygons with holes, explicitly
    for _ in range(max(2, n // 12)):
        rings = gen_geom._poly(rng, 0.0, 8.0, 0.0, 8.0, 3, holes=True)
        g = {"type": "Polygon", "coordinates": gen_geom._enc(rings)}
        if _simple(g):
            out.append(_norm(g))
    return out


def free_geometries(rng, n):
    """arbitrary binary64 coordinates (decimal values, large frequencies)"""
    out = []

    def t():
        return rng.choice([rng.uniform(0, 10), round(rng.uniform(0, 100), 2), rng.uniform(0, 1e-3), rng.uniform(0, 3600)])

    def f():
        return rng.choice([rng.uniform(0, M), round(rng.uniform(0, 24000), 1), rng.uniform(0, 1), float(M)])
    for i in range(n):
        ty = gen_geom.TYPES[i % len(gen_geom.TYPES)]
        if ty == "TimeStamp":
            c = t()
        elif ty == "TimeInterval":
            c = sorted([t(), t()])
        elif ty == "Point":
            c = [t(), f()]
        elif ty == "BoundingBox":
            a, b = sorted([t(), t()])
            l, h = sorted([f(), f()])
            c = [a, l, b, h]
        elif ty in ("LineString", "MultiPoint"):
            c = [[t(), f()] for _ in range(rng.randint(2, 5))]
        elif ty == "MultiLineString":
            c = []
            for _ in range(rng.randint(1, 3)):
                a = t()
                c.append([[a, f()], [a + rng.uniform(0.001, 5), f()]])
        elif ty == "Polygon":
            a, l = t(), f() * 0.5
            c = [[[a, l], [a + 1.1, l], [a + 0.7, l + 0.3], [a, l]]]
        else:
            a, l = t(), f() * 0.5
            c = [[[[a, l], [a + 1.1, l], [a + 0.7, l + 0.3], [a, l]]], [[[a + 2, l], [a + 3.3, l], [a + 2.9, l + 0.1]]]]
        out.append(_norm({"type": ty, "coordinates": gen_geom._enc_f(c)}))
    return out


def decimal_geometries(rng, n):
    """wave 5: ordinary decimal coordinates (milliseconds, tenths of Hz, ...) and arbitrary binary64 values of all nine
    types: almost no sum or difference of two coordinates is exact, and `end > 2 * start` half of the time (then
    `end - start` is inexact and `start + (end - start)` need not be `end`)"""
    def t():
        k = rng.randrange(7)
        if k == 0:
            return round(rng.uniform(0, 100), 3)
        if k == 1:
            return round(rng.uniform(0, 3600), 3)
        if k == 2:
            return round(rng.uniform(0, 10), 2)
        if k == 3:
            return round(rng.uniform(0, 1), 6)
        if k == 4:
            return rng.uniform(0, 100)
        if k == 5:
            return round(rng.uniform(0, 100000), 1)
        return round(rng.uniform(0, 30), 4)

    def f():
        k = rng.randrange(6)
        if k == 0:
            return round(rng.uniform(0, 24000), 1)
        if k == 1:
            return round(rng.uniform(0, 250000), 1)
        if k == 2:
            return round(rng.uniform(0, 12000), 2)
        if k == 3:
            return rng.uniform(0, M)
        if k == 4:
            return round(rng.uniform(0, 100), 3)
        return round(rng.uniform(0, float(M)), 1)

    def pair(draw):
        """a sorted pair of drawn values; half of the time rejection-sampled so that `a + (b - a) != b` in binary64 (about
        3 % of the decimal pairs), a quarter of the time so that `b - (b - a) != a` (about 30 %)"""
        a, b = sorted([draw(), draw()])
        u = rng.random()
        if u < 0.75:
            for _ in range(200):
                if (a + (b - a) != b) if u < 0.5 else (b - (b - a) != a):
                    break
                a, b = sorted([draw(), draw()])
        return a, b

    def between(a, b, digits):
        return min(b, max(a, round(rng.uniform(a, b), digits)))

    def cloud(k):
        """k vertices whose extreme times / frequencies are a drawn pair each"""
        (a, b), (l, h) = pair(t), pair(f)
        ts = [a, b] + [between(a, b, 3) for _ in range(k - 2)]
        fs = [l, h] + [between(l, h, 1) for _ in range(k - 2)]
        rng.shuffle(ts)
        rng.shuffle(fs)
        return [[x, y] for x, y in zip(ts[:k], fs[:k])]

    def poly():
        (a, b), (l, h) = pair(t), pair(f)
        if rng.random() < 0.5:
            return [[[a, l], [b, between(l, h, 1)], [between(a, b, 3), h]]]
        ring = [[a, l], [b, l], [b, h], [a, h]]
        if b > a and h > l and rng.random() < 0.6:
            q = [a + (b - a) * u for u in (0.25, 0.5, 0.75)]
            r = [l + (h - l) * u for u in (0.25, 0.75)]
            return [ring, [[q[0], r[0]], [q[2], r[0]], [q[1], r[1]]]]
        return [ring]
    out = []
    for i in range(n):
        ty = gen_geom.TYPES[i % len(gen_geom.TYPES)]
        if ty == "TimeStamp":
            c = t()
        elif ty == "TimeInterval":
            c = list(pair(t))
        elif ty == "Point":
            c = [t(), f()]
        elif ty == "BoundingBox":
            (a, b), (l, h) = pair(t), pair(f)
            c = [a, l, b, h]
        elif ty in ("LineString", "MultiPoint"):
            c = cloud(rng.randint(1 if ty == "MultiPoint" else 2, 5))
        elif ty == "MultiLineString":
            c = [sorted(cloud(rng.randint(2, 4))) for _ in range(rng.randint(1, 3))]   # the data model wants lines time-ordered
        elif ty == "Polygon":
            c = poly()
        else:
            c = [poly() for _ in range(rng.randint(1, 3))]
        g = _try_norm({"type": ty, "coordinates": gen_geom._enc_f(c)})
        if g is not None:
            out.append(g)
    return out


def decimal_fixed():
    """hand-picked decimal geometries: `8.936 + 1.0 * (81.492 - 8.936)` is one ulp above 81.492, same on the
    frequency axis for [1200.7, 9077.3]; every type carries such a pair"""
    gs = [
        ("TimeInterval", [8.936, 81.492]), ("BoundingBox", [8.936, 1200.7, 81.492, 9077.3]),
        ("BoundingBox", [5.677, 823.1, 92.485, 2648.0]), ("BoundingBox", [0.1, 0.3, 0.7, 1.1]),
        ("LineString", [[8.936, 9077.3], [20.5, 1200.7], [81.492, 2500.1]]),
        ("MultiPoint", [[8.936, 1200.7], [81.492, 9077.3]]),
        ("MultiLineString", [[[8.936, 1200.7], [40.0, 900.0]], [[30.0, 700.0], [81.492, 9077.3]]]),
        ("Polygon", [[[8.936, 1200.7], [81.492, 1200.7], [81.492, 9077.3], [8.936, 9077.3]],
                     [[12.0, 2000.0], [14.0, 2000.0], [13.0, 2500.0]]]),
        ("MultiPolygon", [[[[8.936, 1200.7], [9.0, 1300.2], [10.0, 1200.7]]],
                          [[[50.0, 3000.3], [81.492, 4000.4], [60.0, 9077.3]]]]),
        ("TimeStamp", 81.492), ("Point", [81.492, 9077.3]),
        ("BoundingBox", [8.936, 1200.7, 8.936, 1200.7]), ("TimeInterval", [81.492, 81.492]),
    ]
    return [g for g in (_try_norm({"type": ty, "coordinates": gen_geom._enc_f(c)}) for ty, c in gs) if g is not None]


def _anchor_stage(ctx):
    """wave 5 (seeded C05-10): the nine bounds positions of decimal geometries judged on the float values
    (corner / edge components are the bounds bit for bit, every component inside the bounds, midpoints one rounding
    of (a + b) / 2 up to 2 ulp); centroid / point_on_surface of the same geometries by the inside-the-bounds monitor"""
    geoms = _dedupe(decimal_fixed() + decimal_geometries(ctx.rng, ctx.budget(720, 9000)))
    _tally_geoms(ctx, geoms, "decimal")
    ctx.run_cases(OPS["bounds"], [{"g": g} for g in geoms])
    fs = ctx.run_cases(OPS["anchor_free"], _with_positions(geoms, BOUNDS_POS))
    ctx.run_cases(OPS["lib_point"], _with_positions(geoms[: max(40, len(geoms) // 3)], LIB_POS))
    inexact = sum(1 for g, b in zip(geoms, ctx.model_many("bounds", [{"g": g} for g in geoms]))
                  if "val" in b and _f(b["val"][0]) + (_f(b["val"][2]) - _f(b["val"][0])) != _f(b["val"][2]))
    ctx.tally("decimal:start+(end-start)!=end", inexact)
    return fs


def invalid_polygons(rng, n):
    """polygons the data model accepts although a ring crosses itself (bow ties, figure eights), on the
    grid: inside the property's quantifier ("every geometry"), outside OGC validity"""
    fixed = [
        _g("Polygon", [[[0, 0], [4, 4], [4, 0], [0, 3], [0, 0]]]),
        _g("Polygon", [[[0, 0], [4, 4], [4, 0], [0, H * 9], [0, 0]]]),
        _g("Polygon", [[[0, 0], [2, 2], [2, 0], [0, 2], [0, 0]]]),
        _g("Polygon", [[[1, 1], [5, 1], [2, 3], [4, 3]]]),
        _g("Polygon", [[[0, 0], [6, 0], [6, 4], [2, 4], [2, 2], [8, 2], [8, 6], [0, 6], [0, 0]]]),
        _g("MultiPolygon", [[[[0, 0], [4, 4], [4, 0], [0, 3], [0, 0]]], [[[6, 1], [8, 1], [7, 3], [6, 1]]]]),
    ]
    out = [_norm(g) for g in fixed]
    tries = 0
    while len(out) < n and tries < 50 * n:
        tries += 1
        k = rng.randint(4, 6)
        ring = [[Fraction(rng.randint(0, 64), 8), Fraction(rng.randint(0, 64), 8)] for _ in range(k)]
        if rng.random() < 0.5:
            ring.append(list(ring[0]))
        g = {"type": "Polygon", "coordinates": gen_geom._enc([ring])}
        if _ogc_invalid(g):
            out.append(_norm(g))
    return out


def oriented_variants(rng, n):
    """polygons with holes and multi-polygons with every combination of ring orientations (shapely keeps
    the stored orientation; GEOS's centroid must not depend on it), lines with repeated vertices,
    multi-lines with a zero-length line"""
    out = []
    for i in range(n):
        rings = gen_geom._poly(rng, 0.0, 8.0, 0.0, 8.0, 3, holes=True)
        rings = [list(reversed(r)) if rng.random() < 0.5 else r for r in rings]
        g = {"type": "Polygon", "coordinates": gen_geom._enc(rings)}
        if _simple(g):
            out.append(_norm(g))
        a = gen_geom._poly(rng, 0.0, 3.0, 0.0, 8.0, 3, holes=(i % 2 == 0))
        b = gen_geom._poly(rng, 4.0, 8.0, 0.0, 8.0, 3, holes=False)
        polys = [[list(reversed(r)) if rng.random() < 0.5 else r for r in a], [list(reversed(r)) for r in b]]
        g = {"type": "MultiPolygon", "coordinates": gen_geom._enc(polys)}
        if _simple(g):
            out.append(_norm(g))
    out += [_norm(g) for g in [
        _g("LineString", [[1, 2], [1, 2], [3, 4], [3, 4], [5, 1]]),
        _g("LineString", [[1, 2], [1, 2]]), _g("LineString", [[1, 2], [1, 2], [1, 2]]),
        _g("MultiLineString", [[[1, 2], [2, 2], [2, 2]], [[2, 3], [5, 7]]]),
        _g("MultiPolygon", [[[[1, 2], [2, 2], [3, 2], [1, 2]]], [[[4, 1], [6, 1], [5, 3], [4, 1]]]]),
        _g("MultiPolygon", [[[[1, 2], [1, 2], [1, 2]]], [[[4, 1], [4, 1], [4, 1], [4, 1]]]]),
        _g("Polygon", [[[0, 0], [8, 0], [8, 8], [0, 8]], [[1, 1], [1, 3], [3, 3], [3, 1]], [[5, 5], [7, 5], [7, 7]]]),
    ]]
    return out


def _with_positions(geoms, names):
    return [{"g": g, "pos": p} for g in geoms for p in names]


def _tally_geoms(ctx, geoms, label):
    for g in geoms:
        ctx.tally(f"{label}:{g['type']}")


def _run_stream(ctx, geoms, label, lib=True):
    _tally_geoms(ctx, geoms, label)
    gs = [{"g": g} for g in geoms]
    ctx.run_cases(OPS["bounds"], gs)
    ctx.run_cases(OPS["features"], gs)
    ctx.run_cases(OPS["shape"], gs)
    ctx.run_cases(OPS["point"], _with_positions(geoms, BOUNDS_POS))
    unk = [{"g": g, "pos": ctx.rng.choice(UNKNOWN_POS)} for g in geoms]
    ctx.run_cases(OPS["point"], unk)
    if lib:
        ctx.run_cases(OPS["lib_point"], _with_positions(geoms, LIB_POS))


def _special_stage(ctx):
    sp = special_geometries()
    _run_stream(ctx, sp, "special")
    ctx.run_cases(OPS["point"], _with_positions(sp[:6], UNKNOWN_POS))
    ctx.exhaustive["special geometries"] = (f"{len(sp)} hand-written zero-extent / open-ring / hole / multi-part cases x all "
                                            "operations x all 11 position names")
    ctx.exhaustive["unknown position names"] = f"{len(UNKNOWN_POS)} near-miss names on six geometries"
    holes_ok = ctx.model_many("holes_inside", [{"g": g} for g in sp])
    ctx.tally("special:hole_outside_shell", sum(1 for r in holes_ok if r.get("val") is False))


def _grid_stage(ctx):
    _run_stream(ctx, random_geometries(ctx.rng, ctx.budget(1350, 13500)), "grid")


def _free_stage(ctx):
    fg = free_geometries(ctx.rng, ctx.budget(540, 6300))
    _tally_geoms(ctx, fg, "free")
    ctx.run_cases(OPS["bounds"], [{"g": g} for g in fg])
    ctx.run_cases(OPS["shape"], [{"g": g} for g in fg])
    ctx.run_cases(OPS["features_free"], [{"g": g} for g in fg])
    ctx.run_cases(OPS["point_free"], _with_positions(fg, BOUNDS_POS))
    ctx.run_cases(OPS["lib_point"], _with_positions(fg, LIB_POS))


def _invalid_stage(ctx):
    inv = invalid_polygons(ctx.rng, ctx.budget(60, 600))
    _run_stream(ctx, inv, "ogc-invalid")
    ctx.run_cases(OPS["centroid"], [{"g": g} for g in inv])


def _centroid_stage(ctx):
    """GEOS's centroid against the model (tolerance): all types, both ring orientations, degenerate
    areas and lengths"""
    geoms = (special_geometries() + oriented_variants(ctx.rng, ctx.budget(40, 400))
             + random_geometries(ctx.rng, ctx.budget(450, 4500)) + free_geometries(ctx.rng, ctx.budget(180, 1800)))
    _tally_geoms(ctx, geoms, "centroid")
    fs = ctx.run_cases(OPS["centroid"], [{"g": g} for g in geoms])
    skipped = sum(1 for g in geoms if not _orientation_free(g))
    ctx.tally("centroid:not_compared(non-simple multi-ring)", skipped)
    tame = ctx.model_many("tame", [{"g": g} for g in geoms])
    ctx.tally("centroid:tame(theorem applies)", sum(1 for r in tame if r.get("val") is True))
    return fs


def _session_stage(ctx):
    """all operations on one object, interleaved with another geometry, through every construction path"""
    geoms = special_geometries() + random_geometries(ctx.rng, ctx.budget(180, 1800))
    cases = []
    for i, g in enumerate(geoms):
        calls = list(SESSION_CALLS)
        if i % 3 == 1:
            ctx.rng.shuffle(calls)
        cases.append({"g": g, "other": ctx.rng.choice(geoms), "build": BUILDS[i % len(BUILDS)], "calls": calls})
        ctx.tally("session:build=" + BUILDS[i % len(BUILDS)])
    ctx.run_cases(OPS["session"], cases)


def histories(rng, n):
    """per type: a fresh object, then changes of its coordinates (same type, new valid values) through
    every route the data model offers, with queries before and after each change"""
    out = []
    for i in range(n):
        ty = gen_geom.TYPES[i % len(gen_geom.TYPES)]
        gs = [_norm(_gen_valid(rng, ty, tmax=8.0, fmax=8.0, k=3)) for _ in range(4)]
        if gs[1]["type"] != ty or any(g["type"] != ty for g in gs):
            continue      # gen_valid fell back to a box
        def query():
            calls = [{"op": "bounds"}, {"op": "features"}, {"op": "shape"}]
            calls += [{"op": "point", "pos": p_} for p_ in rng.sample(BOUNDS_POS, 3)]
            rng.shuffle(calls)
            return {"do": "query", "calls": calls[:rng.randint(1, len(calls))]}
        steps = [{"do": "new", "g": gs[0], "build": rng.choice(BUILDS)}]
        if rng.random() < 0.85:
            steps.append(query())
        for g in gs[1:rng.randint(2, 4)]:
            steps.append({"do": MUTATIONS[(i + len(steps)) % len(MUTATIONS)] if rng.random() < 0.7
                          else rng.choice(MUTATIONS), "g": g})
            steps.append(query())
        out.append({"steps": steps})
    return out


def _history_stage(ctx):
    hs = histories(ctx.rng, ctx.budget(270, 2700))
    for h in hs:
        for s_ in h["steps"]:
            if s_["do"] not in ("query", "new"):
                ctx.tally("history:" + s_["do"])
    ctx.run_cases(OPS["history"], hs)


def _dedupe(geoms):
    seen, out = set(), []
    for g in geoms:
        k = jkey(g)
        if k not in seen:
            seen.add(k)
            out.append(g)
    return out


def _valid_only(cands):
    return _dedupe([n for n in (_try_norm(g) for g in cands) if n is not None])


def _boundary_stage(ctx):
    """HISTORIES.md section 4: extents of 2^-7 ... 2^-40 next to small and large offsets (relative extent
    down to 10^-12), bounds decided at the last bits and exact ties, on every type; exact mode (all
    coordinates dyadic with exact sums)"""
    tiny = _valid_only(G5.tiny_extents())
    ties = _valid_only(G5.epsilon_ties(ctx.rng, ctx.budget(90, 900)))
    _run_stream(ctx, tiny, "tiny-extent")
    _run_stream(ctx, ties, "epsilon-tie")
    ctx.run_cases(OPS["centroid"], [{"g": g} for g in tiny + ties])
    ctx.exhaustive["tolerance-sized extents"] = (
        f"{len(tiny)} geometries: 5 time offsets (0 ... 86400 s) x 10 extents 2^-7 ... 2^-40 x 4 frequency offsets "
        "(0 ... 4 MHz), eleven shapes each (all types with an extent) x all operations x all positions")


def _size_stage(ctx):
    """sizes where an implementation could switch strategy: 16/17, 256/257, 1023/1024/1100 vertices, 17 / 300 parts"""
    big = _valid_only(G5.sized(ctx.rng))
    for g in big:
        ctx.tally(f"sized:{g['type']}")
    gs = [{"g": g} for g in big]
    ctx.run_cases(OPS["bounds"], gs)
    ctx.run_cases(OPS["features"], gs)
    ctx.run_cases(OPS["shape"], gs)
    ctx.run_cases(OPS["point"], [{"g": g, "pos": p_} for g in big for p_ in ("top-left", "bottom-right", "center")])
    ctx.run_cases(OPS["lib_point"], _with_positions(big, LIB_POS))
    ctx.exhaustive["size thresholds"] = (f"{len(big)} geometries with 16, 17, 256, 257, 1023, 1024, 1100 vertices "
                                         "(lines, point sets, rings) and 17 / 300 parts (multi-lines, multi-polygons)")


def _lattice_stage(ctx):
    """every point of two non-dyadic axes (0.01 s, 0.1 Hz): values must come back as those very floats"""
    lat = _valid_only(G5.lattice())
    _tally_geoms(ctx, lat, "lattice")
    gs = [{"g": g} for g in lat]
    ctx.run_cases(OPS["bounds"], gs)
    ctx.run_cases(OPS["shape"], gs)
    ctx.run_cases(OPS["features_free"], gs)
    ctx.run_cases(OPS["point_free"], _with_positions(lat, ["bottom-left", "top-right", "center"]))
    ctx.exhaustive["non-dyadic lattice"] = f"all 121 points k * 0.01 s / k * 0.1 Hz as stamps, intervals, boxes ({len(lat)} geometries)"


def _sibling_stage(ctx):
    """HISTORIES.md section 3: every special case and a random sample carried through every sibling type"""
    base = special_geometries() + random_geometries(ctx.rng, ctx.budget(90, 900))
    lifts = _valid_only([x for g in base for x in G5.sibling_lifts(g)])
    _run_stream(ctx, lifts, "sibling")
    ctx.run_cases(OPS["centroid"], [{"g": g} for g in lifts])


def call_cases(rng, geoms):
    """every geometry through one construction path (cycled) and four call forms (cycled with another period)"""
    calls = ([{"op": o, "form": f} for o in ("bounds", "features", "shape") for f in ("pos", "kw")]
             + [{"op": "point", "pos": p_, "form": f} for p_ in BOUNDS_POS for f in FORMS if f != "default"]
             + [{"op": "point", "form": "default"}] * 3)
    out = []
    for i, g in enumerate(geoms):
        b = BUILDS[i % len(BUILDS)]
        for j in range(4):
            out.append({"g": g, "call": calls[(5 * i + 7 * j) % len(calls)], "build": b})
    return out


def _call_stage(ctx):
    """HISTORIES.md section 2: construction paths x call forms x types, one call each"""
    geoms = special_geometries() + random_geometries(ctx.rng, ctx.budget(220, 2200))
    # every type through every construction path at least once
    for ty, g in _SAMPLE.items():
        geoms += [_norm(g)] * len(BUILDS)
    cases = call_cases(ctx.rng, geoms)
    k = len(cases)
    for ty, g in _SAMPLE.items():
        for b in BUILDS:
            cases.append({"g": _norm(g), "call": {"op": "features", "form": "kw"}, "build": b})
            cases.append({"g": _norm(g), "call": {"op": "point", "pos": "top-right", "form": "kw_rev"}, "build": b})
            cases.append({"g": _norm(g), "call": {"op": "shape"}, "build": b})
    for c in cases:
        ctx.tally("call:build=" + c["build"])
        ctx.tally("call:form=" + c["call"].get("form", "pos"))
    ctx.run_cases(OPS["call"], cases)
    ctx.exhaustive["construction paths"] = (f"{len(BUILDS)} construction paths x 9 types x {{features, shape, point}} "
                                            f"({len(cases) - k} cases) besides the cycled ones")


def _second_samples():
    return {
        "TimeStamp": _g("TimeStamp", 3), "TimeInterval": _g("TimeInterval", [0, 5]), "Point": _g("Point", [3, 7]),
        "LineString": _g("LineString", [[0, 1], [2, 9], [4, 3]]), "BoundingBox": _g("BoundingBox", [0, 1, 4, 9]),
        "Polygon": _g("Polygon", [[[0, 0], [8, 0], [8, 8], [0, 8], [0, 0]], [[2, 2], [4, 2], [4, 4], [2, 2]]]),
        "MultiPoint": _g("MultiPoint", [[0, 1], [5, 9]]),
        "MultiLineString": _g("MultiLineString", [[[0, 1], [2, 9]], [[3, 3], [6, 0]]]),
        "MultiPolygon": _g("MultiPolygon", [[[[0, 0], [8, 0], [8, 8], [0, 0]]], [[[9, 1], [12, 1], [12, 9], [9, 1]]]]),
    }


def poison_sweep():
    """for every type and every call: x (result poisoned), x again from a fresh equal object, y (poisoned),
    x again, y on the object re-assigned from x -- a shared mutable return value, a result cached per content
    or per type shows as a wrong later answer"""
    out = []
    second = _second_samples()
    calls = [{"op": "bounds"}, {"op": "features"}, {"op": "shape"}, {"op": "point", "pos": "center"},
             {"op": "point", "pos": "top-left", "form": "kw"}, {"op": "point", "form": "default"}]
    for ty in gen_geom.TYPES:
        x, y = _norm(_SAMPLE[ty]), _norm(second[ty])
        for c in calls:
            X, Y = {"g": x, "call": c, "build": "validate"}, {"g": y, "call": c, "build": "class"}
            out.append({"seq": [{"inp": X, "poison": True}, {"inp": X}, {"inp": Y, "poison": True}, {"inp": X},
                                {"inp": Y, "reuse": "assign", "poison": True}, {"inp": X, "reuse": "inplace_items"},
                                {"inp": Y}]})
    return out


def _with_canaries(h):
    """a history that poisons results checks itself: after the last step, every poisoned call is made again
    on a fresh object of equal content and on other content of the same type, so that whatever the poison
    did to the state of the process shows inside this very history (the replay is then self-contained)"""
    second = _second_samples()
    extra, seen = [], set()
    for st_ in h["seq"]:
        if not st_.get("poison"):
            continue
        inp = st_["inp"]
        for cand in (dict(inp), dict(inp, g=_norm(second[inp["g"]["type"]]), build="validate")):
            k = jkey(cand)
            if k not in seen:
                seen.add(k)
                extra.append({"inp": copy.deepcopy(cand)})
    return {"seq": h["seq"] + extra} if extra else h


def _corpus_histories():
    """corpus entries of the poisoning operation (run in the last stage, not with the rest of the corpus)"""
    import json
    import os
    from ..leanio import VERIF
    d = os.path.join(VERIF, "corpus", PROPERTY)
    out = []
    for fn in sorted(os.listdir(d)) if os.path.isdir(d) else []:
        if fn.endswith(".json"):
            rec = json.load(open(os.path.join(d, fn)))
            out += [r["input"] for r in (rec if isinstance(rec, list) else [rec])
                    if r.get("op") == "call_history" and "input" in r]
    return out


def _call_history_stage(ctx):
    """HISTORIES.md section 1 through harness/history.py: x, a neighbour of x, x again ... on fresh and on
    re-used objects, with poisoned results; every step judged by the model of the single call
    (`C05_history_pure`), arguments snapshotted around every call, live results re-read at the end.
    Runs LAST, the poisoning histories one at a time and only until the first one fails: a failure seen
    earlier in the run can then never be the after-effect of a poisoned result."""
    geoms = special_geometries() + random_geometries(ctx.rng, ctx.budget(150, 1500))
    base = [{"g": g, "call": _random_call(ctx.rng), "build": ctx.rng.choice(BUILDS)} for g in geoms]
    hs = hist.sequences(ctx.rng, base, ctx.budget(260, 2600), variants=_h_variants, reuse_hows=MUTATIONS, poison=True)
    clean = [h for h in hs if not any(st_.get("poison") for st_ in h["seq"])]
    corpus = _corpus_histories()
    ctx.tally("corpus:call_history", len(corpus))
    dirty = corpus + poison_sweep() + [_with_canaries(h) for h in hs if any(st_.get("poison") for st_ in h["seq"])]
    ctx.exhaustive["poisoned results"] = ("9 types x 6 calls x (x poisoned, x, y poisoned, x, y re-assigned poisoned, "
                                          "x edited in place, y)")

    def tally(h):
        for st_ in h["seq"]:
            ctx.tally("call_history:" + (st_.get("reuse") or "fresh") + ("+poison" if st_.get("poison") else ""))
    for h in clean:
        tally(h)
    ctx.run_cases(OPS["call_history"], clean)
    for i, h in enumerate(dirty):
        tally(h)
        if ctx.run_cases(OPS["call_history"], [h]):
            ctx.note(f"call-histories: stopped after the first failing poisoned history ({len(dirty) - i - 1} not run)")
            break


def _dispatch_stage(ctx):
    ctx.run_cases(OPS["dispatch"], [{"tag": t_} for t_ in gen_geom.TYPES + UNKNOWN_TAGS])
    ctx.exhaustive["type dispatch"] = f"the nine type tags and {len(UNKNOWN_TAGS)} foreign tags x both dispatching functions"


def _timed(ctx, name, fn, *a):
    import time
    t0 = time.process_time()
    r = ctx.stage(name, fn, *a)
    ctx.tally("cpu_seconds:" + name, round(time.process_time() - t0, 1))
    return r


def run(ctx):
    _timed(ctx, "tables", _table_obligations, ctx)
    _timed(ctx, "symbolic-ties", _symbolic_ties, ctx)
    _timed(ctx, "discharge", ctx.discharge, ["SoundeventModel.Bounds", "SoundeventModel.Tactics", "Proofs.C05"])
    _timed(ctx, "corpus", ctx.run_corpus, {k: v for k, v in OPS.items() if k != "call_history"})
    _timed(ctx, "special-cases", _special_stage, ctx)
    _timed(ctx, "grid-correspondence", _grid_stage, ctx)
    _timed(ctx, "free-correspondence", _free_stage, ctx)
    _timed(ctx, "ogc-invalid-polygons", _invalid_stage, ctx)
    _timed(ctx, "centroid-correspondence", _centroid_stage, ctx)
    _timed(ctx, "sessions", _session_stage, ctx)
    _timed(ctx, "histories", _history_stage, ctx)
    _timed(ctx, "dispatch", _dispatch_stage, ctx)
    # follow-up: histories, construction paths, siblings, boundaries (HISTORIES.md)
    _timed(ctx, "call-forms-and-construction-paths", _call_stage, ctx)
    _timed(ctx, "sibling-lifts", _sibling_stage, ctx)
    _timed(ctx, "numeric-boundaries", _boundary_stage, ctx)
    _timed(ctx, "size-thresholds", _size_stage, ctx)
    _timed(ctx, "non-dyadic-lattice", _lattice_stage, ctx)
    _timed(ctx, "decimal-anchor-points", _anchor_stage, ctx)
    _timed(ctx, "call-histories", _call_history_stage, ctx)      # last: the only stage that poisons results
    ctx.stage("verify-replays", _verify_replays, ctx)


HISTORY_OPS = ("session", "history", "call_history")


def _fails_in_fresh_process(ctx, f, k):
    """is the recorded input judged a violation when it is all a new process does?  (`./check --replay` on a
    scratch record; None: no verdict)"""
    import json
    import os
    import subprocess
    import sys
    from ..leanio import VERIF
    d = os.path.join(VERIF, ".run")
    os.makedirs(d, exist_ok=True)
    path = os.path.join(d, f"verify_{os.getpid()}_{k}.json")
    seed = 900000 + k
    try:
        json.dump({"property": PROPERTY, "kind": f.kind, "op": f.op, "input": f.inp}, open(path, "w"), default=str)
        p_ = subprocess.run([sys.executable, os.path.join(VERIF, "check"), PROPERTY, "--tier", ctx.tier, "--seed", str(seed),
                             "--replay", path], cwd=VERIF, stdout=subprocess.PIPE, stderr=subprocess.DEVNULL, text=True,
                            timeout=300)
        return {0: False, 1: True}.get(p_.returncode)
    except Exception:  # noqa: BLE001
        return None
    finally:
        for fn in [path] + [os.path.join(VERIF, "replays", f"{PROPERTY}_{ctx.tier}_{seed}_{i}.json") for i in range(5)]:
            try:
                os.remove(fn)
            except OSError:
                pass


def _verify_replays(ctx, budget=8):
    """A replay must fail on its own.  When the code keeps state between calls (a cache, a shared return
    value, a remembered option) an input can fail in this run only because of what was called before it; such
    a record is not a replay.  Every failure that would be reported is therefore judged again as the only
    thing a fresh process does (`./check --replay`); those that pass there are set aside in favour of
    failures that reproduce (histories carry their own prefix and are tried first).  If nothing reproduces,
    the smallest one is kept and says so.  Nothing is done on a run without failures."""
    import sys
    from ..core import load_findings, match_finding
    mod = sys.modules[__name__]
    findings = load_findings(PROPERTY)
    cand = [f for f in ctx.failures if f.kind == "property" and f.op in OPS and f.inp is not None
            and match_finding(mod, findings, f) is None]
    if not cand:
        return
    cand.sort(key=lambda f: (0 if f.op in HISTORY_OPS else 1, f.size()))
    kept, stateful, unverified = set(), [], []
    for k, f in enumerate(cand):
        sig = (f.op, f.detail[:60])
        if sig in kept:
            continue
        if len(kept) >= 5 or budget <= 0:
            unverified.append(f)
            continue
        budget -= 1
        if _fails_in_fresh_process(ctx, f, k) is False:
            f.detail += " [passes as the only call of a fresh process: it failed through state carried over from earlier calls of this run]"
            stateful.append(f)
        else:
            kept.add(sig)
    if not stateful:
        return
    if kept:
        # failures with the signature of a verified one stay, everything else is not needed for the report
        dropped = stateful + [f for f in unverified if (f.op, f.detail[:60]) not in kept]
    else:
        stateful.sort(key=lambda f: f.size())
        dropped = stateful[1:]         # nothing reproduces on its own: report the smallest, annotated
    ids = {id(f) for f in dropped}
    ctx.failures[:] = [f for f in ctx.failures if id(f) not in ids]
    ctx.note(f"{len(dropped)} failing inputs set aside (they fail only after earlier calls in the same process, or were "
             "not needed once self-contained replays were confirmed)")


def search(ctx, failures):
    """a tie or table obligation broke: every operation on the special cases and a wide random stream"""
    ctx.stage("search-special", _run_stream, ctx, special_geometries(), "search-special")
    ctx.stage("search-grid", _run_stream, ctx, random_geometries(ctx.rng, 900), "search-grid")
    ctx.stage("verify-replays", _verify_replays, ctx)
