"""C05 — Bounds, geometric features and anchor points agree with the coordinates."""
import typing
from fractions import Fraction

from ..core import Op, jkey
from ..leanio import InfraError
from ..rat import rat, frac, round_once_eq
from .. import symtrace as st
from .. import symx
from ..symtrace import Sym
from .. import gen_geom

PROPERTY = "C05"
LEAN_MODULE = "Proofs.C05"
_T = "SE.Proofs.C05."
THEOREMS = [_T + n for n in [
    "C05_bounds_via_shape", "C05_bounds_minmax", "C05_bounds_minmax_columns", "C05_bounds_unique",
    "C05_bounds_defined", "C05_bounds_ordered", "C05_time_only_full_band", "C05_box_bounds",
    "C05_bounds_all_coordinates", "C05_bounds_holds_iff",
    "C05_conversion_kind", "C05_conversion_lossless", "C05_conversion_vertex_set", "C05_conversion_box",
    "C05_features_consistent", "C05_features_nonneg", "C05_features_holds_iff", "C05_feature_table_total",
    "C05_points_table", "C05_points_delegated", "C05_points_inside", "C05_points_inside_geometry",
    "C05_unknown_position_rejected"]]
LEVEL_TEXT = ("Lean theorems over the model: compute_bounds is exactly (min time, min freq, max time, max freq) over the "
              "coordinates (unique; time-only types over [0, MAX_FREQUENCY]; polygons: holes inside the shell envelope), it is "
              "the envelope of the modelled shapely conversion, the conversion is lossless / vertex-set preserving and of the "
              "right kind, every feature is what its name says of those bounds and the feature list is determined, the nine "
              "named positions are the stated corner / edge midpoint / centre and lie inside the bounds, unknown names are "
              "rejected. get_geometry_point (all positions) and every entry of _COMPUTE_FEATURES are re-derived from the source "
              "on each run by path-exhaustive symbolic tracing and proved equal to the model for all inputs; tables (feature keys, "
              "Positions literal, MAX_FREQUENCY) are re-extracted and checked by `decide`; all four code paths are run "
              "differentially on all nine geometry types.")
LEVEL_NOTE = ("Trusted: Lean kernel, symbolic tracer (ordered-field semantics; compute_bounds / geometry_to_shapely / Feature "
              "stubbed), shapely `bounds` as min/max of the shell vertices, shapely ring closure. Unmodelled: shapely's centroid "
              "and point_on_surface (only the post-condition `inside the bounds` is monitored, strictly), binary64 rounding of "
              "`end - start` and `(a + b) / 2` off the dyadic grid (round-once comparison there). Model tied to the code by "
              "regenerated obligations and generator-bounded correspondence.")
TECHNIQUE = ("Lean 4 proof over model; symbolic-trace equality obligations and table obligations regenerated from source; "
             "differential correspondence with Lean-evaluated property statements on the real I/O")
RULE = ("geometries of all nine types (random on dyadic grids of several scales, polygons with holes, multi-geometries, "
        "zero-extent and open-ring corner cases, arbitrary floats) x {compute_bounds, compute_geometric_features, shapely "
        "conversion, every position name incl. unknown ones}; non-trivial = the implementation returned a value; "
        "distinct = distinct (operation, input)")
TRUSTED = ["shapely `bounds` = min/max over the vertices of the converted shape (polygon: shell)",
           "shapely LinearRing closure rule (open ring or closed 3-vertex ring gets its first vertex appended)",
           "symbolic tracer stubs: compute_bounds -> symbolic 4-tuple, geometry_to_shapely -> object with symbolic "
           "`bounds` and three `geoms`, Feature -> (term, value) record"]
ASSUMPTIONS = ["binary64 arithmetic is exact on the dyadic grids used (differences and half-sums of <= 30-bit dyadics)",
               "ordered-field semantics for the symbolic ties (no rounding)",
               "polygons have their holes inside the envelope of their shell (every OGC-valid polygon; evaluated in Lean "
               "per input, the all-coordinates reading of the bounds clause is only asserted there)"]
NOT_COMPARED = ["error messages (only the error class)",
                "vertex order of the rectangle ring shapely builds for TimeInterval / BoundingBox (compared as a vertex set)",
                "centroid / point_on_surface values (shapely's algorithms; only `inside the bounds` is monitored)",
                "polygons with a hole outside the shell envelope (OGC-invalid): bounds compared with the model "
                "(shell only, as GEOS does), the all-coordinates clause is not asserted"]

TOL = "1/1099511627776"   # 2^-40
BOUNDS_POS = ["bottom-left", "bottom-right", "top-left", "top-right", "center-left", "center-right",
              "top-center", "bottom-center", "center"]
LIB_POS = ["centroid", "point_on_surface"]
UNKNOWN_POS = ["left-top", "top_left", "Top-Left", "center-center", "", "top", "left", "top-left-", "-",
               "bottom-middle", "centre", "middle", "top-left-right", "centroid ", "point-on-surface"]
FEATURE_NAMES = ["duration", "low_freq", "high_freq", "bandwidth", "num_segments"]


def _f(s):
    return float(frac(s))


# ---------------------------------------------------------------- implementation adapters
def _norm(gj):
    """the validated geometry value (boxes swapped, line strings time-ordered by the data model)"""
    return gen_geom.from_data(gen_geom.to_data(gj))


def _impl_bounds(inp):
    from soundevent.geometry import compute_bounds
    return {"val": [rat(x) for x in compute_bounds(gen_geom.to_data(inp["g"]))]}


def _term_name(term):
    from soundevent import terms
    for n in FEATURE_NAMES:
        if term == getattr(terms, n):
            return n
    return "?" + str(getattr(term, "name", term))


def _impl_features(inp):
    from soundevent.geometry.features import compute_geometric_features
    fs = compute_geometric_features(gen_geom.to_data(inp["g"]))
    return {"val": [[_term_name(f.term), rat(f.value)] for f in fs]}


def _impl_point(inp):
    from soundevent.geometry import get_geometry_point
    p = get_geometry_point(gen_geom.to_data(inp["g"]), inp["pos"])
    if len(p) != 2:
        raise AssertionError("not a pair")
    return {"val": [rat(p[0]), rat(p[1])]}


_LIB_CACHE = {}


def _impl_lib_point(inp):
    out = _impl_point(inp)
    _LIB_CACHE[jkey(inp)] = out["val"]
    return out


def _coords(seq):
    return [[rat(x), rat(y)] for x, y in seq.coords]


def _poly_json(p):
    return {"shell": _coords(p.exterior), "holes": [_coords(r) for r in p.interiors]}


def _impl_shape(inp):
    from soundevent.geometry import geometry_to_shapely
    s = geometry_to_shapely(gen_geom.to_data(inp["g"]))
    if s.has_z:
        raise AssertionError("3-D shape")
    k = s.geom_type
    if k == "Point":
        v = {"kind": k, "coords": _coords(s)[0]}
    elif k == "LineString":
        v = {"kind": k, "coords": _coords(s)}
    elif k == "Polygon":
        v = {"kind": k, **_poly_json(s)}
    elif k == "MultiPoint":
        v = {"kind": k, "parts": [_coords(g)[0] for g in s.geoms]}
    elif k == "MultiLineString":
        v = {"kind": k, "parts": [_coords(g) for g in s.geoms]}
    elif k == "MultiPolygon":
        v = {"kind": k, "parts": [_poly_json(g) for g in s.geoms]}
    else:
        v = {"kind": k}
    return {"val": v}


# ---------------------------------------------------------------- comparisons and monitors
def _cmp_shape(inp, io, mo):
    if io == mo:
        return None
    if inp["g"]["type"] in ("TimeInterval", "BoundingBox") and "val" in io and "val" in mo:
        a, b = io["val"], mo["val"]
        if (a.get("kind") == b.get("kind") == "Polygon" and a.get("holes") == b.get("holes") == []
                and sorted(set(map(tuple, a["shell"]))) == sorted(set(map(tuple, b["shell"])))
                and len(a["shell"]) == len(b["shell"]) and a["shell"][0] == a["shell"][-1]):
            return None
    return "shapely conversion differs from the model (kind / structure / coordinates)"


def _num_eq_round_once(a, b):
    """a: impl rational string, b: model rational string; equal after one correct rounding"""
    return a == b or round_once_eq(frac(b), float(frac(a)))


def _cmp_features_free(inp, io, mo):
    if "val" not in io or "val" not in mo:
        return None if io == mo else "implementation and model disagree"
    a, b = io["val"], mo["val"]
    if [x[0] for x in a] != [x[0] for x in b]:
        return "feature names differ"
    for (n, x), (_n, y) in zip(a, b):
        if not _num_eq_round_once(x, y):
            return f"feature {n}: implementation {x} is not the correctly rounded model value {y}"
    return None


def _cmp_point_free(inp, io, mo):
    if "val" not in io or "val" not in mo:
        return None if io == mo else "implementation and model disagree"
    for x, y in zip(io["val"], mo["val"]):
        if not _num_eq_round_once(x, y):
            return f"coordinate {x} is not the correctly rounded model value {y}"
    return None


def _holds_bounds(ctx, inp, io):
    if "val" not in io:
        return "compute_bounds raised on a valid geometry"
    r = ctx.model("holds_bounds", {"g": inp["g"], "b": io["val"]})
    if r.get("val") is not True:
        return "bounds are not (min time, min freq, max time, max freq) over the coordinates"
    return None


def _holds_features(ctx, inp, io):
    if "val" not in io:
        return "compute_geometric_features raised on a valid geometry"
    b = _impl_bounds(inp)["val"]
    r = ctx.model("holds_features", {"g": inp["g"], "b": b, "fs": io["val"]})
    if r.get("val") is not True:
        return "features are not consistent with compute_bounds of the same geometry"
    return None


def _holds_point(ctx, inp, io):
    if inp["pos"] not in BOUNDS_POS:
        return None
    if "val" not in io:
        return "get_geometry_point raised for a named position"
    r = ctx.model("inside", {"g": inp["g"], "p": io["val"], "tol": None})
    if r.get("val") is not True:
        return "named position outside the bounds"
    return None


def _excursion(inp, p):
    """(relative distance of p outside the real bounds, every violated axis has zero extent)"""
    b = [frac(x) for x in _impl_bounds(inp)["val"]]
    x, y = frac(p[0]), frac(p[1])
    ex = Fraction(0)
    only_flat = True
    for v, lo, hi in ((x, b[0], b[2]), (y, b[1], b[3])):
        d = max(lo - v, v - hi, Fraction(0))
        if d > 0 and lo != hi:
            only_flat = False
        ex = max(ex, d / max(Fraction(1), abs(lo), abs(hi)))
    return float(ex), only_flat


def _holds_lib_point(ctx, inp, io):
    if "val" not in io:
        return f"{inp['pos']} raised on a valid geometry"
    r = ctx.model("inside", {"g": inp["g"], "p": io["val"], "tol": None})
    if r.get("val") is True:
        return None
    ex, flat = _excursion(inp, io["val"])
    return f"{inp['pos']} outside the bounds; rel_excursion={ex:.3e} zero_extent_axis_only={flat}"


def _to_model_lib(inp):
    return {"g": inp["g"], "pos": inp["pos"], "lib": _LIB_CACHE.get(jkey(inp))}


def _safe(fn):
    """a monitor that cannot be evaluated (the code changed shape, an adapter raised) reports that as
    the failure of the property at this input instead of crashing the check"""
    def wrapped(ctx, inp, io):
        try:
            return fn(ctx, inp, io)
        except InfraError:
            raise
        except Exception as e:  # noqa: BLE001
            return f"property monitor could not be evaluated on the implementation's output: {e!r}"
    return wrapped


OPS = {
    "bounds": Op("bounds", _impl_bounds, holds=_safe(_holds_bounds)),
    "features": Op("features", _impl_features, holds=_safe(_holds_features)),
    "point": Op("point", _impl_point, holds=_safe(_holds_point)),
    "shape": Op("shape", _impl_shape, compare=_cmp_shape),
    "features_free": Op("features_free", _impl_features, compare=_cmp_features_free, mode="round-once",
                        model_op="features"),
    "point_free": Op("point_free", _impl_point, compare=_cmp_point_free, mode="round-once", model_op="point"),
    "lib_point": Op("lib_point", _impl_lib_point, to_model=_to_model_lib, holds=_safe(_holds_lib_point),
                    mode="tolerance", model_op="point"),
}


def _rounding_excursion(failure, m):
    """known finding: shapely's centroid leaves the bounds by an ulp or so along an axis on which the
    geometry has zero extent -- only this position, only such axes, only below the magnitude bound"""
    if failure.kind != "property" or failure.inp.get("pos") != m.get("position"):
        return False
    d = failure.detail
    if "rel_excursion=" not in d or "zero_extent_axis_only=True" not in d:
        return False
    ex = float(d.split("rel_excursion=")[1].split()[0])
    return 0 < ex <= float(Fraction(m["max_rel_excursion"]))


FINDING_MATCHERS = {"rounding_excursion": _rounding_excursion}


# ---------------------------------------------------------------- tie 1: tables
def _lean_strs(xs):
    return "[" + ", ".join('"' + str(x).replace("\\", "\\\\").replace('"', '\\"') + '"' for x in xs) + "]"


def _positions(ops):
    lit = getattr(ops, "Positions", None)
    return [p for p in typing.get_args(lit) if isinstance(p, str)] if lit is not None else None


def _table_obligations(ctx):
    import soundevent.geometry.operations as ops
    import soundevent.geometry.features as F
    from soundevent import data
    positions = _positions(ops)
    if not positions:
        ctx.fail("obligation", "positions_literal", detail="`Positions` literal not found in operations.py",
                 extra={"op": "point"})
    else:
        ctx.obligation("positions_literal",
                       f"example : ({_lean_strs(positions)} : List String) = SE.Bnd.positionNames := by decide\n",
                       {"op": "point"})
        # Python's own `split("-")` on the names agrees with the model's splitDash
        split_tbl = ", ".join(f"({_lean_strs([p])[1:-1]}, {_lean_strs(p.split('-'))})" for p in positions)
        ctx.obligation("positions_split",
                       f"example : ([{split_tbl}] : List (String × List String)).all "
                       f"(fun p => SE.Bnd.splitDash p.1 == p.2) = true := by decide\n", {"op": "point"})
    table = getattr(F, "_COMPUTE_FEATURES", None)
    if not isinstance(table, dict):
        ctx.fail("obligation", "feature_table_keys", detail="`_COMPUTE_FEATURES` table not found in features.py",
                 extra={"op": "features"})
    else:
        keys = [str(k) for k in table.keys()]
        ctx.obligation("feature_table_keys",
                       f"def keys : List String := {_lean_strs(keys)}\n"
                       "theorem keys_cover : ∀ k ∈ SE.Bnd.featureTypes, k ∈ keys := by decide\n"
                       "theorem keys_only : ∀ k ∈ keys, k ∈ SE.Bnd.featureTypes := by decide\n"
                       "theorem table_total (g : SE.Geom) : g.tag ∈ keys :=\n"
                       "  SE.Proofs.C05.C05_feature_table_total keys keys_cover g\n", {"op": "features"})
    mf = getattr(data, "MAX_FREQUENCY", None)
    if not isinstance(mf, (int, float)) or isinstance(mf, bool):
        ctx.fail("obligation", "max_frequency", detail="`MAX_FREQUENCY` not found", extra={"op": "bounds"})
    else:
        ctx.obligation("max_frequency",
                       f"example : SE.MAXF = {st.lit(Fraction(mf))} := by decide +kernel\n", {"op": "bounds"})


# ---------------------------------------------------------------- tie 1b: symbolic traces
def _feature_leaf(v):
    """[(term, value), ...] recorded by the Feature stub -> Lean `some [("name", value), ...]`"""
    items = ", ".join(f'("{_term_name(t)}", {symx.num(x)})' for t, x in v)
    return f"some [{items}]"


class _StubGeometry:
    """a geometry stand-in for tracing: carries a type tag, symbolic coordinates and the symbolic
    bounds the stubbed compute_bounds / geometry_to_shapely hand out"""

    def __init__(self, type, coordinates, bounds):
        self.type = type
        self.coordinates = coordinates
        self._bounds = bounds

    @classmethod
    def geom_type(cls):
        return None


class _StubShape:
    """what the stubbed geometry_to_shapely returns: symbolic `bounds`, three parts"""

    def __init__(self, bounds):
        self.bounds = bounds
        self.geoms = [None, None, None]
        self.geom_type = "Stub"


_FEAT_SIMP = ("simp [SE.Bnd.features, SE.Bnd.shapeFeatures, SE.Bnd.boundsFeatures, SE.Bnd.fDuration, SE.Bnd.fLow, "
              "SE.Bnd.fHigh, SE.Bnd.fBandwidth, SE.Bnd.fSegments]")


def _symbolic_ties(ctx):
    import soundevent.geometry.operations as ops
    import soundevent.geometry.features as F
    BV = ["st", "lo", "en", "hi"]
    b = tuple(Sym.var(n) for n in BV)
    # --- get_geometry_point with compute_bounds stubbed: every name of the literal and unknown ones
    G = _StubGeometry("BoundingBox", b, b)
    orig = ops.compute_bounds
    ops.compute_bounds = lambda g: g._bounds
    try:
        positions = [p for p in (_positions(ops) or BOUNDS_POS) if p not in LIB_POS]
        for pos in positions + UNKNOWN_POS[:6]:
            name = "ext_point_" + "".join(c if c.isalnum() else "_" for c in pos) + ("" if pos in positions else "_unknown")
            ctx.sym_tie(name, lambda pos=pos: tuple(ops.get_geometry_point(G, pos)), BV, "Rat × Rat",
                        f'(SE.Bnd.pointAt (fun _ => (0, 0)) {_lean_strs([pos])[1:-1]} ⟨st, lo, en, hi⟩).toOption',
                        tactic=f"unfold {name}\n  first | rfl | decide | (simp [SE.Bnd.pointAt, SE.Bnd.positionNames]; done)",
                        meta={"op": "point"}, catch=(ValueError, KeyError))
    finally:
        ops.compute_bounds = orig
    # --- every entry of _COMPUTE_FEATURES, through the table (a wrong row is a wrong function)
    t, s, e, lo_, hi_ = Sym.var("t"), Sym.var("s"), Sym.var("e"), Sym.var("l"), Sym.var("h")
    closed = {
        "TimeStamp": (["t"], t, "SE.Bnd.features (.timeStamp t)"),
        "TimeInterval": (["s", "e"], (s, e), "SE.Bnd.features (.timeInterval s e)"),
        "BoundingBox": (["s", "l", "e", "h"], (s, lo_, e, hi_), "SE.Bnd.features (.boundingBox s l e h)"),
    }
    table = getattr(F, "_COMPUTE_FEATURES", None)
    if not isinstance(table, dict):
        ctx.fail("obligation", "ext_features", detail="`_COMPUTE_FEATURES` table not found", extra={"op": "features"})
        return
    orig_feat, orig_conv = getattr(F, "Feature", None), getattr(F, "geometry_to_shapely", None)
    F.Feature = lambda term, value: (term, value)
    F.geometry_to_shapely = lambda g: _StubShape(g._bounds)
    try:
        for key in gen_geom.TYPES:
            name = "ext_features_" + key
            if key in closed:
                V, coords, mterm = closed[key]
            else:
                # coordinates deliberately unusable: these functions must read the converted shape only
                V, coords = BV, None
                mterm = f'some (SE.Bnd.shapeFeatures "{key}" ⟨st, lo, en, hi⟩ 3)'
            geo = _StubGeometry(key, coords, b)
            symx.sym_tie(ctx, name, lambda key=key, geo=geo: F._COMPUTE_FEATURES[key](geo), V,
                         "Option (List (String × Rat))", mterm, _feature_leaf,
                         tactic=f"unfold {name}\n  first | rfl | ({_FEAT_SIMP}; done) | ({_FEAT_SIMP}; grind)",
                         meta={"op": "features"}, catch=(ValueError, NotImplementedError))
        # compute_geometric_features dispatches on `geometry.type` through the table
        geo = _StubGeometry("BoundingBox", (s, lo_, e, hi_), b)
        symx.sym_tie(ctx, "ext_features_dispatch", lambda: F.compute_geometric_features(geo),
                     ["s", "l", "e", "h"], "Option (List (String × Rat))", "SE.Bnd.features (.boundingBox s l e h)",
                     _feature_leaf, tactic="unfold ext_features_dispatch\n  first | rfl | (simp [SE.Bnd.features]; done)",
                     meta={"op": "features"}, catch=(ValueError, NotImplementedError))
    finally:
        F.Feature, F.geometry_to_shapely = orig_feat, orig_conv


# ---------------------------------------------------------------- tie 2 generators
def _g(ty, c):
    def enc(x):
        if isinstance(x, (list, tuple)):
            return [enc(y) for y in x]
        return rat(x) if not isinstance(x, str) else x
    return {"type": ty, "coordinates": enc(c)}


M = gen_geom.MAXF
H = Fraction(1, 2)


def special_geometries():
    """zero-extent and structural corner cases of every type (all accepted by the data model)"""
    out = [
        _g("TimeStamp", 0), _g("TimeStamp", 3), _g("TimeStamp", Fraction(7, 8)),
        _g("TimeInterval", [0, 0]), _g("TimeInterval", [2, 2]), _g("TimeInterval", [0, 5]), _g("TimeInterval", [1, H * 7]),
        _g("Point", [0, 0]), _g("Point", [3, M]), _g("Point", [H, 1000]),
        _g("BoundingBox", [1, 2, 1, 2]), _g("BoundingBox", [1, 2, 1, 4]), _g("BoundingBox", [1, 2, 3, 2]),
        _g("BoundingBox", [0, 0, 4, M]), _g("BoundingBox", [0, 0, 0, 0]), _g("BoundingBox", [1, 2, 3, 5]),
        _g("LineString", [[1, 2], [1, 2]]), _g("LineString", [[1, 2], [1, 5]]), _g("LineString", [[1, 3], [2, 3], [7, 3]]),
        _g("LineString", [[0, 0], [4, M]]), _g("LineString", [[1, 5], [3, 1], [2, 7], [4, 2]]),
        _g("LineString", [[2, 1], [1, 3], [2, 6]]),
        _g("Polygon", [[[1, 2], [2, 2], [3, 2], [1, 2]]]), _g("Polygon", [[[1, 2], [1, 2], [1, 2], [1, 2]]]),
        _g("Polygon", [[[1, 2], [2, 2], [3, 5]]]), _g("Polygon", [[[1, 2], [2, 2], [1, 2]]]),
        _g("Polygon", [[[1, 2], [1, 2], [1, 2]]]), _g("Polygon", [[[1, 2], [2, 2], [3, 5], [1, 2], [1, 2]]]),
        _g("Polygon", [[[1, 2], [2, 2], [3, 5], [1, H * 5]]]),
        _g("Polygon", [[[0, 0], [8, 0], [8, 8], [0, 8], [0, 0]], [[2, 2], [4, 2], [4, 4], [2, 4], [2, 2]]]),
        _g("Polygon", [[[0, 0], [8, 0], [8, 8], [0, 8], [0, 0]], [[1, 1], [2, 1], [2, 2], [1, 1]],
                       [[5, 5], [7, 5], [7, 7]]]),
        _g("Polygon", [[[0, 0], [2, 2], [2, 0], [0, 2], [0, 0]]]),
        _g("Polygon", [[[1, 2], [5, 2], [3, 7], [1, 2]], [[8, 8], [9, 8], [9, 9], [8, 8]]]),   # hole outside the shell
        _g("MultiPoint", [[1, 2]]), _g("MultiPoint", [[1, 2], [1, 2]]), _g("MultiPoint", [[1, 2], [3, 2], [2, 2]]),
        _g("MultiPoint", [[0, 0], [5, M]]), _g("MultiPoint", [[4, 1], [1, 7], [3, 3], [2, 9]]),
        _g("MultiLineString", [[[1, 3], [2, 3]], [[4, 3], [5, 3]]]), _g("MultiLineString", [[[1, 3], [2, 5]]]),
        _g("MultiLineString", [[[1, 3], [2, 5], [3, 1]], [[0, 9], [1, 0]], [[6, 2], [7, 2]]]),
        _g("MultiPolygon", [[[[1, 2], [2, 2], [3, 2], [1, 2]]]]),
        _g("MultiPolygon", [[[[1, 2], [2, 2], [3, 5]]], [[[4, 1], [6, 1], [5, 3], [4, 1]]]]),
        _g("MultiPolygon", [[[[0, 0], [8, 0], [8, 8], [0, 8], [0, 0]], [[2, 2], [4, 2], [4, 4], [2, 4], [2, 2]]],
                            [[[9, 1], [12, 1], [12, 9], [9, 1]]], [[[13, 0], [14, 0], [14, 1], [13, 0]]]]),
        _g("MultiPolygon", [[[[9, 1], [12, 1], [12, 9], [9, 1]], [[0, 20], [1, 20], [1, 21], [0, 20]]]]),  # hole outside
    ]
    return [_norm(g) for g in out]


def random_geometries(rng, n):
    """grid-mode geometries of every type at several scales (all arithmetic exact in binary64)"""
    scales = [(8.0, 8.0, 3), (4.0, 4.0, 2), (64.0, 20000.0, 1), (1000.0, float(M), 0), (2.0, 16.0, 5)]
    out = []
    for i in range(n):
        ty = gen_geom.TYPES[i % len(gen_geom.TYPES)]
        tmax, fmax, k = scales[(i // len(gen_geom.TYPES)) % len(scales)]
        kw = {}
        if rng.random() < 0.25:
            kw = {"tmin": 0.0, "fmin": 0.0}
        g = gen_geom.gen_valid(rng, ty, tmax=tmax, fmax=fmax, k=k, **kw)
        out.append(_norm(g))
    # polygons with holes, explicitly
    for _ in range(max(2, n // 12)):
        rings = gen_geom._poly(rng, 0.0, 8.0, 0.0, 8.0, 3, holes=True)
        g = {"type": "Polygon", "coordinates": gen_geom._enc(rings)}
        if gen_geom.is_simple(g):
            out.append(_norm(g))
    return out


def free_geometries(rng, n):
    """arbitrary binary64 coordinates (decimal values, large frequencies)"""
    out = []

    def t():
        return rng.choice([rng.uniform(0, 10), round(rng.uniform(0, 100), 2), rng.uniform(0, 1e-3), rng.uniform(0, 3600)])

    def f():
        return rng.choice([rng.uniform(0, M), round(rng.uniform(0, 24000), 1), rng.uniform(0, 1), float(M)])
    for i in range(n):
        ty = gen_geom.TYPES[i % len(gen_geom.TYPES)]
        if ty == "TimeStamp":
            c = t()
        elif ty == "TimeInterval":
            c = sorted([t(), t()])
        elif ty == "Point":
            c = [t(), f()]
        elif ty == "BoundingBox":
            a, b = sorted([t(), t()])
            l, h = sorted([f(), f()])
            c = [a, l, b, h]
        elif ty in ("LineString", "MultiPoint"):
            c = [[t(), f()] for _ in range(rng.randint(2, 5))]
        elif ty == "MultiLineString":
            c = []
            for _ in range(rng.randint(1, 3)):
                a = t()
                c.append([[a, f()], [a + rng.uniform(0.001, 5), f()]])
        elif ty == "Polygon":
            a, l = t(), f() * 0.5
            c = [[[a, l], [a + 1.1, l], [a + 0.7, l + 0.3], [a, l]]]
        else:
            a, l = t(), f() * 0.5
            c = [[[[a, l], [a + 1.1, l], [a + 0.7, l + 0.3], [a, l]]], [[[a + 2, l], [a + 3.3, l], [a + 2.9, l + 0.1]]]]
        out.append(_norm({"type": ty, "coordinates": gen_geom._enc_f(c)}))
    return out


def _with_positions(geoms, names):
    return [{"g": g, "pos": p} for g in geoms for p in names]


def _tally_geoms(ctx, geoms, label):
    for g in geoms:
        ctx.tally(f"{label}:{g['type']}")


def _run_stream(ctx, geoms, label, lib=True):
    _tally_geoms(ctx, geoms, label)
    gs = [{"g": g} for g in geoms]
    ctx.run_cases(OPS["bounds"], gs)
    ctx.run_cases(OPS["features"], gs)
    ctx.run_cases(OPS["shape"], gs)
    ctx.run_cases(OPS["point"], _with_positions(geoms, BOUNDS_POS))
    unk = [{"g": g, "pos": ctx.rng.choice(UNKNOWN_POS)} for g in geoms]
    ctx.run_cases(OPS["point"], unk)
    if lib:
        ctx.run_cases(OPS["lib_point"], _with_positions(geoms, LIB_POS))


def _special_stage(ctx):
    sp = special_geometries()
    _run_stream(ctx, sp, "special")
    ctx.run_cases(OPS["point"], _with_positions(sp[:6], UNKNOWN_POS))
    ctx.exhaustive["special geometries"] = (f"{len(sp)} hand-written zero-extent / open-ring / hole / multi-part cases x all "
                                            "operations x all 11 position names")
    ctx.exhaustive["unknown position names"] = f"{len(UNKNOWN_POS)} near-miss names on six geometries"
    holes_ok = ctx.model_many("holes_inside", [{"g": g} for g in sp])
    ctx.tally("special:hole_outside_shell", sum(1 for r in holes_ok if r.get("val") is False))


def _grid_stage(ctx):
    _run_stream(ctx, random_geometries(ctx.rng, ctx.budget(1350, 13500)), "grid")


def _free_stage(ctx):
    fg = free_geometries(ctx.rng, ctx.budget(540, 6300))
    _tally_geoms(ctx, fg, "free")
    ctx.run_cases(OPS["bounds"], [{"g": g} for g in fg])
    ctx.run_cases(OPS["shape"], [{"g": g} for g in fg])
    ctx.run_cases(OPS["features_free"], [{"g": g} for g in fg])
    ctx.run_cases(OPS["point_free"], _with_positions(fg, BOUNDS_POS))
    ctx.run_cases(OPS["lib_point"], _with_positions(fg, LIB_POS))


def run(ctx):
    ctx.stage("tables", _table_obligations, ctx)
    ctx.stage("symbolic-ties", _symbolic_ties, ctx)
    ctx.stage("discharge", ctx.discharge, ["SoundeventModel.Bounds", "SoundeventModel.Tactics", "Proofs.C05"])
    ctx.stage("corpus", ctx.run_corpus, OPS)
    ctx.stage("special-cases", _special_stage, ctx)
    ctx.stage("grid-correspondence", _grid_stage, ctx)
    ctx.stage("free-correspondence", _free_stage, ctx)


def search(ctx, failures):
    """a tie or table obligation broke: every operation on the special cases and a wide random stream"""
    ctx.stage("search-special", _run_stream, ctx, special_geometries(), "search-special")
    ctx.stage("search-grid", _run_stream, ctx, random_geometries(ctx.rng, 900), "search-grid")
