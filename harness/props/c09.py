"""C09 — Evaluation metrics are what their terms say, in all four tasks."""
import copy
import warnings
from fractions import Fraction

import numpy as np

from ..core import Op, jkey
from ..rat import rat, frac
from .. import evalgen as G
from .. import history as H
from .. import leanio
from .. import tagpool as TP

PROPERTY = "C09"
LEAN_MODULE = "Proofs.C09"
_T = "SE.Proofs.C09."
THEOREMS = [_T + n for n in [
    "C09_table_sound", "C09_labels_of_table", "C09_model_tables_distinct", "C09_perm_accuracy",
    "C09_perm_balanced_accuracy", "C09_perm_top_k", "C09_perm_average_precision", "C09_perm_mean_average_precision",
    "C09_perm_mean_average_precision_multilabel", "C09_perm_run_metrics", "C09_perm_mean", "C09_perm_overall_score",
    "C09_perm_pair_clips", "C09_range_accuracy", "C09_range_top_k", "C09_range_balanced_accuracy",
    "C09_range_average_precision", "C09_range_mean_average_precision", "C09_range_mean_average_precision_multilabel",
    "C09_range_jaccard", "C09_range_example_average_precision", "C09_range_true_class_probability", "C09_range_mean",
    "C09_average_precision_is_mean_precision", "C09_average_precision_no_positive", "C09_average_precision_perfect",
    "C09_argmax_first", "C09_top_k_vacuous", "C09_none_class_accuracy_family", "C09_none_class_dropped_from_map",
    "C09_true_class_probability", "C09_balanced_accuracy_is_mean_recall", "C09_clip_classification_spec",
    "C09_sound_event_classification_spec", "C09_clip_multilabel_spec", "C09_survives_aoef",
    "C09_duplicate_labels_collapse", "C09_features_labels",
    # review additions: the clauses of the statement end to end, for each of the four task drivers
    "C09_features_distinct", "C09_distinct_terms_survive_aoef", "C09_terms_distinct_clip_classification",
    "C09_terms_distinct_sound_event_classification", "C09_terms_distinct_clip_multilabel",
    "C09_terms_distinct_sound_event_detection", "C09_perm_clip_classification",
    "C09_perm_sound_event_classification", "C09_perm_sound_event_detection", "C09_top_k_monotone",
    "C09_multilabel_clip_score", "C09_multilabel_clip_score_single", "C09_balanced_accuracy_balanced_is_accuracy",
    "C09_range_jaccard_samples", "C09_micro_average_precision", "C09_labels_of_table_perm",
    # follow-up "pools, histories": the arrays the metric models consume are C19's encodings of the real tags
    "C09_tags_bridge", "C09_items_by_tag_equality", "C09_clip_classification_by_tags", "C09_clip_multilabel_by_tags",
    "C09_clip_multilabel_closed_scores", "C09_sound_event_tasks_by_tags"]]
LEVEL_TEXT = ("Lean theorems over the rational model of the seven metrics and the four task drivers hold for all inputs: "
              "for each driver every metric list of the result (evaluation, clip evaluation, match) has pairwise distinct "
              "terms and survives the label-keyed AOEF mapping; permuting the clip lists leaves every run-level metric and "
              "the overall score unchanged and permutes the clip evaluations; ranges 0 <= metric <= 1; average precision = "
              "step integral = mean precision at the positives; balanced accuracy = mean recall, = accuracy on balanced "
              "data; handling of the 'none' class; scores are means; the multilabel clip score is the product of the "
              "clipped true-class probabilities. The drivers take real tags (a term with all its fields, and a value): the "
              "arrays every metric is computed over are proved to be the encodings of evaluation/encoding.py as property "
              "C19 models them (C09_tags_bridge), and are characterised by tag equality only (C09_items_by_tag_equality: "
              "two vocabulary tags that differ in any field are different classes, a near miss is no class). The (term, "
              "function) tables of the four task modules, the Jaccard "
              "threshold and the AOEF keys of the metric terms are re-extracted on every run and checked by `decide`; the "
              "wrappers accuracy / balanced_accuracy / top_3_accuracy / jaccard / true_class_probability / "
              "classification_score are executed on symbolic score arrays and the extracted decision trees are proved "
              "equal to the model for all score values at small fixed shapes; all four task functions and every metric "
              "function are run differentially against the model, stand-alone and in histories (several evaluations in one "
              "process over changing vocabularies, alternating tasks, reused and edited objects), every step judged by the model.")
LEVEL_NOTE = ("Trusted: Lean kernel; scikit-learn 1.9.1 is not modelled, its conventions (top-k tie order, recall over present "
              "classes, AP step integral, 0 for classes without positives) are stated in the model and compared with sklearn's "
              "output on every generated case. Tags travel to the model as content read from the fields of objects built like "
              "the ones handed to the code; class indices come from the Lean model of the encoder (C19), never from the "
              "library's encoder; how a Tag object is made (its class below data.Tag, constructor / model_validate / model_copy, "
              "the identity of its Term object) is not part of its content: that is today's behaviour (SimpleEncoder keys on "
              "(term, value)); whether a Term *subclass* instance is the same term as a plain Term with the same fields is not "
              "pinned (never generated side by side); the geometry matcher's answer is a parameter of the detection driver (C07/C08). Unmodelled: "
              "binary64/float32 rounding (scores on dyadic grids or one non-dyadic "
              "score per item so that float32 sums are exact; balanced accuracy and AP compared within 2^-40); exp/log of the "
              "multilabel clip score (closed form over the model's encodings compared within 2^-18, also inside the task). The "
              "symbolic ties hold in ordered-field semantics at "
              "the traced shapes (1-2 items, 1-4 classes); beyond them the model is tied to the code by the regenerated table "
              "obligations and generator-bounded correspondence. Three known findings (one-tag multilabel vocabulary, detection "
              "without labelled truth, clip-level tasks on clips that carry sound events) are modelled as errors.")
TECHNIQUE = ("Lean 4 proof over model; metric-term tables, Jaccard threshold and AOEF keys regenerated by introspection and "
             "discharged by decide; symbolic traces of the metric wrappers on numpy object arrays proved equal to the model; "
             "end-to-end differential correspondence of the four task functions on tags as content (class indices from the "
             "C19 encoder model, adversarial tag pools), stand-alone and as histories; permutation and AOEF round-trip monitors")
RULE = ("end-to-end task inputs (vocabularies of 1-6 tags, sizes 1/2/3/4 forced; tag pools: eight legacy tags / three taxa whose "
        "classes differ only in the term / random adversarial pools sharing labels, names and values, near misses outside the "
        "vocabulary, equal contents at several positions incl. repeated predicted tags; 1-8 clips, clips on one side only, 0-4 "
        "sound events per clip, true tags incl. none and out-of-vocabulary, dyadic / one-hot non-dyadic / arbitrary (multilabel) "
        "scores, exact ties best class = left-over probability and between classes, scores exactly 0 and 1; the same content "
        "handed over with shared Tag objects, numpy / int scores, tuples, positional arguments; construction paths of the tags, "
        "independently for vocabulary / annotation / predicted tags: instances of Tag subclasses with and without a field of "
        "their own, model_validate from a dictionary / around a Term object, model_copy shallow / deep / with update, one Term "
        "object shared by all tags of a term vs equal separately built Terms, a query tag on the Term object of vocabulary tag i "
        "with the value of vocabulary tag j, terms that are instances of a Term subclass: every (vocabulary form, annotation "
        "form) pair per task over a pool with two values under one term, and 30 % of the random stream and 35 % of the "
        "histories); histories of 3-5 evaluations in "
        "one process (vocabulary V1, a subset, the subset reordered, V1 again; two tasks alternating over the same live objects; "
        "objects reused after their tags were assigned, edited in place or model_copy'd; results poisoned by the caller; earlier "
        "results re-read at the end); direct calls of the metric functions on encoded arrays (float32 / float64, C / Fortran / "
        "strided, truths as list / tuple / integer / object array); non-trivial = the implementation returned a value; distinct "
        "= distinct (operation, input)")
TRUSTED = ["scikit-learn 1.9.1 metrics (balanced_accuracy_score, accuracy_score, average_precision_score, jaccard_score, log_loss): "
           "outputs compared with the Lean definitions on every case",
           "numpy argmax / argsort(kind='mergesort') / mean; np.float32 for the value a score array stores",
           "harness: reads the content of a tag from the fields of a freshly built Tag (tagpool.content; the construction "
           "variants of tagpool.fresh are content-preserving: same fields read back); the class index is "
           "computed in Lean by C19's model of SimpleEncoder (theorem C09_tags_bridge)",
           "the geometry matcher (match_geometries): its answer per evaluated clip is a parameter of the detection driver "
           "(properties C07 / C08 cover it)"]
ASSUMPTIONS = ["float32/binary64 sums are exact on the generated scores (dyadic grids 2^-1..2^-4, or a single non-dyadic score per item)",
               "vocabulary tags pairwise distinct by content; a repeated predicted tag is encoded as C19 pins it (the last score wins)",
               "sound_event_classification: predictions and annotations of a clip refer to the same sound events one-to-one"]
NOT_COMPARED = ["order of the clip evaluations within the result (compared by clip id; C08 pins the order for detection)",
                "multilabel clip score exp(-log_loss): compared with the model's closed form (product of the clipped probabilities "
                "of the true classes, over the model's own encodings) within 2^-18 only (float32 logarithms); the evaluation score "
                "of that task is compared exactly-rounded (2^-40) with the mean of the clip scores the implementation reported",
                "affinity of sound_event_classification matches (constant 1 in code and model; not part of the statement)",
                "order of metrics within a list, order of matches within a clip",
                "SoundEventPrediction.score, clip-level tags in the sound-event tasks (not generated for the stand-alone stream; "
                "clip-level tags are present and ignored in the histories)",
                "error messages", "uuids / created_on of the result"]

SINGLE = G.SINGLE_LABEL


# ---------------------------------------------------------------- implementation side
def _impl_task(inp):
    return {"val": G.canon_evaluation(G.run_task(inp))}


def _strip(ev):
    ev = copy.deepcopy(ev)
    for c in ev["clips"]:
        c.pop("pclip", None)
    ev.pop("task", None)
    return ev


def _tagreq(inp):
    """the tag side of every model request: the pool as tag *contents* (read from the fields of objects built like the
    ones handed to the code, `tagpool.content`) and the vocabulary as pool positions.  The class index of a tag is
    computed by the Lean model of the encoder (C19's `Encoding.encode`, theorem C09_tags_bridge), never by the
    harness and never by the library's encoder."""
    return {"pool": TP.model_pool(inp), "vocab": list(inp["vocab"])}


def to_model(inp):
    """abstract input -> request of the Lean op `task_tags`: tags by pool position, every predicted score as the
    float32 value `prediction_encoding` stores, for detection the matcher's answer per evaluated clip (the matcher
    is C07/C08's, a parameter here).  The multilabel clip scores are not part of the request: the model computes
    them in closed form from its own encodings."""
    task = inp["task"]
    ann_by_clip = {}
    for c in inp["annotations"]:
        ann_by_clip[c["clip"]] = c       # a dictionary: the last one wins
    preds = []
    for c in inp["predictions"]:
        pc = {"clip": c["clip"],
              "tags": [[t, G.f32(s)] for t, s in c.get("tags", [])],
              "events": [{"id": e["id"], "geom": e["geom"] is not None,
                          "tags": [[t, G.f32(s)] for t, s in e["tags"]]} for e in c.get("events", [])]}
        a = ann_by_clip.get(c["clip"])
        if a is not None and task == "sound_event_detection":
            pc["matcher"] = G.matcher_answer(c.get("events", []), a.get("events", []))
        preds.append(pc)
    anns = [{"clip": c["clip"], "tags": list(c.get("tags", [])),
             "events": [{"id": e["id"], "geom": e["geom"] is not None, "tags": list(e["tags"])}
                        for e in c.get("events", [])]} for c in inp["annotations"]]
    return {**_tagreq(inp), "task": task, "predictions": preds, "annotations": anns}


def _score_modes(inp):
    t = inp["task"]
    if t == "clip_multilabel_classification":
        # exp(-log_loss): the model's closed form (product of the clipped probabilities of the true classes over the
        # model's own encodings) against float32 logarithms
        return "loose", "loose"
    if t == "clip_classification":
        return "round-once", "exact"       # clip score is the true-class probability itself
    # clip score: one division of an exact sum; overall: the mean of those already rounded clip scores
    return "tolerance", "round-once"


def _compare_task(inp, io, mo):
    if "raise" in io or "raise" in mo:
        a = {k: v for k, v in io.items() if k != "trace"}
        return None if a == mo else f"implementation {a} but model {mo}"
    sm, cm = _score_modes(inp)
    # affinity: C08.  The order of the clip evaluations within the result is not part of the statement (for detection it is
    # C08's): clips are compared by clip id
    return G.evaluation_diff(io["val"], mo["val"], score_mode=sm, clip_score_mode=cm, affinity=False, clip_order=False)


def in_scope(inp):
    """the property's quantifier: at least one evaluated item overall (and the generator's own invariants)"""
    annotated = {c["clip"]: c for c in inp["annotations"]}
    n = 0
    for c in inp["predictions"]:
        a = annotated.get(c["clip"])
        if a is None:
            continue
        if inp["task"] in ("clip_classification", "clip_multilabel_classification"):
            n += 1
        elif inp["task"] == "sound_event_classification":
            ids = [e["id"] for e in a.get("events", [])]
            pids = [e["id"] for e in c.get("events", [])]
            if sorted(ids) != sorted(pids) or len(set(ids)) != len(ids):
                return False        # not one-to-one: outside the quantifier (ClipEvaluation's validator rejects the clip)
            n += len(ids)
        else:
            n += len(c.get("events", [])) + len(a.get("events", []))
    return n > 0 and len(inp["vocab"]) >= 1


def all_unlabelled(inp):
    """detection: no evaluated annotation has a tag of the vocabulary (tags compared by content)"""
    pool = TP.descriptors(inp)
    classes = {TP.ckey(pool[t]) for t in inp["vocab"]}
    annotated = {c["clip"]: c for c in inp["annotations"]}
    for c in inp["predictions"]:
        a = annotated.get(c["clip"])
        if a is None:
            continue
        for e in a.get("events", []):
            if any(TP.ckey(pool[t]) in classes for t in e["tags"]):
                return False
    return True


def carries_events(inp):
    """a clip-level task on an evaluated clip that carries sound events (known finding C09-K3: the task builds a
    `ClipEvaluation` without matches and its validator rejects it)"""
    if inp["task"] not in ("clip_classification", "clip_multilabel_classification"):
        return False
    annotated = {c["clip"]: c for c in inp["annotations"]}
    for c in inp["predictions"]:
        a = annotated.get(c["clip"])
        if a is not None and (c.get("events") or a.get("events")):
            return True
    return False


def _in_unit(v, label):
    """0 <= v <= 1; values that come out of scikit-learn's float summations (average precision, mean of recalls)
    may overshoot by an ulp (1.0000000000000002 was observed): allowed within the comparison tolerance"""
    q = frac(v)
    if label in G.TOL_LABELS:
        return -2.0 ** -40 <= q <= 1 + 2.0 ** -40
    return 0 <= q <= 1


def _holds_task(ctx, inp, io, light=False):
    """the property evaluated on the implementation's own result"""
    try:
        return _holds_task_inner(ctx, inp, io, light)
    except leanio.InfraError:
        raise
    except Exception as e:  # noqa: BLE001 - the code changed shape under the monitor: that is a finding about the code
        return f"property monitor could not be evaluated on the result: {type(e).__name__}: {str(e)[:200]}"


def _holds_task_inner(ctx, inp, io, light=False):
    if not in_scope(inp):
        return None
    if "raise" in io:
        return f"the task raised ({io['raise']}) on an input of the property's domain"
    ev = io["val"]
    # 1. distinct terms within every metric list
    for where, fs in G.metric_lists(ev):
        labels = [l for l, _ in fs]
        if len(set(labels)) != len(labels):
            return f"metric terms are not pairwise distinct: {labels} ({where})"
    # 2. every metric, score and affinity is a number in [0, 1]
    for where, label, v in G.all_values(ev):
        if v is None:
            continue
        if v == "nan" or not _in_unit(v, label):
            return f"{label} is outside [0, 1]: {v} ({where})"
    # 2b. scores aggregate as means: the evaluation score of the multilabel task against the model's mean of the clip
    #     scores the implementation itself reported (those are compared with the closed form only within 2^-18)
    if inp["task"] == "clip_multilabel_classification":
        m = ctx.model("overall_score", {"scores": [c["score"] for c in ev["clips"]]})
        if any(c["score"] == "nan" for c in ev["clips"]) or not G.num_eq(ev["score"], m, "tolerance"):
            return f"evaluation score is not the mean of the clip scores: {G._fl(ev['score'])} instead of {G._fl(m)}"
    if light:
        return None
    # 3. the result does not depend on the order of the clips (re-run on shuffled clip lists; with a single clip on
    #    each side there is nothing to permute)
    n = ctx.tallies.get("holds:calls", 0)
    ctx.tally("holds:calls")
    rng = ctx.rng
    ev_obj, ev2 = None, ev
    if len(inp["predictions"]) > 1 or len(inp["annotations"]) > 1:
        perm = copy.deepcopy(inp)
        rng.shuffle(perm["predictions"])
        rng.shuffle(perm["annotations"])
        try:
            ev_obj = G.run_task(perm)
        except Exception as e:  # noqa: BLE001
            return f"the task raised {type(e).__name__} after permuting the clips"
        ev2 = G.canon_evaluation(ev_obj)
        d = G.evaluation_diff(ev, ev2, score_mode="tolerance", clip_score_mode="tolerance", clip_order=False)
        if d:
            return "result depends on the order of the clips: " + d
        ctx.tally("holds:permutation")
    # 4. it survives an AOEF save/load with every metric intact (every third case)
    if n % 3 == 0:
        if ev_obj is None:
            ev_obj = G.run_task(inp)
            ev2 = G.canon_evaluation(ev_obj)
        loaded = G.canon_evaluation(G.aoef_roundtrip(ev_obj, leanio.run_dir()))
        d = G.evaluation_diff(loaded, ev2, score_mode="exact", clip_score_mode="exact", clip_order=False)
        if d:
            return "AOEF save/load does not keep every metric: " + d
        # the loaded lists are what the model of the label-keyed mapping says
        for (where, before), (_w, after) in zip(G.metric_lists(ev2), G.metric_lists(loaded)):
            if before:
                m = ctx.model("aoef_metrics", {"features": before})
                if sorted(map(tuple, m)) != sorted(map(tuple, after)):
                    return f"{where}: AOEF mapping {after} differs from the model's {m}"
        ctx.tally("holds:aoef")
    return None


def ev2_as_model(ev):
    """a canonical evaluation used on the 'model' side of evaluation_diff (values are exact strings already)"""
    return ev


def _nontrivial(inp, out):
    return "val" in out and any(c["metrics"] or c["matches"] for c in out["val"]["clips"])


OPS = {t: Op(t, _impl_task, to_model=to_model, compare=_compare_task, holds=_holds_task,
             nontrivial=_nontrivial, mode="round-once", model_op="task_tags") for t in G.TASKS}


# ---------------------------------------------------------------- direct metric functions
def _scores(rows, how, shape=None):
    """the score array as the caller may legitimately hand it over: float32 (what the tasks pass) or float64,
    C order / Fortran order / a strided view of a wider array"""
    how = how or {}
    dt = np.float64 if how.get("dt") == "f64" else np.float32
    a = np.array([[float(frac(s)) for s in r] for r in rows], dtype=dt)
    if shape is not None:
        a = a.reshape(shape)
    order = how.get("order")
    if order == "F" and a.ndim == 2:
        a = np.asfortranarray(a)
    elif order == "view":
        w = np.zeros(a.shape[:-1] + (2 * a.shape[-1],), dtype=dt)
        w[..., ::2] = a
        a = w[..., ::2]
    return a


def _truths(y, how):
    """the true classes of single-label items as list / tuple / integer array (all labelled) / object array"""
    yt = (how or {}).get("yt", "list")
    if yt == "tuple":
        return tuple(y)
    if yt == "array" and all(v is not None for v in y):
        return np.array(y, dtype=np.int64)
    if yt == "object":
        a = np.empty(len(y), dtype=object)
        a[:] = y
        return a
    return list(y)


def _indicator(rows, how):
    """multilabel truths: int32 (what `multilabel_encoding` returns), int64 or bool"""
    yt = (how or {}).get("yt", "list")
    return np.array(rows, dtype={"array": np.int64, "object": bool}.get(yt, np.int32))


def _impl_metric(inp):
    from soundevent.evaluation import metrics as M
    fn = inp["fn"]
    how = inp.get("how")
    with warnings.catch_warnings():
        warnings.simplefilter("ignore")
        if fn in ("accuracy", "balanced_accuracy", "top_3_accuracy", "mean_average_precision"):
            y = _truths([it["y"] for it in inp["items"]], how)
            rows = _scores([it["row"] for it in inp["items"]], how, (len(inp["items"]), inp["C"]))
            return {"val": rat(float(getattr(M, fn)(y, rows)))}
        if fn in ("true_class_probability", "classification_score"):
            it = inp["item"]
            return {"val": rat(float(getattr(M, fn)(it["y"], _scores([it["row"]], how)[0])))}
        if fn in ("jaccard_2d", "average_precision_2d", "multilabel_example_score_2d"):
            y = _indicator([it["truth"] for it in inp["items"]], how)
            rows = _scores([it["row"] for it in inp["items"]], how)
            return {"val": rat(float(getattr(M, fn[:-3])(y, rows)))}
        if fn == "mean_average_precision_2d":
            y = _indicator([it["truth"] for it in inp["items"]], how)
            rows = _scores([it["row"] for it in inp["items"]], how)
            return {"val": rat(float(M.mean_average_precision(y, rows)))}
        it = inp["item"]
        y = _indicator(it["truth"], how)
        row = _scores([it["row"]], how)[0]
        return {"val": rat(float(getattr(M, fn)(y, row)))}


_FN_MODE = {"accuracy": "round-once", "top_3_accuracy": "round-once", "jaccard": "round-once",
            "true_class_probability": "exact", "classification_score": "exact",
            "multilabel_example_score": "loose", "multilabel_example_score_2d": "loose"}
LOOSE = 2.0 ** -18     # exp(-log_loss): scikit-learn takes the logarithms of float32 scores in float32


def _compare_metric(inp, io, mo):
    if "raise" in io or "raise" in mo:
        a = {k: v for k, v in io.items() if k != "trace"}
        return None if a == mo else f"implementation {a} but model {mo}"
    mode = _FN_MODE.get(inp["fn"], "tolerance")
    if mode == "loose":
        ok = io["val"] != "nan" and abs(float(frac(io["val"])) - float(frac(mo["val"]))) <= LOOSE
    else:
        ok = G.num_eq(io["val"], mo["val"], mode)
    if not ok:
        return f"{inp['fn']} is not the metric its term names: {float(frac(io['val']))} instead of {float(frac(mo['val']))} ({mode})"
    return None


def _holds_metric(ctx, inp, io):
    if "raise" in io:
        if inp["fn"] == "mean_average_precision" and all(it["y"] is None for it in inp["items"]):
            return None      # nothing is left to average over: outside what the property defines
        return f"{inp['fn']} raised ({io['raise']})"
    if not _in_unit(io["val"], None if _FN_MODE.get(inp["fn"]) else "Average Precision"):
        return f"{inp['fn']} = {io['val']} is outside [0, 1]"
    return None


OPS["metric"] = Op("metric", _impl_metric, compare=_compare_metric, holds=_holds_metric, mode="tolerance")


# ---------------------------------------------------------------- tie 1: the tables
_LEVELS = [("RUN_METRICS", "run"), ("EXAMPLE_METRICS", "example"), ("SOUNDEVENT_METRICS", "soundEvent")]
_TASK_CTOR = {"clip_classification": "clipClassification", "clip_multilabel_classification": "clipMultilabel",
              "sound_event_classification": "soundEventClassification", "sound_event_detection": "soundEventDetection"}


def _lean_str(s):
    return '"' + s.replace("\\", "\\\\").replace('"', '\\"') + '"'


def _rows_src(rows):
    return "[" + ", ".join(f"⟨{_lean_str(n)}, {_lean_str(l)}, {_lean_str(f)}⟩" for n, l, f in rows) + "]"


_KNOWN_FNS = ("balanced_accuracy", "accuracy", "top_3_accuracy", "mean_average_precision",
              "true_class_probability", "jaccard", "average_precision")


def _fn_name(fn):
    """which function of soundevent.evaluation.metrics a table entry is - by identity, so that an alias, an
    import under another name or a `functools.partial` without arguments does not break the tie"""
    import functools
    while isinstance(fn, functools.partial) and not fn.args and not fn.keywords:
        fn = fn.func
    try:
        from soundevent.evaluation import metrics as M
        names = [n for n in vars(M) if vars(M)[n] is fn]
    except Exception:  # noqa: BLE001
        names = []
    own = getattr(fn, "__name__", None)
    if own in names or (own and not names):
        return str(own)
    for n in _KNOWN_FNS:
        if n in names:
            return n
    return str(names[0]) if names else repr(fn)


def _rows_of(table):
    return [(str(term.name), str(term.label), _fn_name(fn)) for term, fn in table]


def _looks_like_table(v):
    if not isinstance(v, (tuple, list)):
        return False
    try:
        return all(isinstance(e, (tuple, list)) and len(e) == 2 and hasattr(e[0], "label") and hasattr(e[0], "name")
                   and callable(e[1]) for e in v)
    except Exception:  # noqa: BLE001
        return False


def extract_tables(ctx=None):
    """(task, level) -> rows (term.name, term.label, function name); a table that is gone or has
    changed shape is a broken obligation, never a crash.  A table that was merely renamed is found
    again by its content: a module-level sequence of (term, function) pairs whose labels are the ones
    the model attaches at a level that has no table yet."""
    import importlib
    out = {}
    for t in G.TASKS:
        try:
            mod = importlib.import_module("soundevent.evaluation.tasks." + t)
        except Exception as e:  # noqa: BLE001
            if ctx is not None:
                ctx.fail("obligation", f"table_{t}", detail=f"task module cannot be imported: {e!r}", extra={"task": t})
            continue
        missing = []
        used = set()
        for attr, lvl in _LEVELS:
            if not hasattr(mod, attr):
                if attr == "SOUNDEVENT_METRICS" and t.startswith("clip_"):
                    out[(t, lvl)] = []          # clip tasks have no sound-event level
                else:
                    missing.append((attr, lvl))
                continue
            used.add(attr)
            try:
                out[(t, lvl)] = _rows_of(getattr(mod, attr))
            except Exception as e:  # noqa: BLE001
                if ctx is not None:
                    ctx.fail("obligation", f"table_{t}_{lvl}", detail=f"{t}.{attr} has an unexpected shape: {e!r}",
                             extra={"task": t, "level": lvl})
        for attr, lvl in missing:
            found = None
            if ctx is not None:
                try:
                    want = ctx.model("labels", {"task": t, "level": {"soundEvent": "sound_event"}.get(lvl, lvl)})
                    cands = [n for n, v in vars(mod).items() if n not in used and not n.startswith("__")
                             and _looks_like_table(v) and (len(v) > 0 or n.upper().endswith("METRICS"))
                             and [r[1] for r in _rows_of(v)] == list(want)]
                    if len(cands) == 1:
                        found = cands[0]
                except leanio.InfraError:
                    raise
                except Exception:  # noqa: BLE001
                    found = None
            if found is not None:
                used.add(found)
                out[(t, lvl)] = _rows_of(getattr(mod, found))
                ctx.note(f"{t}.{attr} not found; using the module-level table `{found}` with the same terms")
            elif ctx is not None:
                ctx.fail("obligation", f"table_{t}_{lvl}", detail=f"{t}.{attr} no longer exists",
                         extra={"task": t, "level": lvl})
    return out


def _table_obligations(ctx):
    tables = extract_tables(ctx)
    for (t, lvl), rows in tables.items():
        name = f"table_{t}_{lvl}"
        src = (f"def {name} : List SE.Metrics.Row := {_rows_src(rows)}\n"
               f"theorem {name}_distinct : SE.Metrics.TermsDistinct {name} = true := by decide\n"
               f"theorem {name}_matches : SE.Metrics.TermMatchesFunction {name} = true := by decide\n"
               # same functions as the model's driver, as a multiset: the order of the metrics within a list is not pinned
               f"theorem {name}_agrees : SE.Metrics.TableAgreesPerm .{_TASK_CTOR[t]} .{lvl} {name} = true := by decide\n"
               f"example : ({name}.map (·.termLabel)).Nodup ∧ ({name}.map (·.termLabel)).Perm "
               f"((SE.Metrics.taskMetrics .{_TASK_CTOR[t]} .{lvl}).map (·.label)) :=\n"
               f"  ⟨(SE.Proofs.C09.C09_table_sound {name} {name}_distinct {name}_matches).1,\n"
               f"   SE.Proofs.C09.C09_labels_of_table_perm _ _ {name} {name}_agrees {name}_matches⟩\n")
        ctx.obligation(name, src, {"task": t, "level": lvl, "rows": rows})
        ctx.tally("table_rows", len(rows))
    # the terms module itself: labels and names pairwise distinct
    try:
        from soundevent.terms import metrics as T
        rows = [(str(getattr(T, n).name), str(getattr(T, n).label), n) for n in T.__all__]
    except Exception as e:  # noqa: BLE001
        ctx.fail("obligation", "table_terms_metrics", detail=f"soundevent.terms.metrics cannot be read: {e!r}")
        return tables
    src = (f"def table_terms : List SE.Metrics.Row := {_rows_src(rows)}\n"
           "theorem table_terms_distinct : SE.Metrics.TermsDistinct table_terms = true := by decide\n")
    ctx.obligation("table_terms_metrics", src, {"rows": rows})
    _constant_obligations(ctx)
    return tables


def _constant_obligations(ctx):
    """other facts the code states as constants: the default threshold of `jaccard`, and that an AOEF
    document keys a metric by the label of its term and reads the key back as a term with that label
    (what `toDict` / `fromDict` model)"""
    import inspect
    try:
        from soundevent.evaluation import metrics as M
        thr = inspect.signature(M.jaccard).parameters["threshold"].default
        q = Fraction(thr)
        src = (f"theorem jaccard_threshold_tie : SE.Metrics.jaccardThreshold = (({q.numerator} : Rat) / {q.denominator}) := by\n"
               "  decide +kernel\n")
        ctx.obligation("jaccard_threshold", src, {"threshold": str(thr), "fn": "jaccard"})
    except Exception as e:  # noqa: BLE001
        ctx.fail("obligation", "jaccard_threshold", detail=f"default threshold of metrics.jaccard cannot be read: {e!r}",
                 extra={"fn": "jaccard"})
    try:
        from soundevent import data
        from soundevent.terms import metrics as T
        rows = []
        for n in T.__all__:
            term = getattr(T, n)
            key = data.key_from_term(term)
            rows.append((str(term.label), str(key), str(data.term_from_key(key).label)))
        body = "[" + ", ".join(f"({_lean_str(a)}, {_lean_str(b)}, {_lean_str(c)})" for a, b, c in rows) + "]"
        src = (f"def aoef_keys : List (String × String × String) := {body}\n"
               "theorem aoef_keys_are_labels : aoef_keys.all (fun r => r.1 == r.2.1 && r.2.1 == r.2.2) = true := by decide\n"
               "theorem aoef_keys_distinct : (aoef_keys.map (·.2.1)).Nodup := by decide\n")
        ctx.obligation("aoef_metric_keys", src, {"rows": rows})
    except Exception as e:  # noqa: BLE001
        ctx.fail("obligation", "aoef_metric_keys", detail=f"key_from_term / term_from_key cannot be evaluated: {e!r}")


# ---------------------------------------------------------------- tie 1b: the wrappers on symbolic score arrays
_M = "SE.Metrics."
_SIMP_ACC = ("simp [SE.Metrics.accuracy, SE.Metrics.balancedAccuracy, SE.Metrics.presentClasses, SE.Metrics.recallOf, "
             "SE.Metrics.mean, SE.Metrics.topK, SE.Metrics.hitK, SE.Metrics.rankBefore, SE.Metrics.correct, "
             "SE.Metrics.withNone, SE.Metrics.noneScore, SE.Metrics.argmaxFirst, SE.Metrics.argmaxAux, SE.Metrics.trueIdx, "
             "SE.Metrics.ratio, SE.Metrics.tcp, SE.Metrics.jaccard, SE.Metrics.jaccardThreshold, List.range, List.range.loop, "
             "List.zipIdx_cons, Rat.add_zero, List.countP_cons, List.filter_cons, List.zip_cons_cons]")
_CLOSE = "(first | rfl | grind | (simp_all; done) | (simp_all; grind))"


def _y_lean(y):
    return "none" if y is None else f"(some {y})"


def _sym_rows(n, C):
    from ..symtrace import Sym
    names = [[f"x{i}{j}" for j in range(C)] for i in range(n)]
    arr = np.empty((n, C), dtype=object)
    for i in range(n):
        for j in range(C):
            arr[i, j] = Sym.var(names[i][j])
    return names, arr


def _items_lean(ys, names):
    return "[" + ", ".join("⟨" + _y_lean(y) + ", [" + ", ".join(r) + "]⟩" for y, r in zip(ys, names)) + "]"


def _symbolic_ties(ctx):
    """The metric wrappers of evaluation/metrics.py are *executed* on numpy object arrays of symbolic
    scores (numpy's argmax / argsort / comparisons ask the path oracle; scikit-learn only ever sees the
    concrete integer predictions) and the extracted decision tree is proved equal to the model for ALL
    score values at the given shape and truth.  Shapes are small (the number of paths grows quickly);
    only dyadic ratios occur as leaves (1 or 2 items)."""
    from soundevent.evaluation import metrics as M
    catch = (ValueError, IndexError, TypeError)
    k = [0]

    def tie(fn, thunk, V, model, tactic):
        k[0] += 1
        name = f"ext_{fn}_{k[0]}"
        ctx.sym_tie(name, thunk, V, "Rat", model, tactic=f"unfold {name}\n  {tactic}", meta={"fn": fn, "op": "metric"},
                    catch=catch)

    # true_class_probability / classification_score: every class and the unlabelled case, 1..4 classes
    for fn in ("true_class_probability", "classification_score"):
        for C in (1, 2, 3, 4):
            names, arr = _sym_rows(1, C)
            for y in [None] + list(range(C)):
                tie(fn, lambda fn=fn, y=y, arr=arr: getattr(M, fn)(y, arr[0]), names[0],
                    f"some ({_M}tcp ⟨{_y_lean(y)}, [{', '.join(names[0])}]⟩)", f"{_SIMP_ACC} <;> grind")
    # accuracy / balanced accuracy: argmax with the 'none' column
    shapes = [(1, 1, [0]), (1, 1, [None]), (1, 2, [1]), (1, 2, [None]), (2, 2, [0, None]), (2, 2, [1, 1]), (1, 3, [2]),
              (1, 3, [None])]
    if ctx.thorough():
        shapes += [(2, 2, [0, 1]), (2, 2, [None, None]), (1, 3, [0]), (1, 3, [1]), (2, 3, [0, None]), (1, 4, [None]), (1, 4, [1])]
    for fn, mt in (("accuracy", "accuracy"), ("balanced_accuracy", "balancedAccuracy")):
        for n, C, ys in shapes:
            names, arr = _sym_rows(n, C)
            V = [v for r in names for v in r]
            tie(fn, lambda fn=fn, ys=ys, arr=arr: float(getattr(M, fn)(list(ys), arr)), V,
                f"some ({_M}{mt} {C} {_items_lean(ys, names)})", f"{_SIMP_ACC} <;> (repeat' split) <;> {_CLOSE}")
    # top-3: vacuous with at most two tags (every class is among the first three) ...
    for C, ys in [(1, [0]), (1, [None]), (2, [0]), (2, [None])]:
        names, arr = _sym_rows(1, C)
        tie("top_3_accuracy", lambda ys=ys, arr=arr: float(M.top_3_accuracy(list(ys), arr)), names[0],
            f"some ({_M}topK 3 {C} {_items_lean(ys, names)})", f"{_SIMP_ACC} <;> (repeat' split) <;> {_CLOSE}")
    # ... and with three tags: case analysis on how the true class compares with each other column
    for y in ([None, 1] + ([0, 2] if ctx.thorough() else [])):
        names, arr = _sym_rows(1, 3)
        x = names[0]
        vals = x + [f"1 - ({x[0]} + ({x[1]} + {x[2]}))"]
        c = 3 if y is None else y
        atoms = [(f"{vals[c]} < {vals[j]}" if j < c else f"{vals[c]} < {vals[j]} ∨ {vals[j]} = {vals[c]}")
                 for j in range(4) if j != c]
        cases = " <;> ".join(f"by_cases h{i} : {a}" for i, a in enumerate(atoms))
        tie("top_3_accuracy", lambda y=y, arr=arr: float(M.top_3_accuracy([y], arr)), x,
            f"some ({_M}topK 3 3 {_items_lean([y], names)})",
            f"{cases} <;>\n  {_SIMP_ACC[:-1]}, Rat.add_assoc, h0, h1, h2] <;> grind")
    # jaccard at two classes: thresholding of symbolic scores
    names, arr = _sym_rows(1, 2)
    for truth in ([0, 0], [0, 1], [1, 0], [1, 1]):
        tl = "[" + ", ".join("true" if b else "false" for b in truth) + "]"
        tie("jaccard", lambda truth=truth, arr=arr: float(M.jaccard(np.array(truth, dtype=np.int32), arr[0])), names[0],
            f"some ({_M}jaccard ⟨{tl}, [{', '.join(names[0])}]⟩)", f"{_SIMP_ACC} <;> (repeat' split) <;> {_CLOSE}")


# ---------------------------------------------------------------- generators
NEAR_HALF = [0.5 + 2.0 ** -20, 0.5 + 2.0 ** -10, 0.505, 0.51, 0.5 - 2.0 ** -20, 0.495, 0.52]
POSITIONS = list(range(G.POOL))      # every pool (legacy, three taxa, adversarial) has eight positions


def _ml_scores(rng, pool_tags):
    """G.multilabel_scores, with some scores moved next to the Jaccard threshold (values float32 tells apart from 1/2)"""
    out = G.multilabel_scores(rng, pool_tags)
    if out and rng.random() < 0.25:
        i = rng.randrange(len(out))
        out[i] = [out[i][0], rat(rng.choice(NEAR_HALF))]
    return out


def _tie_row(rng, n):
    """n dyadic scores, sum <= 1, with an exact tie where an implementation has to decide: the best class equal to the
    left-over 'none' probability 1 - sum, two classes sharing the best score, or both at once"""
    kind = rng.choice(["none", "none", "classes", "both"])
    for _ in range(300):
        U = 1 << rng.choice([1, 2, 3, 4])
        parts = [rng.randint(0, U) for _ in range(n)]
        tot = sum(parts)
        if tot > U or max(parts) == 0:
            continue
        best = max(parts)
        t_none = best == U - tot
        t_cls = parts.count(best) >= 2
        if (kind == "none" and t_none) or (kind == "classes" and t_cls) or (kind == "both" and t_none and t_cls):
            return [rat(Fraction(p, U)) for p in parts]
    return [rat(Fraction(1, 2))] + ["0"] * (n - 1)


def _sl_scores(rng, pool_tags):
    """predicted tags of one single-label item (sum <= 1): evalgen's stream plus the boundaries - exact ties with the
    'none' column / between classes, a single score of exactly 1, explicit zeros only"""
    r = rng.random()
    if r < 0.16:
        n = rng.randint(1, min(len(pool_tags), 4))
        return [[t, s] for t, s in zip(rng.sample(pool_tags, n), _tie_row(rng, n))]
    if r < 0.20:
        return [[rng.choice(pool_tags), "1"]]
    if r < 0.23:
        return [[t, "0"] for t in rng.sample(pool_tags, rng.randint(1, min(len(pool_tags), 3)))]
    return G.single_label_scores(rng, pool_tags)


def _pool_and_vocab(rng, lo=1, hi=6, size=None):
    """(tag pool | None, vocabulary as pool positions): the legacy pool (eight different values), the three-taxa pool
    (classes that differ only in the term, near misses outside) or a random adversarial pool; the vocabulary is
    duplicate-free by content"""
    for _ in range(40):
        n = size or rng.randint(lo, hi)
        r = rng.random()
        if r < 0.2:
            return None, rng.sample(POSITIONS, n)
        if r < 0.45:
            pool = [dict(d) for d in TP.TAXA]
            core = [0, 2, 1]                  # gbif Turdus / ebird Turdus (same label, same value) / gbif Parus
            vocab = core[:n] + rng.sample([3, 4, 5, 7], max(0, min(n - 3, 4)))
            if n >= 2 and rng.random() < 0.3:
                vocab[rng.randrange(len(vocab))] = rng.choice([3, 4, 5, 7])
            rng.shuffle(vocab)
        else:
            pool = TP.gen_pool(rng)
            vocab = rng.sample(POSITIONS, n)
        if rng.random() < 0.2:
            # some terms as instances of a Term subclass.  One class per term content within a pool: whether a Term
            # subclass instance is the same term as a plain Term with the same fields (today it is not: pydantic's
            # __eq__ compares the classes; C19's model compares fields) is not for this check to pin, so the two never
            # stand side by side
            cls = {}
            for d in pool:
                if "term" in d:
                    k = jkey(d["term"])
                    if k not in cls:
                        cls[k] = rng.choice(TP.TERM_CLASSES) if rng.random() < 0.4 else None
                    if cls[k]:
                        d["termcls"] = cls[k]
        vocab = TP.dedupe_ids(pool, vocab)
        if size is None or len(vocab) == size:
            return pool, vocab
    return None, rng.sample(POSITIONS, size or rng.randint(lo, hi))


_OPTS = [{"tags": "shared"}, {"score": "np64"}, {"score": "np32"}, {"score": "int"}, {"seq": "tuple"},
         {"call": "positional"}]


def _gen_forms(rng, p_form=0.6, p_term=0.4):
    """how the Tag objects of the vocabulary, the annotations and the predictions are made, independently of each other
    (tagpool.FORMS: Tag subclasses with / without a field of their own, model_validate, model_copy ...) and where their
    Term objects come from (tagpool.TERM_MODES: one per tag, one shared object per term, the Term object of a
    vocabulary tag with another value).  Content-preserving by construction: the model request does not see it."""
    o = {}
    for role in ("vocab", "ann", "pred"):
        if rng.random() < p_form:
            o[role] = rng.choice(TP.FORMS[1:])
        if rng.random() < p_term:
            o[role + "_term"] = rng.choice(["shared", "shared"] if role == "vocab" else TP.TERM_MODES[1:])
    return o


def _gen_opts(rng):
    """how the same content is handed to the task function (see evalgen.build): most cases the plain way"""
    o = {}
    if rng.random() < 0.35:
        for d in rng.sample(_OPTS, rng.choice([1, 1, 2, 3])):
            o.update(d)
    if rng.random() < 0.3:
        o.update(_gen_forms(rng))
    return o or None


def _finish(rng, inp, pool):
    if pool is not None:
        inp["tagpool"] = pool
    o = _gen_opts(rng)
    if o:
        inp["opts"] = o
    return inp


def _draw(rng, vocab):
    return vocab if rng.random() < 0.7 else POSITIONS


def _gen_clip_task(rng, task, n_clips=None, size=None, pv=None):
    pool, vocab = pv or _pool_and_vocab(rng, size=size)
    nb = n_clips if n_clips is not None else rng.choice([1, 1, 2, 3, 4, 6, 8])
    p_ids, a_ids = G.clip_ids(rng, nb, rng.choice([0, 0, 1]), rng.choice([0, 0, 1]))
    ml = task == "clip_multilabel_classification"
    preds = [{"clip": c, "tags": (_ml_scores(rng, _draw(rng, vocab)) if ml else _sl_scores(rng, _draw(rng, vocab)))}
             for c in p_ids]
    anns = [{"clip": c, "tags": G.true_tags(rng, _draw(rng, vocab), multilabel=ml)} for c in a_ids]
    if rng.random() < 0.03:
        # a clip that also carries a sound event (annotated clips of real datasets do): known finding C09-K3
        k = rng.randrange(len(preds) + len(anns))
        c = (preds + anns)[k]
        c["events"] = [{"id": 1, "geom": list(_BOX), "tags": ([[vocab[0], "1/2"]] if k < len(preds) else [vocab[0]])}]
    return _finish(rng, {"task": task, "vocab": vocab, "predictions": preds, "annotations": anns}, pool)


_BOX = ["1", "1000", "2", "2000"]


def _gen_sec(rng, n_clips=None, size=None, pv=None):
    pool, vocab = pv or _pool_and_vocab(rng, size=size)
    nb = n_clips if n_clips is not None else rng.choice([1, 1, 2, 3, 4])
    p_ids, a_ids = G.clip_ids(rng, nb, rng.choice([0, 0, 1]), rng.choice([0, 0, 1]))
    events = {}
    nid = 0
    for c in set(p_ids) | set(a_ids):
        k = rng.choice([0, 1, 1, 2, 3, 4])
        events[c] = list(range(nid, nid + k))
        nid += k
    if not any(events[c] for c in set(p_ids) & set(a_ids)):
        c = next(iter(set(p_ids) & set(a_ids)))
        events[c] = [nid]
    preds, anns = [], []
    for c in p_ids:
        ids = list(events[c])
        rng.shuffle(ids)
        preds.append({"clip": c, "events": [{"id": i, "geom": _BOX if rng.random() < 0.8 else None,
                                              "tags": _sl_scores(rng, _draw(rng, vocab))} for i in ids]})
    for c in a_ids:
        ids = list(events[c])
        rng.shuffle(ids)
        anns.append({"clip": c, "events": [{"id": i, "geom": None, "tags": G.true_tags(rng, _draw(rng, vocab))} for i in ids]})
    # now and then a predicted sound event that is not annotated in its clip, or an annotated one that is not
    # predicted: the code skips both (outside the one-to-one reading of the quantifier, inside the model)
    if rng.random() < 0.2:
        side = rng.choice([preds, anns])
        c = rng.choice(side)
        nid += 1
        c["events"].insert(rng.randrange(len(c["events"]) + 1),
                           {"id": 1000 + nid, "geom": _BOX,
                            "tags": _sl_scores(rng, _draw(rng, vocab)) if side is preds else G.true_tags(rng, _draw(rng, vocab))})
    # a sound event is one object: same geometry on both sides
    geom = {}
    for c in preds:
        for e in c["events"]:
            geom[e["id"]] = e["geom"]
    for c in anns:
        for e in c["events"]:
            e["geom"] = geom.get(e["id"], _BOX)
    return _finish(rng, {"task": "sound_event_classification", "vocab": vocab, "predictions": preds, "annotations": anns},
                   pool)


def _gen_detection(rng, n_clips=None, size=None, pv=None):
    pool, vocab = pv or _pool_and_vocab(rng, size=size)
    inp = G.gen_detection(rng, n_clips=n_clips, vocab=vocab)
    for c in inp["predictions"]:          # the boundary rows of _sl_scores for some predicted sound events
        for e in c["events"]:
            if rng.random() < 0.2:
                e["tags"] = _sl_scores(rng, _draw(rng, vocab))
    return _finish(rng, inp, pool)


def gen_task(rng, task, **kw):
    for _ in range(50):
        if task == "sound_event_classification":
            inp = _gen_sec(rng, **kw)
        elif task == "sound_event_detection":
            inp = _gen_detection(rng, **kw)
        else:
            inp = _gen_clip_task(rng, task, **kw)
        if in_scope(inp):
            return inp
    return inp


def gen_rich(rng, events, size=None, n_clips=None):
    """clips that two tasks can evaluate.  events=False: clip-level tags only (single-label scores, sum <= 1): both
    clip-level tasks.  events=True: sound events that predictions and annotations share one-to-one, with geometries,
    and clip-level tags on top (the sound-event tasks must not look at them): both sound-event tasks.  (All four tasks
    on the same objects is not possible: the clip-level tasks reject clips with sound events, C09-K3.)"""
    pool, vocab = _pool_and_vocab(rng, lo=2, hi=5, size=size)
    nb = n_clips if n_clips is not None else rng.choice([1, 2, 2, 3])
    p_ids, a_ids = G.clip_ids(rng, nb, rng.choice([0, 0, 1]), rng.choice([0, 0, 1]))
    nid = [0]
    by = {}
    for c in set(p_ids) | set(a_ids):
        evs = []
        for _ in range(rng.choice([0, 1, 1, 2, 3]) if events else 0):
            nid[0] += 1
            evs.append((nid[0], G.gen_boxes(rng) if rng.random() < 0.85 else None))
        by[c] = evs
    if events and not any(by[c] for c in set(p_ids) & set(a_ids)):
        nid[0] += 1
        by[next(iter(set(p_ids) & set(a_ids)))] = [(nid[0], list(_BOX))]
    preds, anns = [], []
    for c in p_ids:
        evs = list(by[c])
        rng.shuffle(evs)
        preds.append({"clip": c, "tags": _sl_scores(rng, _draw(rng, vocab)),
                      "events": [{"id": i, "geom": g, "tags": _sl_scores(rng, _draw(rng, vocab))} for i, g in evs]})
    for c in a_ids:
        evs = list(by[c])
        rng.shuffle(evs)
        anns.append({"clip": c, "tags": G.true_tags(rng, _draw(rng, vocab), multilabel=rng.random() < 0.4),
                     "events": [{"id": i, "geom": g, "tags": G.true_tags(rng, _draw(rng, vocab))} for i, g in evs]})
    inp = {"task": "sound_event_classification" if events else "clip_classification", "vocab": vocab,
           "predictions": preds, "annotations": anns}
    if pool is not None:
        inp["tagpool"] = pool
    if rng.random() < 0.35:
        o = _gen_forms(rng)
        if o:
            inp["opts"] = o
    return inp


def _known(inp):
    """the recorded known findings (a history must not walk into them: its steps are judged as one case)"""
    if inp["task"] == "clip_multilabel_classification" and len(inp["vocab"]) <= 1:
        return True
    if carries_events(inp):
        return True
    return inp["task"] == "sound_event_detection" and all_unlabelled(inp)


_YT = ["list", "list", "tuple", "array", "object"]


def _gen_metric(rng):
    fn = rng.choice(["accuracy", "balanced_accuracy", "top_3_accuracy", "mean_average_precision",
                     "true_class_probability", "classification_score", "mean_average_precision_2d",
                     "average_precision", "jaccard", "multilabel_example_score"] * 3 +
                    ["jaccard_2d", "average_precision_2d", "multilabel_example_score_2d"])
    C = rng.randint(2, 6) if fn in ("jaccard", "mean_average_precision_2d", "multilabel_example_score", "jaccard_2d",
                                    "average_precision_2d", "multilabel_example_score_2d") else rng.choice([1, 2, 3, 3, 4, 4, 5, 6])
    # sizes where an implementation could switch strategy: more than 16 columns (numpy's unstable sorts are insertion
    # sorts - stable - below that), a thousand items
    wide = fn in ("accuracy", "balanced_accuracy", "top_3_accuracy", "mean_average_precision") and rng.random() < 0.03
    if wide:
        C = rng.randint(17, 40)
    many = fn in ("accuracy", "balanced_accuracy", "top_3_accuracy", "mean_average_precision") and not wide and rng.random() < 0.004
    # how the arrays are handed over: float32 (what the tasks pass) or float64 scores (dyadic rows then, so that the
    # sums are exact in either width), C / Fortran order / a strided view; the truths as list, tuple, integer array
    # (where every item is labelled) or object array
    f64 = rng.random() < 0.25
    how = {"dt": "f64" if f64 else "f32", "order": rng.choice(["C", "C", "F", "view"]), "yt": rng.choice(_YT)}

    def row():
        if f64:
            k = rng.randint(0, C)
            sc = dict(G.dyadic_scores(rng, rng.sample(range(C), k))) if k else {}
            return [sc.get(i, "0") for i in range(C)]
        sc = dict((t, s) for t, s in _sl_scores(rng, list(range(C))))
        return [G.f32(sc.get(i, "0")) for i in range(C)]

    def mlrow():
        sc = dict((t, s) for t, s in _ml_scores(rng, list(range(C))))
        return [(rat(float(frac(sc[i]))) if f64 else G.f32(sc[i])) if i in sc else "0" for i in range(C)]
    if fn in ("accuracy", "balanced_accuracy", "top_3_accuracy", "mean_average_precision"):
        n = rng.randint(1030, 1300) if many else rng.randint(1, 12)
        items = [{"y": rng.choice([None] + list(range(C)) * 2), "row": row()} for _ in range(n)]
        return {"fn": fn, "C": C, "items": items, "how": how}
    if fn in ("true_class_probability", "classification_score"):
        return {"fn": fn, "C": C, "item": {"y": rng.choice([None] + list(range(C))), "row": row()}, "how": how}
    if fn in ("jaccard_2d", "average_precision_2d"):
        n = rng.randint(1, 5)
        return {"fn": fn, "C": C, "how": how,
                "items": [{"truth": [rng.randint(0, 1) for _ in range(C)], "row": mlrow()} for _ in range(n)]}
    if fn == "multilabel_example_score_2d":      # a single example given as a 1 x C matrix
        return {"fn": fn, "C": C, "items": [{"truth": [rng.randint(0, 1) for _ in range(C)], "row": mlrow()}]}
    if fn == "mean_average_precision_2d":
        n = rng.randint(1, 8)
        return {"fn": fn, "C": C, "how": how,
                "items": [{"truth": [rng.randint(0, 1) for _ in range(C)], "row": mlrow()} for _ in range(n)]}
    if fn == "multilabel_example_score":
        return {"fn": fn, "C": C, "item": {"truth": [rng.randint(0, 1) for _ in range(C)], "row": mlrow()}}
    return {"fn": fn, "C": C, "item": {"truth": [rng.randint(0, 1) for _ in range(C)], "row": mlrow()}, "how": how}


# ---------------------------------------------------------------- histories (HISTORIES.md section 1)
def _light_holds(ctx, inp, io):
    return _holds_task(ctx, inp, io, light=True)


# one step of a history: any of the four tasks (the input names it), judged by the same model op and comparison as a
# stand-alone case; the permutation / AOEF monitors are left to the stand-alone stream
STEP = Op("task_step", _impl_task, to_model=to_model, compare=_compare_task, holds=_light_holds,
          nontrivial=_nontrivial, mode="round-once", model_op="task_tags")


def _tag_makers(inp):
    """(annotation tag, predicted tag, vocabulary) builders for a reuse step: the forms of inp["opts"] if it has any"""
    opts = inp.get("opts") or {}
    forms = {k: opts[k] for k in G.TAG_FORM_KEYS if opts.get(k) is not None}
    if forms:
        mk = TP.Maker(TP.descriptors(inp), forms)
        vocab = mk.vocab(inp["vocab"])         # first: "cross" takes its Term objects from these
        return (lambda t: mk.make("ann", t)), (lambda t: mk.make("pred", t)), vocab
    if inp.get("tagpool") is not None:
        descs = inp["tagpool"]
        one = lambda t: TP.fresh(descs[t])  # noqa: E731
    else:
        one = G.tag
    return one, one, [one(t) for t in inp["vocab"]]


def _skeleton(inp):
    """what a reuse step must share with the step before: the clips, and per clip the sound events (id, geometry)"""
    return [[(c["clip"], [(e["id"], G.gkey(e["geom"])) for e in c.get("events", [])]) for c in inp[side]]
            for side in ("predictions", "annotations")]


def _h_build(inp):
    preds, anns, tags = G.build(inp)
    return {"inp": copy.deepcopy(inp), "preds": preds, "anns": anns, "tags": tags}


def _h_call(args):
    return G.call_task(args["inp"]["task"], args["preds"], args["anns"], args["tags"], args["inp"].get("opts"))


def _h_canon(inp, args, res):
    return {"val": G.canon_evaluation(res)}


def _tag_snap(t):
    return jkey(TP.read_back(t))


def _h_snapshot(args):
    def clip(c, pred):
        if pred:
            tg = lambda ts: [[_tag_snap(p.tag), repr(p.score)] for p in ts]  # noqa: E731
        else:
            tg = lambda ts: [_tag_snap(t) for t in ts]  # noqa: E731
        return [str(c.clip.uuid), tg(c.tags), [[str(e.sound_event.uuid), repr(e.sound_event.geometry), tg(e.tags)]
                                               for e in c.sound_events]]
    return {"p": [clip(c, True) for c in args["preds"]], "a": [clip(c, False) for c in args["anns"]],
            "v": [_tag_snap(t) for t in args["tags"]]}


def _h_modify(args, inp, how):
    """the live ClipPrediction / ClipAnnotation objects of the step before, changed to carry `inp`:
    how = "same": the very same objects (their content is `inp`'s already: only the vocabulary / the task differ);
    "assign": new tag lists assigned to the attributes; "inplace": the tag lists they hold are emptied and refilled;
    "copy" / "deepcopy": `model_copy(update=...)` shallow / deep of every clip and sound event object.
    The vocabulary list: rebuilt, for "inplace" the same list object refilled."""
    from soundevent import data
    old = args["inp"]
    if _skeleton(old) != _skeleton(inp):
        return None
    mk, mk_p, vt = _tag_makers(inp)
    same_tags = all(old[s] == inp[s] for s in ("predictions", "annotations")) and old.get("tagpool") == inp.get("tagpool")
    if how == "same" and not same_tags:
        how = "assign"

    def ptags(ts):
        return [data.PredictedTag(tag=mk_p(t), score=float(frac(s))) for t, s in ts]

    def ttags(ts):
        return [mk(t) for t in ts]
    new = {"inp": copy.deepcopy(inp), "preds": list(args["preds"]), "anns": list(args["anns"]), "tags": args["tags"]}
    if how != "same":
        for side, key, conv in (("predictions", "preds", ptags), ("annotations", "anns", ttags)):
            for i, c in enumerate(inp[side]):
                obj = new[key][i]
                evs = c.get("events", [])
                if how == "assign":
                    obj.tags = conv(c.get("tags", []))
                    for e, eo in zip(evs, obj.sound_events):
                        eo.tags = conv(e["tags"])
                elif how == "inplace":
                    obj.tags[:] = conv(c.get("tags", []))
                    for e, eo in zip(evs, obj.sound_events):
                        eo.tags[:] = conv(e["tags"])
                else:
                    deep = how == "deepcopy"
                    ses = [eo.model_copy(update={"tags": conv(e["tags"])}, deep=deep) for e, eo in zip(evs, obj.sound_events)]
                    new[key][i] = obj.model_copy(update={"tags": conv(c.get("tags", [])), "sound_events": ses}, deep=deep)
    if how == "inplace":
        new["tags"][:] = vt
    else:
        new["tags"] = vt
    return new


def _h_poison(res):
    """the caller edits what it got back: metric lists emptied / doubled in place"""
    done = False
    if res.metrics:
        res.metrics.append(res.metrics[0])
        done = True
    for ce in res.clip_evaluations:
        if ce.metrics:
            ce.metrics.clear()
            done = True
        for m in ce.matches:
            if m.metrics:
                m.metrics.clear()
                done = True
    return done


OPS["task_history"] = H.history_op("task_history", STEP, build=_h_build, call=_h_call, canon=_h_canon,
                                   snapshot=_h_snapshot, modify=_h_modify, poison=_h_poison)
REUSE = ["assign", "inplace", "copy", "deepcopy"]


def _with(inp, **kw):
    out = copy.deepcopy(inp)
    out.update(kw)
    return out


def _siblings(inp, t):
    """pool positions whose tag is another tag than position t's but shares its value and the label or the name of its term"""
    pool = [TP.content(d) for d in TP.descriptors(inp)]
    a = pool[t]
    return [i for i, b in enumerate(pool) if jkey(b) != jkey(a) and b["value"] == a["value"]
            and (b["term"]["label"] == a["term"]["label"] or b["term"]["name"] == a["term"]["name"])]


def _vocab_variants(rng, x):
    """other vocabularies for the same data: a strict subset, the subset in another order, the vocabulary reversed,
    one class replaced by a sibling tag (same value, same label or name, another term)"""
    V = list(x["vocab"])
    out = []
    if len(V) >= 2:
        V2 = rng.sample(V, rng.randint(1, len(V) - 1))
        out.append(V2)
        out.append(V2[::-1] if len(V2) > 1 else [V[-1]])
        out.append(V[::-1])
        out.append(V[1:] + V[:1])
    i = rng.randrange(len(V))
    sib = _siblings(x, V[i])
    if sib:
        W = list(V)
        W[i] = rng.choice(sib)
        out.append(W)
    pool = TP.descriptors(x)
    return [TP.dedupe_ids(pool, v) for v in out]


def _edit_tags(rng, x):
    """the same clips and sound events with some tags changed: a tag dropped, replaced by a sibling / another pool tag,
    the true tags reordered, a true tag put in front, a score halved (sums only shrink)"""
    y = copy.deepcopy(x)
    lists = []
    for side in ("predictions", "annotations"):
        for c in y[side]:
            lists.append((side, c, "tags"))
            for e in c.get("events", []):
                lists.append((side, e, "tags"))
    rng.shuffle(lists)
    for side, holder, k in lists[:rng.randint(1, max(1, len(lists) // 2))]:
        ts = holder.get(k, [])
        pred = side == "predictions"
        r = rng.random()
        if ts and r < 0.25:
            ts.pop(rng.randrange(len(ts)))
        elif ts and r < 0.6:
            i = rng.randrange(len(ts))
            t = ts[i][0] if pred else ts[i]
            sib = _siblings(y, t) or POSITIONS
            nt = rng.choice(sib)
            ts[i] = [nt, ts[i][1]] if pred else nt
        elif ts and r < 0.75:
            if pred:
                i = rng.randrange(len(ts))
                ts[i] = [ts[i][0], rat(frac(ts[i][1]) / 2)]
            else:
                ts.reverse()
        elif not pred:
            ts.insert(0, rng.choice(y["vocab"] if rng.random() < 0.7 else POSITIONS))
        elif not ts:
            ts.append([rng.choice(y["vocab"]), "1/4"])
        holder[k] = ts
    return y


_CLIP_TASKS = ["clip_classification", "clip_multilabel_classification"]


def _ok_step(inp):
    return in_scope(inp) and not _known(inp)


def gen_histories(rng, n):
    """explicit histories (every step judged by the model on the content the objects carry at that step):
    V: the same data under V1, V2 < V1, V2 in another order, V1 again (fresh objects or the very same ones);
    T: tasks alternating over the same live objects;  E: objects reused after their tags were edited (assignment,
    in place, model_copy shallow / deep), then the first content again;  M: all of it mixed"""
    out = []
    tries = 0
    while len(out) < n and tries < 20 * n:
        tries += 1
        kind = ("V", "T", "E", "M")[len(out) % 4]
        events = rng.random() < 0.5
        tasks = ["sound_event_classification", "sound_event_detection"] if events else list(_CLIP_TASKS)
        x = gen_rich(rng, events)
        x["task"] = rng.choice(tasks)
        seq = []

        def step(inp, reuse=None, poison=False):
            st = {"inp": inp}
            if reuse:
                st["reuse"] = reuse
            if poison:
                st["poison"] = True
            seq.append(st)
        if kind == "V":
            vs = _vocab_variants(rng, x)
            if not vs:
                continue
            reuse = rng.choice([None, "same", "same"])
            step(x)
            v2 = vs[0]
            step(_with(x, vocab=v2), reuse)
            step(_with(x, vocab=rng.choice(vs[1:]) if len(vs) > 1 else v2), reuse)
            step(_with(x, vocab=list(x["vocab"])), reuse)
            if rng.random() < 0.5:
                step(_with(x, vocab=rng.choice(vs)), reuse)
        elif kind == "T":
            ts = rng.sample(tasks, 2)
            for k in range(rng.choice([3, 4])):
                step(_with(x, task=ts[k % 2]), "same" if k else None, poison=rng.random() < 0.3)
        elif kind == "E":
            y = _edit_tags(rng, x)
            step(x, poison=rng.random() < 0.3)
            step(y, rng.choice(REUSE))
            step(_with(x), rng.choice(REUSE))
            if rng.random() < 0.5:
                step(_with(y, vocab=rng.choice(_vocab_variants(rng, y) or [y["vocab"]])), rng.choice(REUSE + ["same"]))
        else:
            cur = x
            step(cur, poison=rng.random() < 0.3)
            for _ in range(rng.randint(2, 4)):
                r = rng.random()
                if r < 0.35:
                    vs = _vocab_variants(rng, cur)
                    cur = _with(cur, vocab=rng.choice(vs)) if vs else cur
                    step(cur, rng.choice([None, "same"]), poison=rng.random() < 0.2)
                elif r < 0.6:
                    cur = _with(cur, task=rng.choice(tasks))
                    step(cur, rng.choice([None, "same"]))
                elif r < 0.85:
                    cur = _edit_tags(rng, cur)
                    step(cur, rng.choice(REUSE))
                else:
                    step(_with(x), rng.choice([None] + REUSE))
                    cur = x
        if all(_ok_step(st["inp"]) and st["inp"]["vocab"] for st in seq):
            out.append({"seq": seq, "kind": kind})
    return out


# ---------------------------------------------------------------- known findings
def _f_single_tag_multilabel(f, m):
    return (f.op == "clip_multilabel_classification" and f.kind == "property" and len(f.inp["vocab"]) == 1
            and isinstance(f.impl, dict) and f.impl.get("raise") == "invalid")


def _f_no_labelled_truth(f, m):
    return (f.op == "sound_event_detection" and f.kind == "property" and isinstance(f.impl, dict)
            and f.impl.get("raise") == "invalid" and in_scope(f.inp) and all_unlabelled(f.inp))


def _f_clip_task_with_sound_events(f, m):
    return (f.op in ("clip_classification", "clip_multilabel_classification") and f.kind == "property"
            and isinstance(f.impl, dict) and f.impl.get("raise") == "invalid" and in_scope(f.inp) and carries_events(f.inp))


FINDING_MATCHERS = {"single_tag_multilabel": _f_single_tag_multilabel,
                    "detection_no_labelled_truth": _f_no_labelled_truth,
                    "clip_task_with_sound_events": _f_clip_task_with_sound_events}


# ---------------------------------------------------------------- run
def _stage_tables(ctx):
    _table_obligations(ctx)
    ctx.stage("symbolic ties", _symbolic_ties_quiet, ctx)
    ctx.discharge(["SoundeventModel.Metrics", "SoundeventModel.Tactics", "Proofs.C09"])


def _symbolic_ties_quiet(ctx):
    with warnings.catch_warnings():
        warnings.simplefilter("ignore")
        _symbolic_ties(ctx)


def _tag_tallies(ctx, inp):
    t = inp["task"]
    ctx.tally(f"{t}:vocab={len(inp['vocab'])}")
    if inp.get("opts"):
        for k, v in inp["opts"].items():
            ctx.tally(f"opts:{k}={v}")
    if inp.get("tagpool") is None:
        ctx.tally("tags:pool=legacy")
        return
    ctx.tally("tags:pool=adversarial")
    if any(d.get("termcls") for d in inp["tagpool"]):
        ctx.tally("tags:term-subclass-instances-in-pool")
    pool = [TP.content(d) for d in inp["tagpool"]]
    lv = lambda t: (t["term"]["label"], t["value"])  # noqa: E731
    nv = lambda t: (t["term"]["name"], t["value"])  # noqa: E731
    voc = [pool[t] for t in inp["vocab"]]
    vkeys = {jkey(t) for t in voc}
    if len({lv(t) for t in voc}) < len(voc):
        ctx.tally("tags:vocabulary-classes-share-label-and-value")
    if len({nv(t) for t in voc}) < len(voc):
        ctx.tally("tags:vocabulary-classes-share-name-and-value")
    if len({t["value"] for t in voc}) < len(voc):
        ctx.tally("tags:vocabulary-classes-share-value")
    used = []
    for side in ("annotations", "predictions"):
        for c in inp.get(side, []):
            for holder in [c] + list(c.get("events", [])):
                ids = [x[0] if isinstance(x, list) else x for x in holder.get("tags", [])]
                used += [pool[i] for i in ids]
                if side == "predictions" and len({jkey(pool[i]) for i in ids}) < len(ids):
                    ctx.tally("tags:duplicate-predicted-tag")
    if any(jkey(t) not in vkeys and (lv(t) in {lv(v) for v in voc} or nv(t) in {nv(v) for v in voc}) for t in used):
        ctx.tally("tags:near-miss-outside-vocabulary")


def _row_tallies(ctx, inp):
    """exact ties of a single-label item: best class score = left-over probability; two classes share the best score"""
    if inp["task"] not in SINGLE:
        return
    for c in inp["predictions"]:
        for holder in ([c] if inp["task"] == "clip_classification" else c.get("events", [])):
            sc = [frac(s) for _, s in holder.get("tags", [])]
            if sc and max(sc) > 0:
                if max(sc) == 1 - sum(sc):
                    ctx.tally("ties:best-class=none")
                if sc.count(max(sc)) >= 2:
                    ctx.tally("ties:two-best-classes")
                if max(sc) == 1:
                    ctx.tally("scores:exactly-1")
            if any(s == 0 for s in sc):
                ctx.tally("scores:explicit-0")


def _shape_tallies(ctx, inp):
    """clips on one side only, evaluated clips without any item, sound events without geometry"""
    pc = [c["clip"] for c in inp["predictions"]]
    ac = [c["clip"] for c in inp["annotations"]]
    if set(pc) - set(ac):
        ctx.tally("shape:clip-only-predicted")
    if set(ac) - set(pc):
        ctx.tally("shape:clip-only-annotated")
    ann = {c["clip"]: c for c in inp["annotations"]}
    for c in inp["predictions"]:
        a = ann.get(c["clip"])
        if a is None:
            continue
        if inp["task"] in ("clip_classification", "clip_multilabel_classification"):
            if not c.get("tags") and not a.get("tags"):
                ctx.tally("shape:evaluated-clip-without-any-tag")
        else:
            if not c.get("events") and not a.get("events"):
                ctx.tally("shape:evaluated-clip-without-sound-events")
            if any(e["geom"] is None for e in c.get("events", []) + a.get("events", [])):
                ctx.tally("shape:sound-event-without-geometry")


def _stage_task(ctx, t, n):
    cases = [gen_task(ctx.rng, t) for _ in range(n)]
    # the top-3 boundary: vocabularies of exactly 1, 2, 3, 4 tags
    for size in (1, 2, 3, 4):
        cases += [gen_task(ctx.rng, t, size=size) for _ in range(max(4, n // 25))]
    for c in cases:
        _tag_tallies(ctx, c)
        _cross_tally(ctx, c)
        _row_tallies(ctx, c)
        _shape_tallies(ctx, c)
    ctx.run_cases(OPS[t], cases)


def _stage_exhaustive(ctx):
    # small-scope exhaustive: one clip / one event, every (true tag, predicted tag) placement over a 2-tag vocabulary,
    # once over the legacy tags and once over two classes that differ only in the name of the term (+ a near miss)
    ex = list(_exhaustive_small()) + list(_exhaustive_small(_NEAR_POOL))
    for t in G.TASKS:
        ctx.run_cases(OPS[t], [c for c in ex if c["task"] == t])
    ctx.exhaustive["one item, vocabulary [0,1]"] = ("true tags in {[], [0], [1], [2], [1,0]} x predicted in "
                                                    "{[], 0:1/2, 1:1/2, 0:1/2+1:1/2, 0:1/4+1:1/2, 2:1/2} for each task; "
                                                    "over the legacy tags and over {gbif:taxon=Turdus, ebird:taxon=Turdus} "
                                                    "with a near miss (other uri) as tag 2")


# the pool of the construction-path stage: two values under one term (so that the Term object of one vocabulary tag can
# come with the value of another), the same value under a sibling term, near misses, a term that is an instance of a
# Term subclass (under two values), the deprecated key= spelling
FORM_POOL = [{"term": TP.T_GBIF, "value": "Turdus"}, {"term": TP.T_GBIF, "value": "Parus"},
             {"term": TP.T_EBIRD, "value": "Turdus"}, {"term": TP.T_GBIF, "value": "turdus"},
             {"term": TP.T_URI, "value": "Turdus"}, {"term": TP.T_CALL, "value": "Turdus", "termcls": "sub"},
             {"term": TP.T_CALL, "value": "Parus", "termcls": "sub"}, {"key": "taxon", "value": "Turdus"}]


def _gen_form_cases(rng, t, reps=1):
    """every (vocabulary form, annotation form) pair with the prediction form and the three Term-object modes rotating
    through, over FORM_POOL with a vocabulary that always holds positions 0 and 1 (one term, two values)"""
    F, M = TP.FORMS, TP.TERM_MODES
    out = []
    k = 0
    for _ in range(reps):
        for i, vf in enumerate(F):
            for j, qf in enumerate(F):
                k += 1
                vocab = [0, 1] + rng.sample(range(2, 8), rng.choice([0, 1, 1, 2])) + ([5, 6] if k % 4 == 0 else [])
                vocab = list(dict.fromkeys(vocab))
                rng.shuffle(vocab)
                inp = gen_task(rng, t, pv=([dict(d) for d in FORM_POOL], vocab))
                o = {key: v for key, v in (inp.get("opts") or {}).items() if key not in G.TAG_FORM_KEYS and key != "tags"}
                spec = {"vocab": vf, "ann": qf, "pred": F[(i + j + k) % len(F)],
                        "vocab_term": ("fresh", "shared")[k % 2], "ann_term": M[(k // 2) % 3], "pred_term": M[(k // 6) % 3]}
                o.update({key: v for key, v in spec.items() if v not in ("plain", "fresh")})
                if o:
                    inp["opts"] = o
                else:
                    inp.pop("opts", None)
                out.append(inp)
    return out


def _cross_tally(ctx, inp):
    """a query tag that is *in* the vocabulary and was built from the Term object of another vocabulary tag"""
    o = inp.get("opts") or {}
    descs = TP.descriptors(inp)
    voc = [TP.content(descs[t]) for t in inp["vocab"]]
    vkeys = {jkey(v) for v in voc}
    for side, role in (("annotations", "ann"), ("predictions", "pred")):
        ids = []
        for c in inp[side]:
            for holder in [c] + list(c.get("events", [])):
                ids += [x[0] if isinstance(x, list) else x for x in holder.get("tags", [])]
        form, vform = o.get(role, "plain"), o.get("vocab", "plain")
        if form != vform and any(jkey(TP.content(descs[i])) in vkeys for i in ids):
            ctx.tally(f"forms:{role}={form}:tag-of-a-vocabulary-made-otherwise")
            ctx.tally(f"forms:vocab={vform}:{role}-tag-made-otherwise")
        if o.get(role + "_term") == "cross":
            for i in ids:
                c = TP.content(descs[i])
                if jkey(c) in vkeys and any(jkey(v["term"]) == jkey(c["term"]) and v["value"] != c["value"] for v in voc):
                    ctx.tally(f"forms:{role}:term-object-of-vocabulary-tag-i-with-value-of-tag-j")
                    break


def _stage_forms(ctx):
    # what the harness assumes of pydantic / data.Tag: every construction variant yields an object with the same fields
    # (read back from the object, no __eq__ involved), alone and around a shared Term object
    for d in FORM_POOL + TP.LEGACY[:3]:
        want = jkey(TP.read_back(TP.fresh(d)))
        for form in TP.FORMS:
            for shared in (False, True):
                got = TP.read_back(TP.fresh(d, form, TP.fresh(d).term if shared else None))
                ctx.contract("tag-construction-variant-keeps-the-fields", jkey(got) == want,
                             {"descriptor": d, "form": form, "shared_term": shared}, got)
    for t in G.TASKS:
        cases = _gen_form_cases(ctx.rng, t, reps=ctx.budget(1, 4))
        for c in cases:
            _tag_tallies(ctx, c)
            _cross_tally(ctx, c)
        ctx.run_cases(OPS[t], cases)


def _stage_metrics(ctx, n):
    cases = [_gen_metric(ctx.rng) for _ in range(n)]
    for c in cases:
        if c["C"] > 16:
            ctx.tally("metric:more-than-16-classes")
        if len(c.get("items", [])) > 1024:
            ctx.tally("metric:more-than-1024-items")
        h = c.get("how")
        if h:
            ctx.tally(f"metric:scores={h['dt']}/{h['order']}")
            ctx.tally(f"metric:truths={h['yt']}")
    ctx.run_cases(OPS["metric"], cases)


def _stage_histories(ctx, n):
    hs = gen_histories(ctx.rng, n)
    for h in hs:
        ctx.tally("history:kind=" + h["kind"])
        for st in h["seq"]:
            ctx.tally("history:step=" + (st.get("reuse") or "fresh") + ("+poison" if st.get("poison") else ""))
            ctx.tally("history:task=" + st["inp"]["task"])
    ctx.run_cases(OPS["task_history"], hs)


def run(ctx):
    ctx.stage("tables", _stage_tables, ctx)
    ctx.stage("corpus", ctx.run_corpus, OPS)
    n = ctx.budget(220, 2500)
    for t in G.TASKS:
        ctx.stage("task:" + t, _stage_task, ctx, t, n)
    ctx.stage("exhaustive", _stage_exhaustive, ctx)
    ctx.stage("construction paths", _stage_forms, ctx)
    ctx.stage("histories", _stage_histories, ctx, ctx.budget(160, 1600))
    ctx.stage("metric functions", _stage_metrics, ctx, ctx.budget(4500, 60000))


_NEAR_POOL = [{"term": TP.T_GBIF, "value": "Turdus"}, {"term": TP.T_EBIRD, "value": "Turdus"},
              {"term": TP.T_URI, "value": "Turdus"}]


def _exhaustive_small(tagpool=None):
    truths = [[], [0], [1], [2], [1, 0]]
    preds = [[], [[0, "1/2"]], [[1, "1/2"]], [[0, "1/2"], [1, "1/2"]], [[0, "1/4"], [1, "1/2"]], [[2, "1/2"]]]
    for t in G.TASKS:
        for tr in truths:
            for pr in preds:
                if t in ("clip_classification", "clip_multilabel_classification"):
                    case = {"task": t, "vocab": [0, 1], "predictions": [{"clip": 0, "tags": pr}],
                            "annotations": [{"clip": 0, "tags": tr}]}
                else:
                    case = {"task": t, "vocab": [0, 1],
                            "predictions": [{"clip": 0, "events": [{"id": 0, "geom": _BOX, "tags": pr}]}],
                            "annotations": [{"clip": 0, "events": [{"id": 0, "geom": _BOX, "tags": tr}]}]}
                if tagpool is not None:
                    case["tagpool"] = tagpool
                yield case


def search(ctx, failures):
    """a table obligation or a correspondence broke: run every task on a wider stream; the
    monitors (distinct terms, ranges) and the determined comparison turn the broken tie into a
    concrete input."""
    tasks = {f.extra.get("task") for f in failures if f.extra.get("task")} or set(G.TASKS)
    for t in tasks:
        ctx.run_cases(OPS[t], [gen_task(ctx.rng, t) for _ in range(150)])
        ctx.run_cases(OPS[t], _gen_form_cases(ctx.rng, t))
    ctx.run_cases(OPS["metric"], [_gen_metric(ctx.rng) for _ in range(2000)])
    ctx.run_cases(OPS["task_history"], gen_histories(ctx.rng, 60))
