"""C14 — Clip segmentation tiles the clip on the hop lattice."""
import itertools
import math
import uuid as _uuid
from fractions import Fraction

from .. import history
from ..core import Op, jkey
from ..rat import rat, frac

PROPERTY = "C14"
LEAN_MODULE = "Proofs.C14"
_T = "SE.Proofs.C14."
THEOREMS = [_T + n for n in [
    "C14_lattice", "C14_inside", "C14_complete_iff", "C14_incomplete_iff", "C14_duration", "C14_cover",
    "C14_ids_distinct", "C14_rejects_nonpositive", "C14_default_hop", "C14_bound_irrelevant",
    "C14_holds_iff", "C14_pinned_bound_loses_windows",
    # review R-C14
    "C14_count", "C14_bound_ge", "C14_name_injective", "C14_full", "C14_complete_tail",
    # histories
    "C14_history"]]
LEVEL_TEXT = ("Lean theorems over a loop-level model of segment_clip (after fix C14-1: loop bound ceil(duration/hop)), for all "
              "rational clip bounds, durations, hops and both flags: the i-th segment is the lattice window start + i*hop "
              "truncated at the clip end; the result contains exactly the windows that fit (resp. start inside the clip); "
              "the whole result in closed form (the windows 0 .. count-1, count = ceil((e-s)/hop) resp. "
              "floor((e-s-duration)/hop)+1); complete windows last exactly `duration`; coverage when hop <= duration (with "
              "include_incomplete the whole clip, without it all but a tail shorter than one hop); strictly increasing "
              "starts; the name the uuid is computed from, 'segment_clip:<parent>:<start>:<end>', is injective in (parent, "
              "start, end) for an injective colon-free number formatting, hence pairwise distinct within a call; every "
              "segment carries the parent's recording; rejection iff a parameter is non-positive; any loop bound >= "
              "ceil(duration/hop) gives the same result; the executable statement `holds` is satisfied by exactly the "
              "model's result.  The pinned bound floor(duration/hop) is refuted on concrete witnesses.  The model is tied "
              "to the code for all inputs by symbolic traces of the real function (guards, default hop, both breaks, "
              "clamp, lattice formula, name, recording, the quantity rounded for the loop bound) with the loop bound "
              "answered by an oracle n = 0..3, and by exact differential runs on exhaustive dyadic grids.")
LEVEL_NOTE = ("Trusted: Lean kernel, the Python harness and symbolic tracer, the semantics of `for i in range(n)` (the body "
              "traced for n = 0..3 is the body run for every n) and of math.ceil, uuid.uuid5 (SHA-1 collision freedom), "
              "Python's float formatting as the model's `fmt` (round-trip injectivity and absence of ':' are monitored on "
              "every observed bound).  Unmodelled: binary64 rounding of duration/hop, start + i*hop and start + duration "
              "for non-dyadic values - probed in free mode (decimal hops) against the exact model with a one-sliver "
              "allowance at the clip end; NaN / inf.")
TECHNIQUE = ("Lean 4 proof over a loop-level model (induction on the loop bound); symbolic-trace equality obligations "
             "regenerated from the source with an oracle loop bound; exhaustive dyadic-grid correspondence with exact "
             "comparison; recomputed uuid5 names; float monitor in free mode")
RULE = ("histories (segment_history): 160 / 1600 sequences of 3-5 calls in one process - a case, neighbours of it (other flag / "
        "hop / duration / clip end), the case again - on fresh clips and on the previous clip object changed by assignment, "
        "model_copy(update) shallow and deep, deepcopy + assignment; arguments snapshotted around every call; returned "
        "segments edited by the caller (poison) and earlier results re-read after later calls; every step judged by the "
        "model alone (theorem C14_history).  exhaustive dyadic grid of clip start/end x duration x hop (hop <, =, > duration; clip length exact and non-exact "
        "multiples of the hop) x both flags, plus random dyadic cases (floats, ints, numpy float64), clip ends 2^-10..2^-40 "
        "off a lattice point or window end, hops of 2^-22, and decimal cases; non-trivial = the implementation "
        "yielded at least one segment; distinct = distinct (operation, input)")
TRUSTED = ["uuid.uuid5 / SHA-1: distinct names give distinct identifiers",
           "Python float formatting inside an f-string is repr (the model's parameter `fmt`); monitored: round-trips, no ':'",
           "for-loop semantics: the loop body traced symbolically for range(0..3) is the body executed for every range(n)",
           "pydantic Clip construction stores start_time/end_time/recording/uuid unchanged"]
ASSUMPTIONS = ["binary64 arithmetic is exact on the dyadic grids used: e - s, i*hop, s + i*hop, start + duration are sums and "
               "products of dyadics below 2^10 at resolution >= 2^-40; duration/hop is correctly rounded and cannot round "
               "across an integer (grid: numerators below 2^26; fine cases: quotient < 64 and at least 2^-43 from an "
               "integer unless equal to one), so ceil of the float quotient equals ceil of the exact one"]
NOT_COMPARED = ["error messages (only the error class)",
                "free mode: values within 2^-40 relative; one trailing window whose start (or, without include_incomplete, "
                "whose end) is within 2^-40 of the clip end may be present on one side only (float sliver)",
                "the numeric value of a segment uuid is compared with uuid5(namespace, 'segment_clip:<parent>:<start>:<end>') "
                "as a tie of the identifier name (symbolically for all inputs and on every observed segment); a different "
                "formula alone is not reported as a violation unless ids stop being a deterministic injective function of "
                "(parent, start, end)"]

PARENTS = ["7d2e9a4c-1111-4a6b-9c3d-000000000001", "7d2e9a4c-1111-4a6b-9c3d-000000000002"]
_REC = None
_CACHE = {}          # jkey(inp) -> canonical impl output (for the batched `holds` pass)
_UUID_FAILS = []
_FMT_FAILS = []


def _recording():
    global _REC
    if _REC is None:
        from soundevent import data
        _REC = data.Recording(path="rec.wav", duration=100000.0, channels=1, samplerate=8000)
    return _REC


def _f(s, num="float"):
    """the argument as the caller would pass it: a float, an int where the value is integral ("int"), a numpy
    float64 ("np") - the property quantifies over values, not over the Python type that carries them"""
    if s is None:
        return None
    q = frac(s)
    if num == "int" and q.denominator == 1:
        return int(q)
    if num == "np":
        import numpy as np
        return np.float64(float(q))
    return float(q)


def _flag(inp):
    """the flag as a caller may pass it: Python bool, numpy.bool_ (e.g. the result of `(levels > x).any()`), or 0 / 1 -
    the property quantifies over both truth values, not over the object that carries them"""
    rep = inp.get("flag", "bool")
    if rep == "np":
        import numpy as np
        return np.bool_(inp["incl"])
    if rep == "int":
        return int(inp["incl"])
    return bool(inp["incl"])


def _call(inp, parent=PARENTS[0]):
    from soundevent import data
    from soundevent.operations import segment_clip
    num = inp.get("num", "float")
    clip = data.Clip(uuid=_uuid.UUID(parent), recording=_recording(), start_time=_f(inp["start"], num),
                     end_time=_f(inp["end"], num))
    kw = {}
    if inp.get("hop") is not None:
        kw["hop"] = _f(inp["hop"], num)
    if inp.get("style") == "pos":           # the documented positional order: clip, duration, hop, include_incomplete
        return clip, list(segment_clip(clip, _f(inp["duration"], num), kw.get("hop"), _flag(inp)))
    return clip, list(segment_clip(clip, duration=_f(inp["duration"], num), include_incomplete=_flag(inp), **kw))


def _namespace():
    import soundevent.constants as constants
    uuid_namespace = getattr(constants, "uuid_namespace", None)     # tolerant: a renamed constant breaks the tie only
    if not isinstance(uuid_namespace, _uuid.UUID):
        cands = [v for v in vars(constants).values() if isinstance(v, _uuid.UUID)]
        uuid_namespace = cands[0] if len(cands) == 1 else None       # the package's only UUID constant, whatever its name
    return uuid_namespace


def _fmt_ok(x):
    """the hypotheses of C14_name_injective about the number formatting (`fmt` of the model), on one value:
    repr round-trips (so it is injective) and contains no ':'"""
    r = repr(x)
    return ":" not in r and isinstance(x, float) and float(r) == x and (x != 0 or math.copysign(1, float(r)) == math.copysign(1, x))


def _impl_segment(inp):
    uuid_namespace = _namespace()
    clip, segs = _call(inp)
    _clip2, segs2 = _call(inp)          # determinism = two calls
    side = {}
    num = inp.get("num", "float")
    if (clip.start_time, clip.end_time, str(clip.uuid)) != (_f(inp["start"], num), _f(inp["end"], num), PARENTS[0]) \
            or clip.recording is not _recording():
        side["parent_mutated"] = True
    a = [(str(x.uuid), x.start_time, x.end_time) for x in segs]
    b = [(str(x.uuid), x.start_time, x.end_time) for x in segs2]
    if a != b:
        side["nondeterministic"] = True
    if len({x[0] for x in a}) != len(a):
        side["duplicate_ids"] = True
    if any(x.recording is not clip.recording and x.recording != clip.recording for x in segs):
        side["other_recording"] = True
    if ":" in str(clip.uuid) or not all(_fmt_ok(t) for x in segs for t in (x.start_time, x.end_time)):
        side["fmt_contract"] = True
    for x in segs:
        if not isinstance(uuid_namespace, _uuid.UUID):
            side["uuid_formula"] = True
            break
        want = _uuid.uuid5(uuid_namespace, f"segment_clip:{clip.uuid}:{x.start_time}:{x.end_time}")
        if x.uuid != want:
            side["uuid_formula"] = True
            break
    out = {"val": [[rat(x.start_time), rat(x.end_time)] for x in segs]}
    _CACHE[jkey(inp)] = dict(out)
    if side:
        out["_side"] = side
    return out


def _impl_wrapper(inp):
    try:
        return _impl_segment(inp)
    except ValueError:
        _CACHE[jkey(inp)] = {"raise": "invalid"}
        raise


def _holds_side(ctx, inp, io):
    """identifier / recording side conditions observed on the real objects"""
    side = io.pop("_side", None) if isinstance(io, dict) else None
    if isinstance(io, dict) and io.get("val"):
        bad = bool((side or {}).get("fmt_contract"))
        if not bad:
            ctx.tally("contract:float-format-injective-no-colon")
        elif len(_FMT_FAILS) < 3:
            _FMT_FAILS.append(inp)
            ctx.contract("float-format-injective-no-colon", False, inp, io,
                         "a segment bound is not a float whose repr round-trips without ':' (hypothesis of C14_name_injective)")
    if not side:
        return None
    if side.get("nondeterministic"):
        return "two identical calls returned different segments or identifiers"
    if side.get("duplicate_ids"):
        return "two segments of one call share an identifier"
    if side.get("other_recording"):
        return "a segment belongs to another recording than its parent clip"
    if side.get("parent_mutated"):
        return "segment_clip changed its argument: the parent clip's bounds / uuid / recording differ after the call"
    if side.get("uuid_formula") and len(_UUID_FAILS) < 3:
        _UUID_FAILS.append(inp)
        ctx.fail("correspondence", "uuid_formula", inp=inp, impl=io,
                 detail="segment uuid differs from uuid5(uuid_namespace, 'segment_clip:<parent>:<start>:<end>')",
                 extra={"op": "id_classes"})
    return None


def _nontrivial(inp, out):
    return isinstance(out, dict) and bool(out.get("val"))


# ------------------------------------------------------------------ free mode (floats off the dyadic grid)
TOL = 2.0 ** -40


def _close(a, b):
    a, b = frac(a), frac(b)
    return abs(a - b) <= TOL * max(1, abs(b))


_FREE_STATS = {}


def _free_compare(inp, io, mo):
    """implementation (binary64) against the exact model evaluated on the same binary64 values:
    values within 2^-40, at most one trailing window that exists on one side only and lies within
    2^-40 of the clip end (a float sliver)."""
    def st(k):
        _FREE_STATS[k] = _FREE_STATS.get(k, 0) + 1
    if "raise" in io or "raise" in mo:
        return None if io.get("raise") == mo.get("raise") else "implementation and model disagree on the error"
    a, b = io["val"], mo["val"]
    n = min(len(a), len(b))
    for i in range(n):
        if not (_close(a[i][0], b[i][0]) and _close(a[i][1], b[i][1])):
            return f"segment {i} differs from the lattice window by more than 2^-40"
    if len(a) == len(b):
        st("free:same_length")
        if a != b:
            st("free:values_rounded")
        return None
    longer = a if len(a) > len(b) else b
    who = "impl" if len(a) > len(b) else "model"
    if len(longer) - n > 1:
        return f"{who} has {len(longer) - n} more segments"
    e = frac(inp["end"])
    s0, e0 = frac(longer[n][0]), frac(longer[n][1])
    dur = frac(inp["duration"])
    tol = TOL * max(1, abs(e))
    if inp["incl"]:
        if e - s0 <= tol:
            st(f"free:sliver_only_in_{who}")
            return None
        return f"{who} has an extra window starting {float(e - s0):.3g} before the clip end"
    if abs(s0 + dur - e) <= tol:
        st(f"free:borderline_complete_only_in_{who}")
        return None
    return f"{who} has an extra complete window ending {float(e - (s0 + dur)):.3g} before the clip end"


# ------------------------------------------------------------------ identifiers as a function of the key
def _impl_id_classes(inp):
    seen = {}
    out = []
    for c in inp["calls"]:
        try:
            _clip, segs = _call(c, parent=c["parent"])
        except ValueError:
            out.append({"raise": "invalid"})
            continue
        out.append([seen.setdefault(str(x.uuid), len(seen)) for x in segs])
    return {"val": out}


OPS = {
    "segment": Op("segment", _impl_wrapper, holds=_holds_side, nontrivial=_nontrivial, shrink=True,
                  valid=lambda i: frac(i["start"]) <= frac(i["end"])),
    "segment_free": Op("segment_free", _impl_wrapper, holds=_holds_side, nontrivial=_nontrivial,
                       compare=_free_compare, mode="tolerance", model_op="segment"),
    "id_classes": Op("id_classes", _impl_id_classes,
                     nontrivial=lambda i, o: any(isinstance(x, list) and x for x in o.get("val", []))),
}


# ------------------------------------------------------------------ histories (harness/history.py, HISTORIES.md)
def _h_build(inp):
    from soundevent import data
    num = inp.get("num", "float")
    clip = data.Clip(uuid=_uuid.UUID(PARENTS[0]), recording=_recording(), start_time=_f(inp["start"], num),
                     end_time=_f(inp["end"], num))
    return {"clip": clip, "kw": _h_kw(inp)}


def _h_kw(inp):
    num = inp.get("num", "float")
    kw = {"duration": _f(inp["duration"], num), "include_incomplete": _flag(inp)}
    if inp.get("hop") is not None:
        kw["hop"] = _f(inp["hop"], num)
    return kw


def _h_call(args):
    from soundevent.operations import segment_clip
    return list(segment_clip(args["clip"], **args["kw"]))


def _h_canon(inp, args, res):
    return {"val": [[rat(x.start_time), rat(x.end_time)] for x in res]}


def _h_snapshot(args):
    c = args["clip"]
    return [rat(c.start_time), rat(c.end_time), str(c.uuid), id(c.recording), jkey(args["kw"])]


def _h_modify(args, inp, how):
    """the clip object of the previous step, changed to the bounds of this step: by assignment, by
    model_copy(update=...) or by a (deep) copy that is then assigned to - nothing the clip remembered from its
    earlier use may survive the change (Clip is not frozen)"""
    import copy
    num = inp.get("num", "float")
    clip, s, e = args["clip"], _f(inp["start"], num), _f(inp["end"], num)
    if how == "assign":
        if e >= clip.start_time:
            clip.end_time, clip.start_time = e, s
        else:
            clip.start_time, clip.end_time = s, e
    elif how == "copy_update":
        clip = clip.model_copy(update={"start_time": s, "end_time": e})
    elif how == "deep_copy_update":
        clip = clip.model_copy(update={"start_time": s, "end_time": e}, deep=True)
    elif how == "deepcopy_assign":
        clip = copy.deepcopy(clip)
        clip.start_time, clip.end_time = min(s, clip.start_time), e
        clip.start_time = s
    else:
        return None
    return {"clip": clip, "kw": _h_kw(inp)}


def _h_poison(res):
    """the caller edits what it got back (a returned segment is the caller's): nothing may be shared with later calls"""
    if not res:
        return False
    res[0].end_time = res[0].end_time + 1000.0
    res.append(res[0])
    return True


H_REUSE = ("assign", "copy_update", "deep_copy_update", "deepcopy_assign")


def _h_variants(x, rng):
    """neighbours of a case: the same clip with another flag / hop / duration, and a longer or shifted clip"""
    out = []
    out.append({**x, "incl": not x["incl"]})
    d = frac(x["duration"])
    if d > 0:
        out.append({**x, "hop": rat(d * rng.choice([Fraction(1, 2), 2, 3]))})
        out.append({**x, "duration": rat(d * rng.choice([Fraction(1, 2), 2]))})
    e, s0 = frac(x["end"]), frac(x["start"])
    out.append({**x, "end": rat(e + rng.choice([1, 3, Fraction(5, 2), 10]))})
    if e - s0 > 1:
        out.append({**x, "end": rat(e - 1)})
    out.append({**x, "start": rat(s0 + Fraction(1, 2)), "end": rat(e + Fraction(1, 2))})
    return [v for v in out if frac(v["start"]) <= frac(v["end"])]


OPS["segment_history"] = history.history_op(
    "segment_history", Op("segment", None, nontrivial=_nontrivial), _h_build, _h_call, _h_canon,
    snapshot=_h_snapshot, modify=_h_modify, poison=_h_poison)


# ------------------------------------------------------------------ generators
def _case(s, e, dur, hop, incl):
    return {"start": rat(s), "end": rat(e), "duration": rat(dur), "hop": None if hop is None else rat(hop), "incl": incl}


def _grid_cases(top, den_clip=2, qmax=20):
    pts = [Fraction(i, den_clip) for i in range(0, top + 1)]
    qs = [Fraction(i, 4) for i in range(1, qmax + 1)]
    for s, e in itertools.combinations_with_replacement(pts, 2):
        for dur in qs:
            for hop in [None] + qs:
                for incl in (False, True):
                    yield _case(s, e, dur, hop, incl)


def _malformed_cases():
    bad = [Fraction(0), Fraction(-1, 4), Fraction(-3)]
    good = [Fraction(1, 4), Fraction(2)]
    for s, e in [(0, 0), (0, 5), (Fraction(1, 2), 3)]:
        for incl in (False, True):
            for d in bad:
                for h in [None] + bad + good:
                    yield _case(s, e, d, h, incl)
            for d in good:
                for h in bad:
                    yield _case(s, e, d, h, incl)


def _random_dyadic(rng, n):
    for _ in range(n):
        k = rng.choice([0, 1, 2, 3, 6])
        q = 1 << k
        hop = Fraction(rng.randint(1, 8 * q), q)
        r = rng.random()
        if r < 0.3:
            dur = hop
        elif r < 0.6:
            dur = hop * rng.randint(1, 4) + Fraction(rng.randint(0, q), q)
        else:
            dur = Fraction(rng.randint(1, 8 * q), q)
        s = Fraction(rng.randint(0, 1000 * q), q) if rng.random() < 0.7 else Fraction(0)
        m = rng.randint(0, 60)
        r = rng.random()
        if r < 0.4:
            e = s + m * hop                              # exact multiple of the hop
        elif r < 0.6:
            e = s + m * hop + dur                        # last complete window ends at the clip end
        elif r < 0.8:
            e = s + m * hop + Fraction(rng.choice([-1, 1]), q)
        else:
            e = s + Fraction(rng.randint(0, 300 * q), q)
        if e < s:
            e = s
        yield _case(s, e, dur, None if (dur == hop and rng.random() < 0.5) else hop, rng.random() < 0.5)


def _typed_grid_cases():
    """integral values passed as Python ints and as numpy float64 (a fast path for one number type)"""
    pts = list(range(0, 7))
    qs = list(range(1, 6))
    for num in ("int", "np"):
        for s, e in itertools.combinations_with_replacement(pts, 2):
            for dur in qs:
                for hop in [None] + qs:
                    for incl in (False, True):
                        yield {**_case(s, e, dur, hop, incl), "num": num}


def _fine_cases(rng, n):
    """clip ends (and starts) a tiny dyadic step 2^-k, k = 10..40, off a lattice point or off the end of a
    window: the comparisons of the loop decided by a difference far below the grid step.  All values stay
    exact in binary64 (magnitudes < 2^10 at resolution 2^-40) and (e - s) / hop < 64 is at least 2^-43 away
    from an integer unless it is one, so the float quotient cannot round across an integer."""
    for _ in range(n):
        q = 4
        hop = Fraction(rng.randint(1, 8 * q), q)
        r = rng.random()
        dur = hop if r < 0.3 else (Fraction(rng.randint(1, 8 * q), q))
        s = Fraction(rng.randint(0, 64 * q), q) if rng.random() < 0.7 else Fraction(0)
        m = rng.randint(0, 20)
        eps = Fraction(rng.choice([-1, 1]), 1 << rng.choice([10, 20, 30, 36, 40]))
        e = s + m * hop + (dur if rng.random() < 0.5 else 0) + eps
        r = rng.random()
        if r < 0.25:
            s, e = s + eps, e + eps                    # the whole clip off the grid, its length on it
        elif r < 0.4:
            s = s - eps if s - eps >= 0 else s + abs(eps)
        if e < s:
            e = s
        yield _case(s, e, dur, None if (dur == hop and rng.random() < 0.5) else hop, rng.random() < 0.5)


def _tiny_hop_cases():
    """hops of 2^-22 s: starts that differ by less than a microsecond must still give distinct segments and ids"""
    h = Fraction(1, 1 << 22)
    for s in (Fraction(0), Fraction(1), Fraction(37, 8)):
        for j in range(0, 13):
            for dur in (h, 2 * h, 3 * h):
                for hop in (None, h, 2 * h):
                    for incl in (False, True):
                        yield _case(s, s + j * h, dur, hop, incl)


def _free_cases(rng, n):
    """decimal (non-dyadic) hops; the floats are what a user would type"""
    for _ in range(n):
        k = rng.choice([1, 1, 2, 3])
        q = 10 ** k
        hn = rng.randint(1, 30 * q // 10)
        r = rng.random()
        dn = hn if r < 0.3 else (hn * rng.randint(1, 3) + rng.randint(0, q // 2) if r < 0.6 else rng.randint(1, 3 * q))
        sn = rng.randint(0, 50 * q) if rng.random() < 0.6 else 0
        m = rng.randint(0, 80)
        r = rng.random()
        if r < 0.5:
            en = sn + m * hn                              # a decimal multiple of the hop
        elif r < 0.7:
            en = sn + m * hn + dn
        else:
            en = sn + rng.randint(0, 60 * q)
        s, e, dur, hop = sn / q, en / q, dn / q, hn / q
        r = rng.random()
        if r < 0.1:                                       # adversarial: one ulp around a float multiple
            e = math.nextafter(s + m * hop, math.inf if r < 0.05 else -math.inf)
        if e < s:
            e = s
        yield _case(s, e, dur, None if (dn == hn and rng.random() < 0.5) else hop, rng.random() < 0.6)


def _id_directed_cases(rng, n):
    """identifier collisions a sloppy name could produce: decimal bounds whose digits concatenate ambiguously
    ('1.5' + '12.5' = '1.51' + '2.5'), the same bounds under two parents, the same start with another end, the
    same end with another start"""
    big = Fraction(1000)
    for _ in range(n):
        a, d, x = rng.randint(1, 8), rng.randint(1, 9), rng.randint(1, 9)
        y = rng.randint(a + 1, 9)
        A, B = Fraction(f"{a}.{d}"), Fraction(f"{x}{y}.5")
        A2, B2 = Fraction(f"{a}.{d}{x}"), Fraction(f"{y}.5")
        one = lambda s, e, parent: {**_case(s, e, big, None, True), "parent": parent}    # noqa: E731
        yield {"calls": [one(A, B, PARENTS[0]), one(A2, B2, PARENTS[0])]}
        yield {"calls": [one(A, B, PARENTS[0]), one(A, B, PARENTS[1]), one(A, B, PARENTS[0])]}
        yield {"calls": [one(A, B, PARENTS[0]), one(A, B2 + 20, PARENTS[0]), one(A2, B, PARENTS[0])]}
        # '<start>:<end>' read as one string must still split uniquely: (1.5, 2.5) / (1.52, 5) style
        yield {"calls": [one(Fraction(f"{a}.{d}"), Fraction(f"{y}.{x}"), PARENTS[0]),
                         one(Fraction(f"{a}.{d}{y}"), Fraction(f"{y}{x}"), PARENTS[0])]}


def _id_cases(rng, n):
    for _ in range(n):
        calls = []
        base = _case(Fraction(rng.randint(0, 4), 2), Fraction(rng.randint(6, 16), 2),
                     Fraction(rng.randint(1, 8), 2), Fraction(rng.randint(1, 8), 2), rng.random() < 0.5)
        for _j in range(rng.randint(2, 4)):
            c = dict(base)
            r = rng.random()
            if r < 0.25:
                pass                                       # the same call again
            elif r < 0.5:
                c["duration"] = rat(frac(c["duration"]) + Fraction(rng.randint(1, 3), 2))   # same starts, other ends
            elif r < 0.7:
                c["incl"] = not c["incl"]
            elif r < 0.85:
                c["hop"] = rat(frac(c["hop"]) * 2)         # a sub-lattice: shared keys
            else:
                c["start"] = rat(frac(c["start"]) + Fraction(1, 2))
            c["parent"] = PARENTS[0] if rng.random() < 0.7 else PARENTS[1]
            calls.append(c)
        calls[0]["parent"] = PARENTS[0]
        yield {"calls": calls}


def _tally(ctx, inputs):
    for c in inputs:
        d, h = frac(c["duration"]), (None if c["hop"] is None else frac(c["hop"]))
        if d <= 0 or (h is not None and h <= 0):
            ctx.tally("params:nonpositive")
            continue
        if h is None:
            ctx.tally("hop:None")
            h = d
        ctx.tally("hop<dur" if h < d else ("hop=dur" if h == d else "hop>dur"))
        length = frac(c["end"]) - frac(c["start"])
        ctx.tally("clip:empty" if length == 0 else
                  ("clip:exact_multiple_of_hop" if (length / h).denominator == 1 else "clip:non_multiple_of_hop"))
        ctx.tally("incl:" + str(c["incl"]))


def _holds_pass(ctx, inputs):
    """the Lean-side executable statement of the property (`Segment.holds`, characterised by
    theorem C14_holds_iff) on the implementation's observed results, batched"""
    todo, args = [], []
    for c in inputs:
        io = _CACHE.get(jkey(c))
        if io is None:
            continue
        todo.append((c, io))
        args.append({**c, "out": io})
    res = ctx.model_many("holds", args)
    bad = 0
    for (c, io), ok in zip(todo, res):
        if ok is not True:
            bad += 1
            if bad <= 50:
                ctx.fail("property", "segment", inp=c, impl=io, model=None,
                         detail="the observed result is not the list of lattice windows of the clip "
                                "(Segment.holds = false): a window is missing, extra, or misplaced")
    ctx.tally("holds_evaluated", len(todo))


def _run_exact(ctx, inputs):
    inputs = list(inputs)
    _tally(ctx, inputs)
    _CACHE.clear()
    ctx.run_cases(OPS["segment"], inputs)
    _holds_pass(ctx, inputs)
    _CACHE.clear()


def _stage_grid(ctx):
    top, den = (24, 4) if ctx.thorough() else (12, 2)
    _run_exact(ctx, _malformed_cases())
    _run_exact(ctx, _grid_cases(top, den))
    ctx.exhaustive["segment grid"] = (f"clip start <= end in i/{den}, i=0..{top}; duration in j/4, j=1..20; hop None or j/4, "
                                      "j=1..20; both flags")


def _with_types(rng, cases):
    for c in cases:
        r = rng.random()
        c = {**c, "num": "int"} if r < 0.15 else ({**c, "num": "np"} if r < 0.25 else c)
        r = rng.random()
        if r < 0.2:
            c = {**c, "flag": "np"}
        elif r < 0.3:
            c = {**c, "flag": "int"}
        if rng.random() < 0.2:
            c = {**c, "style": "pos"}
        yield c


def _stage_random(ctx):
    _run_exact(ctx, _with_types(ctx.rng, _random_dyadic(ctx.rng, ctx.budget(3000, 40000))))
    _run_exact(ctx, _typed_grid_cases())
    ctx.exhaustive["segment typed grid"] = ("integral clip start <= end in 0..6, duration 1..5, hop None or 1..5, both flags, "
                                            "passed as Python ints and as numpy float64")
    _run_exact(ctx, _fine_cases(ctx.rng, ctx.budget(3000, 30000)))
    _run_exact(ctx, _tiny_hop_cases())


def _stage_ids(ctx):
    ctx.run_cases(OPS["id_classes"], _id_cases(ctx.rng, ctx.budget(300, 3000)))
    ctx.run_cases(OPS["id_classes"], _id_directed_cases(ctx.rng, ctx.budget(60, 600)))


def _stage_free(ctx):
    free = list(_free_cases(ctx.rng, ctx.budget(3000, 40000)))
    ctx.run_cases(OPS["segment_free"], free)
    for k, v in sorted(_FREE_STATS.items()):
        ctx.tally(k, v)
    _FREE_STATS.clear()


def _symbolic_ties(ctx):
    """Tie 1b: the real segment_clip on symbolic numbers, the loop bound answered by an oracle (harness/c14_sym.py)"""
    from .. import c14_sym
    import soundevent.operations as ops
    c14_sym.register(ctx, ops, _namespace(), _recording(), [0, 1, 2, 3, 4] if ctx.thorough() else [0, 1, 2, 3])


def _stage_histories(ctx):
    """consecutive calls in one process: the same clip with other options, a clip object that is changed and
    used again (assignment / model_copy), results edited by the caller, results compared after later calls"""
    rng = ctx.rng
    base = [c for c in _random_dyadic(rng, ctx.budget(120, 1200))]
    base += [_case(0, 10, 3, 2, True), _case(0, 9, 2, 2, False), _case(4, 14, 2, None, False), _case(2, 5, 4, 1, True)]
    hs = history.sequences(rng, base, ctx.budget(160, 1600), variants=_h_variants, reuse_hows=H_REUSE, poison=True)
    for h in hs:
        for st in h["seq"]:
            ctx.tally("history:" + (st.get("reuse") or "fresh") + ("+poison" if st.get("poison") else ""))
    ctx.run_cases(OPS["segment_history"], hs)


def run(ctx):
    ctx.stage("symbolic-ties", _symbolic_ties, ctx)
    ctx.stage("discharge", ctx.discharge, ["SoundeventModel.Segment", "SoundeventModel.Tactics"])
    ctx.stage("corpus", ctx.run_corpus, OPS)
    ctx.stage("exhaustive-grid", _stage_grid, ctx)
    ctx.stage("random-dyadic", _stage_random, ctx)
    ctx.stage("identifier-keys", _stage_ids, ctx)
    ctx.stage("histories", _stage_histories, ctx)
    ctx.stage("free-mode-monitor", _stage_free, ctx)


def search(ctx, failures):
    """a tie broke (uuid formula, correspondence): look for an input on which the property itself fails"""
    ctx.run_cases(OPS["id_classes"], _id_cases(ctx.rng, 2000))
    ctx.run_cases(OPS["id_classes"], _id_directed_cases(ctx.rng, 300))
    _run_exact(ctx, _tiny_hop_cases())
    _run_exact(ctx, _fine_cases(ctx.rng, 5000))
    _run_exact(ctx, _typed_grid_cases())
    _run_exact(ctx, _grid_cases(12, 2))
