"""C07 — Matching is an optimal one-to-one assignment that covers every geometry once."""
import contextlib
import itertools
from fractions import Fraction

import numpy as np

from ..core import Op, jkey
from ..rat import rat, frac
from .. import gen_geom

PROPERTY = "C07"
LEAN_MODULE = "Proofs.C07"
_T = "SE.Proofs.C07."
THEOREMS = [_T + n for n in [
    "C07_contract_decidable", "C07_total", "C07_cover", "C07_cover_count", "C07_positive_pairs",
    "C07_positive_assigned_reported", "C07_reported_affinity", "C07_unpaired_zero",
    "bestValue_upper", "bestValue_attained", "C07_optimal", "C07_optimal_complete",
    "C07_total_le_best", "C07_optimal_of_solver", "C07_empty", "C07_no_overlap_all_unpaired",
    "C07_holds_iff", "C07_model_holds",
    # review: optimality by certificate (any size), every valid assignment, the matrix-fill loop, geometry level
    "C07_weak_duality", "C07_cert_best", "C07_optimal_cert_iff", "C07_optimal_by_cert", "C07_holds_by_cert",
    "C07_shape_any_valid", "C07_length", "C07_sortEntries_perm", "C07_matrix_is_affinity", "C07_geometries"]]
LEVEL_TEXT = ("Lean theorems over the model of match_geometries (matrix-fill loop, _select_matches, emission; compute_affinity and "
              "scipy's assignment are parameters, the latter under the explicit ValidAssignment hypothesis): every source and target "
              "index occurs exactly once, pairs only with positive affinity, reported affinity = affinity of that pair of geometries, "
              "unpaired report 0, empty cases (C07_geometries states all of it on the geometries); the brute-force optimum bestValue is "
              "proved to bound every partial injection and to be attained; weak duality is proved, so that a checked certificate "
              "(potentials + witness) pins the optimum for matrices of any size (C07_cert_best); the executable predicate `holds` "
              "(brute force or certificate: C07_holds_by_cert) is proved equivalent to the property, so its evaluation on every real "
              "output of match_geometries means the property (optimality within 2^-40, exact on dyadic matrices). For every shape "
              "(n, m) in {0..3}^2 and every answer scipy's contract allows, match_geometries is traced on symbolic affinities and "
              "proved equal to the model for all rational entries.")
LEVEL_NOTE = ("Unmodelled: the Hungarian/LAPJV algorithm of scipy.optimize.linear_sum_assignment (its answer is a parameter; "
              "ValidAssignment and optimality are checked on every answer against the verified brute force up to 5x5 quick / 7x7 "
              "thorough and against a Lean-checked duality certificate beyond); compute_affinity (C06) supplies the matrix; binary64 "
              "summation inside scipy (tolerance 2^-40). Beyond the symbolic ties at fixed small shapes the model is tied to the code by "
              "generator-bounded correspondence (real geometries, stubbed-affinity matrices, stubbed solver answers; exhaustive small "
              "scopes). The symbolic ties replace numpy's zeros/array, float, compute_affinity and linear_sum_assignment inside the "
              "traced module by stubs.")
TECHNIQUE = ("Lean 4 proof over model with the solver as a parameter; verified brute-force optimum and Lean-checked LP-duality "
             "certificates as run-time monitors; symbolic-trace equality obligations at fixed shapes; exhaustive small-scope and "
             "random correspondence")
RULE = ("lists of 0-5 (thorough 0-7) geometries on tie-rich grids (near-miss instants, slivers, zero-width boxes, aliased lists), "
        "long lists up to 10 (16), exhaustive lists over a small pool, random geometries of all types, exhaustive / random affinity "
        "matrices (up to 12x12, thorough 25x25, tiny entries) through the real match_geometries with compute_affinity stubbed, and "
        "with the solver's answer stubbed as well; non-trivial = at least one source and one target; distinct = distinct "
        "(operation, input)")
TRUSTED = ["scipy.optimize.linear_sum_assignment (answer checked per case: ValidAssignment, optimal within tolerance)",
           "compute_affinity as the supplier of the matrix (property C06)",
           "the stubs replacing compute_affinity (a table lookup) and linear_sum_assignment (a given answer) in the matrix / solver "
           "operations, and numpy zeros/array + float in the symbolic traces (object arrays holding symbolic numbers)",
           "nothing about the certificate generator (exact Hungarian method in the harness): Lean checks every certificate"]
ASSUMPTIONS = ["scipy's answer is a valid assignment (monitored on every case)",
               "optimality is checked up to 2^-40 on real geometries (scipy sums binary64 values, the model exact rationals), "
               "exactly on dyadic matrices",
               "ordered-field semantics for the symbolic ties (no rounding)"]
NOT_COMPARED = ["order of the yielded matches (compared as a sorted multiset; the symbolic ties compare sorted lists, "
                "C07_sortEntries_perm)",
                "tie-breaking among equally good assignments (an output that differs from the model's only by the "
                "solver's choice among optimal assignments is accepted when it satisfies `holds` and equals the model "
                "run on its own pairs)",
                "behaviour when the solver's answer violates scipy's contract (repeated row, index out of range): modelled "
                "(LoopErr), exercised, agreement only tallied",
                "types of the yielded indices (int vs numpy integer) and the sign of a zero affinity"]

TOL = Fraction(1, 2 ** 40)
_CTX = None
_CACHE = {}
_OWN_DRIVER = None


def _model(op, args):
    """the model through the running check, or (in --replay mode, where run() is not called) an own driver"""
    global _OWN_DRIVER
    if _CTX is not None:
        return _CTX.model(op, args)
    if _OWN_DRIVER is None:
        from .. import leanio
        _OWN_DRIVER = leanio.Driver()
    return _OWN_DRIVER.call(PROPERTY, op, args)


def _f(s):
    return float(frac(s))


def _canon(triples):
    out = [[None if s is None else int(s), None if t is None else int(t), rat(float(a))] for s, t, a in triples]
    out.sort(key=lambda e: (e[0] is None, -1 if e[0] is None else e[0], e[1] is None, -1 if e[1] is None else e[1], e[2]))
    return out


def _sort_entries(es):
    return sorted(es, key=lambda e: (e[0] is None, -1 if e[0] is None else e[0], e[1] is None,
                                     -1 if e[1] is None else e[1], e[2]))


def _solve(matrix_f):
    """the assignment exactly as `_select_matches` asks for it"""
    from scipy.optimize import linear_sum_assignment
    r, c = linear_sum_assignment(matrix_f, maximize=True)
    return [[int(a), int(b)] for a, b in zip(r, c)]


# ---------------------------------------------------------------- real geometries
def _geoms(inp):
    src = [gen_geom.to_data(g) for g in inp["source"]]
    if inp.get("alias"):
        # the very same list object on both sides (inp["target"] repeats inp["source"])
        return src, src
    return src, [gen_geom.to_data(g) for g in inp["target"]]


def _impl_match(inp):
    from soundevent.evaluation import match_geometries
    src, tgt = _geoms(inp)
    out = list(match_geometries(src, tgt, time_buffer=_f(inp["tb"]), freq_buffer=_f(inp["fb"])))
    return {"val": _canon(out)}


def _matrix_of(inp):
    """affinity matrix by the real compute_affinity, and scipy's answer on it (cached per input)"""
    k = jkey(inp)
    if k not in _CACHE:
        if len(_CACHE) > 4096:
            _CACHE.clear()
        from soundevent.evaluation import compute_affinity
        src, tgt = _geoms(inp)
        m = np.zeros((len(src), len(tgt)))
        for i, a in enumerate(src):
            for j, b in enumerate(tgt):
                m[i, j] = compute_affinity(a, b, time_buffer=_f(inp["tb"]), freq_buffer=_f(inp["fb"]))
        _CACHE[k] = {"n": len(src), "m": len(tgt), "matrix": [[rat(float(x)) for x in row] for row in m],
                     "assigned": _solve(m)}
    return _CACHE[k]


def _geoms_args(inp):
    """request for `matchGeometries`: the lists as indices into the pool of distinct geometries and the table of
    compute_affinity on the pool; the model fills the matrix itself (`fillMatrix`)"""
    a = _matrix_of(inp)
    pool = {}
    si = [pool.setdefault(jkey(g), len(pool)) for g in inp["source"]]
    ti = [pool.setdefault(jkey(g), len(pool)) for g in inp["target"]]
    table = [["0"] * len(pool) for _ in pool]
    for i, p_ in enumerate(si):
        for j, q_ in enumerate(ti):
            table[p_][q_] = a["matrix"][i][j]
    return {"source": si, "target": ti, "table": table, "assigned": a["assigned"]}


# ---------------------------------------------------------------- stubbed affinity (arbitrary matrices)
def _impl_matrix(inp):
    """the real match_geometries with compute_affinity replaced by a lookup in the given matrix"""
    mat = [[_f(x) for x in row] for row in inp["matrix"]]
    src, tgt, ids_s, ids_t = _stub_geoms(inp["n"], inp["m"])

    def stub(g1, g2, *a, **kw):
        return mat[ids_s[id(g1)]][ids_t[id(g2)]]
    with _patched(compute_affinity=stub) as M:
        out = list(M.match_geometries(src, tgt))
    return {"val": _canon(out)}


def _matrix_args(inp):
    mf = np.array([[_f(x) for x in row] for row in inp["matrix"]], dtype=float).reshape(inp["n"], inp["m"])
    return {"n": inp["n"], "m": inp["m"], "matrix": inp["matrix"], "assigned": _solve(mf)}


# ---------------------------------------------------------------- replacing names the code reaches
_MODS = []


@contextlib.contextmanager
def _patched(**repl):
    """replace `name` wherever match_geometries may look it up (its own module, the affinity module, the
    package, scipy.optimize): a rewrite that reaches the same function through another of these names
    keeps the stubs effective"""
    if not _MODS:
        import importlib
        for mn in ("soundevent.evaluation.match", "soundevent.evaluation.affinity", "soundevent.evaluation", "scipy.optimize"):
            try:
                _MODS.append(importlib.import_module(mn))
            except Exception:  # noqa: BLE001
                pass
    mods = _MODS
    saved = []
    for name, fn in repl.items():
        for mod in mods:
            if hasattr(mod, name):
                saved.append((mod, name, getattr(mod, name)))
                setattr(mod, name, fn)
    try:
        yield mods[0]
    finally:
        for mod, name, old in reversed(saved):
            setattr(mod, name, old)


def _stub_geoms(n, m):
    from soundevent import data
    src = [data.TimeStamp(coordinates=float(i)) for i in range(n)]
    tgt = [data.TimeStamp(coordinates=float(j)) for j in range(m)]
    return src, tgt, {id(g): i for i, g in enumerate(src)}, {id(g): j for j, g in enumerate(tgt)}


# ---------------------------------------------------------------- optimality certificates (any size)
def _certificate(rows, n, m):
    """Untrusted helper: exact (Fraction) Hungarian method on the zero-padded square matrix.  Returns row
    potentials u, column potentials v (all >= 0, aff[i][j] <= u[i] + v[j]) and a witness pairing whose value is
    sum(u) + sum(v).  Lean *checks* the certificate (`certOk`, theorem C07_cert_best); nothing here is trusted."""
    N = max(n, m)
    if N == 0 or n == 0 or m == 0:
        return [Fraction(0)] * n, [Fraction(0)] * m, []
    w = [[(max(rows[i][j], Fraction(0)) if i < n and j < m else Fraction(0)) for j in range(N)] for i in range(N)]
    u = [Fraction(0)] * (N + 1)
    v = [Fraction(0)] * (N + 1)
    p = [0] * (N + 1)
    way = [0] * (N + 1)
    for i in range(1, N + 1):
        p[0] = i
        j0 = 0
        minv = [None] * (N + 1)
        used = [False] * (N + 1)
        while True:
            used[j0] = True
            i0 = p[j0]
            delta = None
            j1 = None
            for j in range(1, N + 1):
                if not used[j]:
                    cur = -w[i0 - 1][j - 1] - u[i0] - v[j]
                    if minv[j] is None or cur < minv[j]:
                        minv[j] = cur
                        way[j] = j0
                    if delta is None or minv[j] < delta:
                        delta = minv[j]
                        j1 = j
            for j in range(N + 1):
                if used[j]:
                    u[p[j]] += delta
                    v[j] -= delta
                elif minv[j] is not None:
                    minv[j] -= delta
            j0 = j1
            if p[j0] == 0:
                break
        while True:
            j1 = way[j0]
            p[j0] = p[j1]
            j0 = j1
            if j0 == 0:
                break
    big_u = [-u[i] for i in range(1, N + 1)]
    big_v = [-v[j] for j in range(1, N + 1)]
    c = min(big_v)
    big_u = [x + c for x in big_u]
    big_v = [x - c for x in big_v]
    witness = [[p[j] - 1, j - 1] for j in range(1, N + 1)
               if p[j] - 1 < n and j - 1 < m and rows[p[j] - 1][j - 1] > 0]
    witness.sort()
    return big_u[:n], big_v[:m], witness


def _cert_args(a):
    k = "cert"
    if k not in a:
        rows = [[frac(x) for x in row] for row in a["matrix"]]
        u, v, w = _certificate(rows, a["n"], a["m"])
        a[k] = {"u": [rat(x) for x in u], "v": [rat(x) for x in v], "witness": w}
    return a[k]


BRUTE = 5      # brute-force optimum (factorial) up to BRUTE x BRUTE in quick, 7 x 7 in thorough; beyond: certificate


def _brute_limit(ctx):
    return ctx.budget(BRUTE, 7)


# ---------------------------------------------------------------- the solver's answer as an adversarial parameter
_ORIENT = {"square_transposed": False}


def _solver_stub(n, m, asg, seen=None):
    """stands for linear_sum_assignment: returns the given pairs whatever the matrix.  A rewrite may hand the
    solver the transposed matrix (and swap the answer back): the orientation is read off the shape, for square
    matrices off a probe made by `_solver_selftest`; the answer is then given for the transposed problem."""
    def solver(cost, *a, **kw):
        shp = tuple(np.shape(cost))
        if seen is not None:
            seen.append(cost)
        if n != m:
            transposed = shp == (m, n)
            if not transposed and shp != (n, m):
                raise RuntimeError(f"solver stub: unexpected matrix shape {shp}")
        else:
            if shp != (n, m):
                raise RuntimeError(f"solver stub: unexpected matrix shape {shp}")
            transposed = _ORIENT["square_transposed"]
        pairs = sorted((c, r) for r, c in asg) if transposed else [(r, c) for r, c in asg]
        return np.array([x for x, _ in pairs], dtype=int), np.array([y for _, y in pairs], dtype=int)
    return solver


def _impl_solver(inp):
    """the real match_geometries with compute_affinity replaced by a table lookup *and*
    linear_sum_assignment replaced by a given answer"""
    mat = [[_f(x) for x in row] for row in inp["matrix"]]
    src, tgt, ids_s, ids_t = _stub_geoms(inp["n"], inp["m"])

    def aff(g1, g2, *a, **kw):
        return mat[ids_s[id(g1)]][ids_t[id(g2)]]
    solver = _solver_stub(inp["n"], inp["m"], inp["assigned"], inp.get("_seen"))
    with _patched(compute_affinity=aff, linear_sum_assignment=solver) as M:
        out = list(M.match_geometries(src, tgt))
    return {"val": _canon(out)}


def _compare_solver(inp, io, mo):
    c = _model("shape", {"n": inp["n"], "m": inp["m"], "matrix": inp["matrix"], "out": io.get("val", []),
                         "assigned": inp["assigned"]})
    if not c["valid"]:
        # outside scipy's contract: the property says nothing; not compared, only tallied
        if _CTX is not None:
            same = ("raise" in io) == ("raise" in mo) and ("raise" not in io or io["raise"] == mo["raise"])
            _CTX.tally("invalid solver answer: code and model " + ("agree" if same else "differ (not compared)"))
        return None
    if "raise" in io or "raise" in mo:
        return "match_geometries raised on a valid assignment" if "raise" in io else "model raised"
    if io["val"] != _sort_entries(mo["val"]):
        return "match_geometries and selectMatches disagree on a given valid assignment"
    if not c["all"]:
        return "cover / positive pairs / reported affinity fail for a given valid assignment"
    return None


def _solver_args(inp):
    return {"n": inp["n"], "m": inp["m"], "matrix": inp["matrix"], "assigned": inp["assigned"]}


# ---------------------------------------------------------------- compare / monitor
def _mk_compare(args_of):
    def compare(inp, io, mo):
        if "raise" in io or "raise" in mo:
            a = {k: v for k, v in io.items() if k != "trace"}
            return None if a == mo else "implementation and model disagree (exception)"
        got = io["val"]
        want = _sort_entries(mo["val"])
        if got == want:
            return None
        # tie-breaking is not part of the property: accept an output that is the model run on the
        # implementation's own pairs (the monitor `holds` has judged its optimality already)
        a = dict(args_of(inp))
        a["assigned"] = [[e[0], e[1]] for e in got if e[0] is not None and e[1] is not None]
        alt = _model("match", a)
        if "val" in alt and _sort_entries(alt["val"]) == got:
            if _CTX is not None:
                _CTX.tally("tie-break differs from scipy-as-called")
            return None
        return "match_geometries and selectMatches(scipy's assignment) disagree"
    return compare


_XCHECK = [0]


def _mk_holds(args_of, tol):
    def holds(ctx, inp, io):
        if "raise" in io:
            return "match_geometries raised " + str(io["raise"])
        a = args_of(inp)
        n, m = a["n"], a["m"]
        ctx.tally(f"size:{n}x{m}" if max(n, m) <= 7 else f"size:{'8-12' if max(n, m) <= 12 else '13+'}")
        zero_pairs = sum(1 for r, c in a["assigned"] if frac(a["matrix"][r][c]) <= 0)
        if zero_pairs:
            ctx.tally("cases where scipy assigned a zero-affinity pair")
        base = {"n": n, "m": m, "matrix": a["matrix"], "tol": rat(tol)}
        lim = _brute_limit(ctx)
        _XCHECK[0] += 1
        big = n > lim or m > lim
        if big or _XCHECK[0] % 16 == 0:
            # optimum by certificate (Lean checks the certificate: C07_cert_best / C07_holds_by_cert)
            cert = _cert_args(a)
            cargs = dict(base, u=cert["u"], v=cert["v"], witness=cert["witness"])
            vc = ctx.model("holds_cert", dict(cargs, out=io["val"]))
            if not vc["cert"]:
                ctx.tally("certificate rejected by Lean (harness helper; optimality then by brute force or not judged)")
                if big:
                    ctx.fail("obligation", "optimality certificate", inp=inp,
                             detail="the harness could not produce a certificate Lean accepts")
            else:
                ctx.tally("optimality judged by certificate" if big else "certificate cross-checked with the brute force")
        if big:
            if not vc["cert"]:
                return None
            c = ctx.model("contract_cert", dict(cargs, assigned=a["assigned"]))
            v = vc
        else:
            v = ctx.model("holds_contract", dict(base, out=io["val"], assigned=a["assigned"]))
            c = {"valid": v["solver_valid"], "optimal": v["solver_optimal"], "value": v["solver_value"], "best": v["best"]}
            if _XCHECK[0] % 16 == 0 and vc["cert"] and (vc["all"] != v["all"] or vc["best"] != v["best"]):
                ctx.fail("obligation", "optimality certificate", inp=inp,
                         detail="certificate verdict differs from the brute force (contradicts C07_holds_by_cert)")
        # scipy's contract, evaluated on what scipy returned for this matrix
        ctx.contract("ValidAssignment", c["valid"], inp, a["assigned"])
        ctx.contract("solver optimal within tolerance", c["optimal"], inp,
                     {"assigned": a["assigned"], "value": c["value"], "best": c["best"]})
        if v["all"]:
            return None
        bad = [k for k in ("cover_src", "cover_tgt", "entries", "optimal") if not v[k]]
        msg = {"cover_src": "a source index is missing or repeated",
               "cover_tgt": "a target index is missing or repeated",
               "entries": "a pair with non-positive affinity, a reported affinity that is not the pair's affinity, "
                          "or a non-zero one-sided match",
               "optimal": f"sum of reported affinities {v['total']} below the optimum {v['best']}"}
        return "C07 fails: " + "; ".join(msg[k] for k in bad)
    return holds


def _nontrivial(inp, out):
    if "val" not in out:
        return False
    if "source" in inp:
        return len(inp["source"]) > 0 and len(inp["target"]) > 0
    return inp["n"] > 0 and inp["m"] > 0


OPS = {
    "match": Op("match", _impl_match, to_model=_geoms_args, model_op="match_geoms",
                compare=_mk_compare(_matrix_of), holds=_mk_holds(_matrix_of, TOL), determined=False,
                nontrivial=_nontrivial, mode="exact"),
    "match_matrix": Op("match_matrix", _impl_matrix, to_model=_matrix_args, compare=_mk_compare(_matrix_args),
                       holds=_mk_holds(_matrix_args, Fraction(0)), determined=False, nontrivial=_nontrivial,
                       mode="exact", model_op="match", shrink=True),
    # the solver's answer as a parameter (any answer scipy's documented contract allows, optimal or not):
    # ties `selectMatches` to the code for the whole quantifier of the theorems, independent of scipy's choices
    "match_solver": Op("match_solver", _impl_solver, to_model=_solver_args, compare=_compare_solver, determined=False,
                       nontrivial=_nontrivial, mode="exact", model_op="match"),
}


# ---------------------------------------------------------------- generators
def _box(s, lo, e, hi):
    return {"type": "BoundingBox", "coordinates": [rat(Fraction(x)) for x in (s, lo, e, hi)]}


def _interval(s, e):
    return {"type": "TimeInterval", "coordinates": [rat(Fraction(s)), rat(Fraction(e))]}


def _stamp(t):
    return {"type": "TimeStamp", "coordinates": rat(Fraction(t))}


def _grid_geom(rng):
    """tie-rich grid: integer seconds, three frequency bands; far-apart placements are common"""
    r = rng.random()
    s = rng.choice([0, 1, 2, 3, 8, 9, 20])
    w = rng.choice([1, 1, 2])
    if r < 0.55:
        lo = rng.choice([0, 1000, 2000])
        h = rng.choice([1000, 1000, 2000])
        if rng.random() < 0.04:
            w = 0          # zero-width box: area 0, affinity 0 even with itself
        return _box(s, lo, s + w, lo + h)
    if r < 0.8:
        return _interval(s, s + w)
    if r < 0.9:
        # quarter offsets: with time_buffer 1/4 or 1/2 different instants overlap partially
        return _stamp(s + rng.choice([0, 0, Fraction(1, 4), Fraction(1, 2)]))
    if r < 0.93:
        return {"type": "Point", "coordinates": [rat(s + rng.choice([0, Fraction(1, 4)])), rat(Fraction(rng.choice([1000, 1000, 1001])))]}
    return gen_geom.gen_valid(rng, rng.choice(["Point", "LineString", "Polygon", "MultiPoint"]), tmax=4, fmax=4, k=1)


def _buffers(rng, geoms):
    low_dim = any(g["type"] in ("TimeStamp", "Point", "LineString", "MultiPoint", "MultiLineString") for g in geoms)
    if low_dim:
        return rng.choice([("1/100", "100"), ("1/4", "1/2"), ("1/2", "1")])
    return rng.choice([("1/100", "100"), ("0", "0"), ("1/4", "1/2")])


def _grid_cases(rng, count, nmax, nmin=0):
    for _ in range(count):
        n = rng.randint(nmin, nmax)
        m = rng.randint(nmin, nmax)
        pool = [_grid_geom(rng) for _ in range(rng.randint(1, 4))]
        src = [rng.choice(pool) if rng.random() < 0.5 else _grid_geom(rng) for _ in range(n)]
        tgt = [rng.choice(pool) if rng.random() < 0.5 else _grid_geom(rng) for _ in range(m)]
        if n and m and rng.random() < 0.12:
            # a sliver: two intervals (or boxes) overlapping by 2^-33 s (affinity about 6e-11, far above the tolerance)
            t0 = rng.choice([0, 3, 20])
            eps = Fraction(1, 2 ** rng.choice([20, 33]))
            if rng.random() < 0.5:
                a, b = _interval(t0, t0 + 1), _interval(t0 + 1 - eps, t0 + 2)
            else:
                a, b = _box(t0, 0, t0 + 1, 1000), _box(t0 + 1 - eps, 0, t0 + 2, 1000)
            src[rng.randrange(n)] = a
            tgt[rng.randrange(m)] = b
        tb, fb = _buffers(rng, src + tgt)
        case = {"source": src, "target": tgt, "tb": tb, "fb": fb}
        if n and rng.random() < 0.06:
            # the same list object on both sides (zero buffers make instants and points degenerate: affinity 0 with themselves)
            case = {"source": src, "target": src, "tb": rng.choice([tb, "0"]), "fb": rng.choice([fb, "0"]), "alias": True}
        yield case


_POOL = [_box(0, 0, 1, 1000), _box(0, 0, 2, 1000), _box(1, 0, 2, 1000), _box(5, 0, 6, 1000), _interval(0, 1),
         _box(0, 1000, 1, 2000)]


def _exhaustive_lists(pool, nmax):
    for n in range(nmax + 1):
        for m in range(nmax + 1):
            for src in itertools.product(pool, repeat=n):
                for tgt in itertools.product(pool, repeat=m):
                    yield {"source": list(src), "target": list(tgt), "tb": "0", "fb": "0"}


def _free_geom(rng):
    """arbitrary binary64 coordinates (free mode)"""
    ty = rng.choice(gen_geom.TYPES)
    if ty in ("BoundingBox", "TimeInterval", "TimeStamp", "Point") or rng.random() < 0.5:
        t0 = rng.uniform(0, 3)
        t1 = t0 + rng.uniform(0.001, 2)
        f0 = rng.uniform(0, 4000)
        f1 = f0 + rng.uniform(1, 3000)
        if ty == "TimeStamp":
            return {"type": ty, "coordinates": rat(t0)}
        if ty == "TimeInterval":
            return {"type": ty, "coordinates": [rat(t0), rat(t1)]}
        if ty == "Point":
            return {"type": ty, "coordinates": [rat(t0), rat(f0)]}
        return {"type": "BoundingBox", "coordinates": [rat(t0), rat(f0), rat(t1), rat(f1)]}
    return gen_geom.gen_valid(rng, ty, tmax=4, fmax=8, k=4)


def _free_cases(rng, count, nmax):
    for _ in range(count):
        n = rng.randint(0, nmax)
        m = rng.randint(0, nmax)
        src = [_free_geom(rng) for _ in range(n)]
        tgt = [(rng.choice(src) if src and rng.random() < 0.3 else _free_geom(rng)) for _ in range(m)]
        yield {"source": src, "target": tgt, "tb": rng.choice(["1/100", "1/8", rat(0.05)]),
               "fb": rng.choice(["100", "1/2", rat(33.3)])}


def _matrix_case(n, m, vals):
    return {"n": n, "m": m, "matrix": [[vals[i * m + j] for j in range(m)] for i in range(n)]}


def _exhaustive_matrices(values, max_cells, dims=3):
    for n in range(dims + 1):
        for m in range(dims + 1):
            if n * m > max_cells:
                continue
            for vals in itertools.product(values, repeat=n * m):
                yield _matrix_case(n, m, vals)


def _random_matrices(rng, count, nmax):
    for _ in range(count):
        n = rng.randint(0, nmax)
        m = rng.randint(0, nmax)
        style = rng.random()
        if style < 0.4:
            pool = ["0", "0", "1/4", "1/2", "1"]
        elif style < 0.6:
            pool = ["0", "1"]
        elif style < 0.7:
            pool = ["0"] + [rat(Fraction(rng.randint(0, 16), 16)) for _ in range(3)]
        elif style < 0.8:
            # tiny but positive affinities (slivers): every one of them counts
            pool = ["0", "1/1099511627776", "1/1073741824", "1/1048576", "1/2", "1"]
        else:
            pool = None
        vals = [rng.choice(pool) if pool else rat(Fraction(rng.randint(0, 1024), 1024)) for _ in range(n * m)]
        if rng.random() < 0.2 and n and m:
            # an all-zero row or column
            i = rng.randrange(n)
            for j in range(m):
                vals[i * m + j] = "0"
        yield _matrix_case(n, m, vals)


# ---------------------------------------------------------------- the solver's answer as a parameter: generators
def _contract_assignments(n, m):
    """every answer scipy's documented contract allows on an n x m matrix: min(n, m) pairs, rows ascending,
    rows distinct, columns distinct"""
    k = min(n, m)
    for rows in itertools.combinations(range(n), k):
        for cols in itertools.permutations(range(m), k):
            yield [[r, c] for r, c in zip(rows, cols)]


def _solver_cases_exhaustive(values, max_cells):
    for n in range(4):
        for m in range(4):
            if n * m > max_cells:
                continue
            for vals in itertools.product(values, repeat=n * m):
                for asg in _contract_assignments(n, m):
                    yield dict(_matrix_case(n, m, vals), assigned=asg)


def _solver_cases_random(rng, count, nmax):
    for case in _random_matrices(rng, count, nmax):
        n, m = case["n"], case["m"]
        k = min(n, m)
        rows = sorted(rng.sample(range(n), k))
        cols = rng.sample(range(m), k)
        r = rng.random()
        asg = [[a, b] for a, b in zip(rows, cols)]
        if r < 0.06 and k >= 1:
            asg = asg + [[asg[0][0], (asg[0][1] + 1) % m]]          # a row twice (outside the contract)
        elif r < 0.10 and k >= 1:
            asg = [[asg[0][0], m]] + asg[1:]                         # column out of range
        elif r < 0.2 and k >= 2:
            asg = asg[:-1]                                           # a partial (still one-to-one) answer
        elif r < 0.3:
            rng.shuffle(asg)                                         # rows not ascending
        yield dict(case, assigned=asg)


# ---------------------------------------------------------------- Tie 1b at fixed shapes
class _NumpyProxy:
    """numpy, except that `zeros` (and `empty`/`full`) give object arrays so that symbolic numbers can be stored"""

    def __getattr__(self, name):
        return getattr(np, name)

    @staticmethod
    def zeros(shape=None, *a, **kw):
        out = np.empty(shape, dtype=object)
        out.fill(0)
        return out

    empty = zeros

    @staticmethod
    def array(obj, dtype=None, *a, **kw):
        return np.array(obj, dtype=object)

    asarray = array

    @staticmethod
    def full(shape, fill_value=0, *a, **kw):
        out = np.empty(shape, dtype=object)
        out.fill(fill_value)
        return out


class _Entries:
    """a traced output: concrete indices, symbolic (or literal) affinities"""

    def __init__(self, ents):
        self.ents = ents

    def lean(self):
        from .. import symtrace as st
        opt = lambda x: "none" if x is None else f"some {x}"
        return "[" + ", ".join(f"⟨{opt(s_)}, {opt(t_)}, {a_.e if isinstance(a_, st.Sym) else st.lit(a_)}⟩"
                               for s_, t_, a_ in self.ents) + "]"


def _tree_lean(tree, indent=4):
    """Lean term of a traced decision tree whose leaves are `_Entries`"""
    if tree[0] == "ite":
        pad = " " * indent
        return (f"if {tree[1][0]} then\n{pad}{_tree_lean(tree[2], indent + 2)}\n"
                f"{' ' * (indent - 2)}else\n{pad}{_tree_lean(tree[3], indent + 2)}")
    leaf = tree[1]
    return "some " + leaf[1].lean() if leaf[0] == "ok" else "none"


def _sym_thunk(n, m, asg):
    from ..symtrace import Sym
    names = [[f"a{i}{j}" for j in range(m)] for i in range(n)]

    def thunk():
        import builtins
        src, tgt, ids_s, ids_t = _stub_geoms(n, m)

        def aff(g1, g2, *a, **kw):
            return Sym.var(names[ids_s[id(g1)]][ids_t[id(g2)]])

        solver = _solver_stub(n, m, asg)

        class to_float(builtins.float):
            """`float` inside the traced module: symbolic numbers pass through (as a dtype numpy reads it as object)"""

            def __new__(cls, x=0.0, *a):
                return x if isinstance(x, Sym) else builtins.float(x, *a)
        with _patched(compute_affinity=aff, linear_sum_assignment=solver) as M:
            had_np, old_np = hasattr(M, "np"), getattr(M, "np", None)
            had_numpy, old_numpy = hasattr(M, "numpy"), getattr(M, "numpy", None)
            if had_np:
                M.np = _NumpyProxy()
            if had_numpy:
                M.numpy = _NumpyProxy()
            M.float = to_float
            try:
                out = list(M.match_geometries(src, tgt))
            finally:
                del M.float
                if had_np:
                    M.np = old_np
                if had_numpy:
                    M.numpy = old_numpy
        # canonical order (`sortEntries`: by source key, then target key; None first); stable like the insertion sort
        key = lambda x: 0 if x is None else int(x) + 1
        ents = [(None if s_ is None else int(s_), None if t_ is None else int(t_),
                 a_ if isinstance(a_, Sym) else Fraction(a_)) for s_, t_, a_ in out]
        ents.sort(key=lambda e: (key(e[0]), key(e[1])))
        return _Entries(ents)
    return [x for row in names for x in row], thunk


def _sym_one(ctx, n, m, asg):
    """`match_geometries` on an n x m matrix of *symbolic* affinities with the solver's answer fixed: every path
    (one per sign pattern of the assigned entries) is traced on the real code and the resulting piecewise function
    is proved equal to `selectMatches` for ALL rational matrix entries"""
    from .. import symtrace as st
    variables, thunk = _sym_thunk(n, m, asg)
    name = f"ext_match_{n}x{m}_" + "_".join(f"{r}{c}" for r, c in asg) if asg else f"ext_match_{n}x{m}_none"
    meta = {"op": "match_matrix"}
    try:
        res = st.trace(thunk, catch=())
        tree = st.to_tree(res)
        body = _tree_lean(tree)
    except Exception as e:  # noqa: BLE001 - the tie cannot be re-established: a broken obligation, never a crash
        from ..leanio import InfraError
        if isinstance(e, InfraError):
            raise
        ctx.symbolic_ties[name] = {"error": repr(e)[:300]}
        ctx.pre_failed.append(name)
        ctx.fail("obligation", name, detail=f"symbolic trace of the current source failed: {e!r}", extra=meta)
        return
    ctx.symbolic_ties[name] = {"paths": len(res)}
    args = " ".join(variables)
    binder = f"({args} : Rat) " if variables else ""
    matrix = "[" + ", ".join("[" + ", ".join(f"a{i}{j}" for j in range(m)) + "]" for i in range(n)) + "]"
    assigned = "[" + ", ".join(f"({r}, {c})" for r, c in asg) + "]"
    cases = " <;> ".join(f"by_cases h{r}{c} : a{r}{c} ≤ 0" for r, c in asg)
    hyps = ", ".join(f"h{r}{c}" for r, c in asg)
    simp = ("simp [" + (hyps + ", " if hyps else "") + f"{name}, selectMatches, assignLoop, matOfRows, emit, pairEntry, srcOnly, "
            "tgtOnly, sortEntries, insertEntry, keyLe, entryKey, Except.toOption, List.range, List.range.loop, List.erase]")
    tactic = (f"{cases} <;> ({simp}) <;> grind" if asg else f"{simp}")
    src = (f"open SE SE.Matching in\ndef {name} {binder}: Option (List Entry) :=\n    {body}\n"
           f"open SE SE.Matching in\ntheorem {name}_tie {binder}: {name} {args} = "
           f"(selectMatches {n} {m} (matOfRows {matrix}) {assigned}).toOption.map sortEntries := by\n  {tactic}\n")
    ctx.obligation(name, src, meta)


def _stage_symbolic(ctx):
    shapes = [(n, m) for n in range(4) for m in range(4)]
    count = 0
    for n, m in shapes:
        asgs = list(_contract_assignments(n, m))
        if n * m >= 9 and not ctx.thorough():
            asgs = [asgs[0], asgs[-1], asgs[1 + ctx.rng.randrange(len(asgs) - 2)]]
        for asg in asgs:
            _sym_one(ctx, n, m, asg)
            count += 1
    ctx.exhaustive["symbolic"] = ("match_geometries traced on symbolic affinity matrices for every shape (n, m) in {0..3}^2 and "
                                  "every answer scipy's contract allows (3 x 3: " +
                                  ("all 6" if ctx.thorough() else "3 of 6") + f"): {count} equality obligations, each for all rational entries")


# ---------------------------------------------------------------- run / search
def _stub_selftest():
    """the matrix operation replaces `compute_affinity` where match_geometries looks it up; if the code no
    longer reaches the affinity through one of those names the stub is ineffective and the stage must not run"""
    import soundevent.evaluation.match as M
    if not hasattr(M, "match_geometries"):
        raise RuntimeError("soundevent.evaluation.match no longer exposes match_geometries")
    probe = {"n": 2, "m": 2, "matrix": [["1/4", "1"], ["1/2", "1/4"]]}
    out = _impl_matrix(probe)["val"]
    vals = sorted(e[2] for e in out if e[0] is not None and e[1] is not None)
    if vals != ["1", "1/2"]:
        raise RuntimeError(f"stub of compute_affinity is not effective (got {out})")


def _solver_selftest():
    """the two stubs must be effective; also learns whether the code hands the solver the transposed matrix"""
    seen = []
    probe = {"n": 2, "m": 2, "matrix": [["1/4", "1"], ["1/2", "1/4"]], "assigned": [[0, 0], [1, 1]], "_seen": seen}
    _ORIENT["square_transposed"] = False
    _impl_solver(probe)
    if seen and abs(float(seen[0][0][1])) == 0.5 and abs(float(seen[0][1][0])) == 1.0:
        _ORIENT["square_transposed"] = True      # answer the transposed problem from now on
    out = _impl_solver(dict(probe, assigned=[[0, 1], [1, 0]], _seen=None))["val"]
    if out != [[0, 1, "1"], [1, 0, "1/2"]]:
        raise RuntimeError(f"stubs of compute_affinity / linear_sum_assignment are not effective (got {out})")


def _cert_selftest(ctx):
    """the (untrusted) certificate generator against the verified brute force on random small matrices"""
    cases = list(_random_matrices(ctx.rng, 60, 4))
    for c in cases:
        a = dict(c)
        cert = _cert_args(a)
        r = ctx.model("holds_cert", {"n": a["n"], "m": a["m"], "matrix": a["matrix"], "tol": "0", "out": [],
                                     "u": cert["u"], "v": cert["v"], "witness": cert["witness"]})
        b = ctx.model("contract", {"n": a["n"], "m": a["m"], "matrix": a["matrix"], "assigned": [], "tol": "0"})
        if not r["cert"] or r["best"] != b["best"]:
            raise RuntimeError(f"certificate generator fails on {c}: {r} vs brute force {b['best']}")
    ctx.tally("certificate generator self-test cases", len(cases))


def _stage_matrices(ctx, nmax):
    _stub_selftest()
    # stubbed-affinity matrices: exhaustive small scopes, then random (ties, zero rows/columns)
    if ctx.thorough():
        ctx.run_cases(OPS["match_matrix"], _exhaustive_matrices(["0", "1/4", "1/2", "1"], 9))
        ctx.exhaustive["match_matrix"] = "all n x m matrices, (n, m) in {0..3}^2, entries in {0, 1/4, 1/2, 1}"
    else:
        ctx.run_cases(OPS["match_matrix"], _exhaustive_matrices(["0", "1/4", "1/2", "1"], 6))
        ctx.run_cases(OPS["match_matrix"], (_matrix_case(3, 3, v) for v in itertools.product(["0", "1/2", "1"], repeat=9)
                                            if ctx.rng.random() < 0.2))
        ctx.exhaustive["match_matrix"] = ("all n x m matrices with n*m <= 6, (n, m) in {0..3}^2, entries in {0, 1/4, 1/2, 1}; "
                                          "a fifth of all 3 x 3 matrices over {0, 1/2, 1}")
    ctx.run_cases(OPS["match_matrix"], _exhaustive_matrices(["0", "1/1073741824", "1"], 4, dims=2))
    ctx.run_cases(OPS["match_matrix"], _random_matrices(ctx.rng, ctx.budget(1500, 12000), nmax))
    # beyond the brute force: optimality by certificate
    ctx.run_cases(OPS["match_matrix"], _random_matrices(ctx.rng, ctx.budget(250, 1500), ctx.budget(12, 25)))


def _stage_solver(ctx):
    _solver_selftest()
    ctx.run_cases(OPS["match_solver"], _solver_cases_exhaustive(["0", "1/2", "1"], ctx.budget(4, 6)))
    ctx.exhaustive["match_solver"] = (f"all matrices over {{0, 1/2, 1}} with n*m <= {ctx.budget(4, 6)}, (n, m) in {{0..3}}^2, times every "
                                      "answer scipy's contract allows (min(n, m) pairs, rows ascending, one-to-one)")
    ctx.run_cases(OPS["match_solver"], _solver_cases_random(ctx.rng, ctx.budget(600, 6000), 4))


def _stage_lists(ctx):
    ctx.run_cases(OPS["match"], _exhaustive_lists(_POOL[:ctx.budget(5, 6)], 2))
    ctx.exhaustive["match"] = f"all source/target lists of length 0..2 over a pool of {ctx.budget(5, 6)} boxes/intervals"


def _timed(ctx):
    """ctx.stage with the wall time of each stage recorded in the evidence notes"""
    import time
    real = ctx.stage

    def stage(name, fn, *a, **kw):
        t = time.time()
        try:
            return real(name, fn, *a, **kw)
        finally:
            ctx.note(f"stage `{name}`: {time.time() - t:.1f} s")
    return stage


def run(ctx):
    global _CTX
    _CTX = ctx
    _CACHE.clear()
    nmax = ctx.budget(5, 7)
    stage = _timed(ctx)
    stage("certificate generator self-test", _cert_selftest, ctx)
    stub_ok = stage("stub of compute_affinity inside soundevent.evaluation.match", lambda: _stub_selftest() or True)
    stage("corpus", ctx.run_corpus, OPS if stub_ok else {"match": OPS["match"]})
    if stub_ok:
        stage("affinity matrices through the real match_geometries (compute_affinity stubbed)",
                  _stage_matrices, ctx, nmax)
        stage("the solver's answer as a parameter (compute_affinity and linear_sum_assignment stubbed)",
                  _stage_solver, ctx)
        stage("symbolic affinities at fixed shapes", _stage_symbolic, ctx)
    stage("exhaustive short lists of real geometries", _stage_lists, ctx)
    stage("tie-rich grid lists", lambda: ctx.run_cases(OPS["match"], _grid_cases(ctx.rng, ctx.budget(500, 5000), nmax)))
    stage("long grid lists (optimality by certificate)",
              lambda: ctx.run_cases(OPS["match"], _grid_cases(ctx.rng, ctx.budget(60, 400), ctx.budget(10, 16), nmin=4)))
    stage("free-mode lists", lambda: ctx.run_cases(OPS["match"], _free_cases(ctx.rng, ctx.budget(150, 2000), min(nmax, 5))))
    stage("discharge", ctx.discharge, ["SoundeventModel.Matching"])


def search(ctx, failures):
    """a correspondence, contract or stage broke: widen every scope and let `holds` judge the real outputs"""
    def matrices():
        _stub_selftest()
        ctx.run_cases(OPS["match_matrix"], _exhaustive_matrices(["0", "1/2", "1"], 9))
        ctx.run_cases(OPS["match_matrix"], _random_matrices(ctx.rng, 6000, 5))
        ctx.run_cases(OPS["match_matrix"], _random_matrices(ctx.rng, 600, 14))
    ctx.stage("search: matrices", matrices)
    ctx.stage("search: short lists", lambda: ctx.run_cases(OPS["match"], _exhaustive_lists(_POOL, 2)))
    ctx.stage("search: grid lists", lambda: ctx.run_cases(OPS["match"], _grid_cases(ctx.rng, 2000, 5)))
    ctx.stage("search: long grid lists", lambda: ctx.run_cases(OPS["match"], _grid_cases(ctx.rng, 150, 12, nmin=3)))
