"""C07 — Matching is an optimal one-to-one assignment that covers every geometry once."""
import collections.abc
import contextlib
import copy
import itertools
import json
from fractions import Fraction

import numpy as np

from ..core import Op, jkey
from ..rat import rat, frac
from .. import gen_geom
from .. import history
from .. import c07_oracle as oracle
from .. import c07_fresh

PROPERTY = "C07"
LEAN_MODULE = "Proofs.C07"
_T = "SE.Proofs.C07."
THEOREMS = [_T + n for n in [
    "C07_contract_decidable", "C07_total", "C07_cover", "C07_cover_count", "C07_positive_pairs",
    "C07_positive_assigned_reported", "C07_reported_affinity", "C07_unpaired_zero",
    "bestValue_upper", "bestValue_attained", "C07_optimal", "C07_optimal_complete",
    "C07_total_le_best", "C07_optimal_of_solver", "C07_empty", "C07_no_overlap_all_unpaired",
    "C07_holds_iff", "C07_model_holds",
    # review: optimality by certificate (any size), every valid assignment, the matrix-fill loop, geometry level
    "C07_weak_duality", "C07_cert_best", "C07_optimal_cert_iff", "C07_optimal_by_cert", "C07_holds_by_cert",
    "C07_shape_any_valid", "C07_length", "C07_sortEntries_perm", "C07_matrix_is_affinity", "C07_geometries",
    # follow-up (histories and construction paths): the call protocol, a whole call from the coordinates, history /
    # memoisation semantics, judging against an independent matrix with a tolerance
    "C07_bind_positional_eq_keyword", "C07_match_call_styles", "C07_call_spec", "C07_history_step",
    "C07_memo_full_key_sound", "C07_memo_partial_key_unsound", "C07_stale_buffer_history", "C07_optimal_perturb",
    "C07_holds_ind", "C07_holds_ind_cert"]]
LEVEL_TEXT = ("Lean theorems over the model of match_geometries (matrix-fill loop, _select_matches, emission; compute_affinity and "
              "scipy's assignment are parameters, the latter under the explicit ValidAssignment hypothesis): every source and target "
              "index occurs exactly once, pairs only with positive affinity, reported affinity = affinity of that pair of geometries, "
              "unpaired report 0, empty cases (C07_geometries states all of it on the geometries); the brute-force optimum bestValue is "
              "proved to bound every partial injection and to be attained; weak duality is proved, so that a checked certificate "
              "(potentials + witness) pins the optimum for matrices of any size (C07_cert_best); the executable predicate `holds` "
              "(brute force or certificate: C07_holds_by_cert) is proved equivalent to the property, so its evaluation on every real "
              "output of match_geometries means the property (optimality within 2^-40, exact on dyadic matrices). For every shape "
              "(n, m) in {0..3}^2 and every answer scipy's contract allows, match_geometries is traced on symbolic affinities and "
              "proved equal to the model for all rational entries. Follow-up: a whole call is modelled from the coordinates and the "
              "buffers for every pair with a closed-form affinity (matchCall over the C06 dispatcher on exact rectangles; "
              "C07_call_spec: never raises for non-negative buffers, all clauses for the buffers of *this* call), Python's binding "
              "of positional / keyword / omitted arguments to the signature is modelled (C07_bind_positional_eq_keyword, "
              "C07_match_call_styles; the live signatures are re-extracted and discharged against the table on every run), histories "
              "are answered call by call (C07_history_step) and an implementation that memoises an intermediate result agrees with "
              "the pure model on every history exactly when its key determines the result (C07_memo_full_key_sound / "
              "_partial_key_unsound, instance C07_stale_buffer_history); the verdict against the *independent* affinity matrix with "
              "a per-entry tolerance is given its meaning by C07_holds_ind (via C07_optimal_perturb).")
LEVEL_NOTE = ("Unmodelled: the Hungarian/LAPJV algorithm of scipy.optimize.linear_sum_assignment (its answer is a parameter; "
              "ValidAssignment and optimality are checked on every answer against the verified brute force up to 5x5 quick / 7x7 "
              "thorough and against a Lean-checked duality certificate beyond); binary64 summation inside scipy (tolerance 2^-40). "
              "The affinity matrix is stated independently of the code under test: by the Lean closed form for TimeStamp / "
              "TimeInterval / BoundingBox pairs and time geometries against polygons (tolerance 2^-40 per entry), by GEOS called by "
              "the harness on shapes built from the coordinates for polygons in the area branch (2^-40) and for the point / line "
              "types, which are buffered by the recipe of the C11 model (scale by 1/buffer, buffer 1 with round caps and mitre "
              "joins, scale back, clip; tolerance 2^-20: the exact outline of a GEOS buffer is not pinned by C07). The library's "
              "compute_affinity is a monitored contract (every entry compared with the independent one), not the oracle; the "
              "bit-exact comparison of reported affinities still uses it. Histories are generator-bounded: sequences of 2-4 calls "
              "over neighbours of a call (other buffers, buffers omitted, exchanged lists, a moved / added geometry, reused, "
              "assigned-to and copied objects, lists edited in place, lazily interleaved generators), plus a pristine-process "
              "probe (a forked server that imported the library and never called it) as purity monitor: every 9th call must give "
              "the same answer there; a failing call that answers differently there is turned into a short history that "
              "reproduces in a fresh process. State that hinges on object identities (id-keyed caches) is detected but its "
              "replays are only deterministic for the reuse-by-assignment histories. Beyond the symbolic ties at fixed small "
              "shapes the model is tied to the code by generator-bounded correspondence (real geometries, stubbed-affinity "
              "matrices, stubbed solver answers; exhaustive small scopes). The symbolic ties replace numpy's zeros/array, float, "
              "compute_affinity and linear_sum_assignment inside the traced module by stubs.")
TECHNIQUE = ("Lean 4 proof over model with the solver as a parameter; verified brute-force optimum and Lean-checked LP-duality "
             "certificates as run-time monitors; symbolic-trace equality obligations at fixed shapes; signature tables regenerated "
             "from the live functions; an affinity oracle independent of the code under test (Lean closed forms, GEOS on the "
             "coordinates); exhaustive small-scope and random correspondence over inputs, construction / call styles and "
             "histories; pristine-process purity probe")
RULE = ("lists of 0-5 (thorough 0-7) geometries on tie-rich grids (near-miss instants, slivers, zero-width boxes, aliased lists), "
        "long lists up to 10 (16) and two (eight) lists of >= 1024 pairs, exhaustive lists over a small pool, random geometries of all "
        "types, all 81 ordered type pairs x 5 buffer settings, every construction / call style (positional, keyword in any order, "
        "buffers omitted; float / int / numpy scalars; list / tuple / Sequence / object array; constructor / dict / JSON / copies / "
        "tuples / ints / numpy coordinates; shared objects), tolerance-sized offsets around `affinity > 0` at magnitudes 1 and 1e6 "
        "and every point of the 10 ms lattice, exhaustive / random affinity matrices (up to 12x12, thorough 25x25, entries down to "
        "1e-12, alternatives 1e-12 apart, shapes 17x17, 33x32, 3x400, 2x600, 1030x1, 1x1030, 257x1) through the real "
        "match_geometries with compute_affinity stubbed, and with the solver's answer stubbed as well; histories: 110 (900) "
        "sequences of 2-4 calls of match_geometries (fresh / reused / assigned-to / copied objects, in-place list edits, poisoned "
        "results, results re-read after later calls, arguments snapshotted), 50 (400) lazily interleaved pairs / triples, "
        "sequences of stubbed calls of one shape, every 9th call repeated in a pristine process; non-trivial = at least one "
        "source and one target (histories: a step answered); distinct = distinct (operation, input)")
TRUSTED = ["scipy.optimize.linear_sum_assignment (answer checked per case: ValidAssignment, optimal within tolerance)",
           "GEOS (shapely) called by the harness on shapes built from the coordinates: area, intersection area, bounds, and buffer "
           "with round caps / mitre joins for the point / line types (harness/c07_oracle.py; the recipe is the C11 model's)",
           "the library's compute_affinity only as a monitored contract: every entry is compared with the independent affinity "
           "(tolerance 2^-40, 2^-20 where a GEOS buffer is involved); MAX_FREQUENCY = 5 000 000 (table obligation of C03)",
           "the stubs replacing compute_affinity (a table lookup) and linear_sum_assignment (a given answer) in the matrix / solver "
           "operations, and numpy zeros/array + float in the symbolic traces (object arrays holding symbolic numbers)",
           "the pristine-process probe (os.fork of a server that imported the library): only says whether the same call gives the "
           "same answer in a fresh process, never what the answer should be",
           "nothing about the certificate generator (exact rectangular Hungarian method in the harness): Lean checks every certificate"]
ASSUMPTIONS = ["scipy's answer is a valid assignment (monitored on every case)",
               "optimality is checked up to 2^-40 on real geometries (scipy sums binary64 values, the model exact rationals), "
               "exactly on dyadic matrices; against the independent matrix up to min(n, m) tau + 2^-40 (C07_holds_ind)",
               "ordered-field semantics for the symbolic ties (no rounding)",
               "buffers are non-negative (negative buffers are modelled - matchCall raises exactly when a buffered type is "
               "reached - but outside the property's quantifier and not generated)"]
NOT_COMPARED = ["order of the yielded matches (compared as a sorted multiset; the symbolic ties compare sorted lists, "
                "C07_sortEntries_perm)",
                "tie-breaking among equally good assignments (an output that differs from the model's only by the "
                "solver's choice among optimal assignments is accepted when it satisfies `holds` and equals the model "
                "run on its own pairs; inside a history such a difference is a broken correspondence, not a violation)",
                "behaviour when the solver's answer violates scipy's contract (repeated row, index out of range): modelled "
                "(LoopErr), exercised, agreement only tallied",
                "types of the yielded indices (int vs numpy integer) and the sign of a zero affinity",
                "the exact outline of GEOS's buffer of a point / line (entries involving one are compared with 2^-20, not 2^-40)",
                "TypeErrors of malformed calls (too many positional arguments, a name given twice, a missing list): modelled "
                "(bindArgs, C07_match_call_styles), not run against the code - the property says nothing about them",
                "numpy.float32 buffers and coordinates are only used where binary32 holds the value exactly; bool buffers, "
                "geometries loaded from AOEF files and generators (no len) as lists are not exercised"]

TOL = Fraction(1, 2 ** 40)
_CTX = None
_CACHE = {}
_OWN_DRIVER = None


def _model(op, args):
    """the model through the running check, or (in --replay mode, where run() is not called) an own driver"""
    global _OWN_DRIVER
    if _CTX is not None:
        return _CTX.model(op, args)
    if _OWN_DRIVER is None:
        from .. import leanio
        _OWN_DRIVER = leanio.Driver()
    return _OWN_DRIVER.call(PROPERTY, op, args)


def _f(s):
    return float(frac(s))


def _canon(triples):
    out = [[None if s is None else int(s), None if t is None else int(t), rat(float(a))] for s, t, a in triples]
    out.sort(key=lambda e: (e[0] is None, -1 if e[0] is None else e[0], e[1] is None, -1 if e[1] is None else e[1], e[2]))
    return out


def _sort_entries(es):
    return sorted(es, key=lambda e: (e[0] is None, -1 if e[0] is None else e[0], e[1] is None,
                                     -1 if e[1] is None else e[1], e[2]))


def _solve(matrix_f):
    """the assignment exactly as `_select_matches` asks for it"""
    from scipy.optimize import linear_sum_assignment
    r, c = linear_sum_assignment(matrix_f, maximize=True)
    return [[int(a), int(b)] for a, b in zip(r, c)]


# ---------------------------------------------------------------- real geometries
def _geoms(inp):
    src = [gen_geom.to_data(g) for g in inp["source"]]
    if inp.get("alias"):
        # the very same list object on both sides (inp["target"] repeats inp["source"])
        return src, src
    return src, [gen_geom.to_data(g) for g in inp["target"]]


# ---- construction and passing styles (HISTORIES.md section 2).  inp["style"] = {"call", "num", "cont", "geom", "share"}
CALL_STYLES = ("kw", "pos", "pos3", "kw_rev", "kw_mixed", "default", "default_fb", "default_tb")
NUM_STYLES = ("float", "int", "np64", "np32", "npint")
CONT_STYLES = ("list", "tuple", "seq", "nparr")
GEOM_STYLES = ("validate", "ctor", "dict", "json", "copy", "deepcopy", "tuples", "ints", "npcoords")


class _Seq(collections.abc.Sequence):
    """a Sequence that is neither a list nor a tuple"""

    def __init__(self, xs):
        self._xs = list(xs)

    def __len__(self):
        return len(self._xs)

    def __getitem__(self, i):
        return self._xs[i]


def _num(q, how):
    v = float(frac(q))
    if how == "int" and v == int(v):
        return int(v)
    if how == "np64":
        return np.float64(v)
    if how == "np32" and float(np.float32(v)) == v:
        return np.float32(v)
    if how == "npint" and v == int(v):
        return np.int64(int(v))
    return v


def _map_leaves(c, fn):
    return [_map_leaves(x, fn) for x in c] if isinstance(c, list) else fn(c)


def _tuplify(c):
    return tuple(_tuplify(x) for x in c) if isinstance(c, list) else c


def _geom_obj(gj, how=None):
    """a live geometry for the JSON geometry, by one of several equivalent construction paths"""
    if how in (None, "validate"):
        return gen_geom.to_data(gj)
    from soundevent import data
    cls = getattr(data, gj["type"])
    c = gen_geom.coords_float(gj)
    if how == "ctor":
        return cls(coordinates=c)
    if how == "dict":
        return cls.model_validate({"type": gj["type"], "coordinates": c})
    if how == "json":
        return cls.model_validate_json(json.dumps({"type": gj["type"], "coordinates": c}))
    if how == "copy":
        return gen_geom.to_data(gj).model_copy()
    if how == "deepcopy":
        return copy.deepcopy(gen_geom.to_data(gj))
    if how == "tuples":
        return cls(coordinates=_tuplify(c))
    if how == "ints":
        return cls(coordinates=_map_leaves(c, lambda x: int(x) if x == int(x) else x) if isinstance(c, list)
                   else (int(c) if c == int(c) else c))
    if how == "npcoords":
        return cls(coordinates=_map_leaves(c, np.float64) if isinstance(c, list) else np.float64(c))
    return gen_geom.to_data(gj)


def _container(xs, how):
    if how == "tuple":
        return tuple(xs)
    if how == "seq":
        return _Seq(xs)
    if how == "nparr":
        arr = np.empty(len(xs), dtype=object)
        for i, x in enumerate(xs):
            arr[i] = x
        return arr
    return list(xs)


def _live_args(inp, pool=None):
    """the live arguments of a call: lists of geometry objects, the two buffers, how to pass them"""
    st = inp.get("style") or {}
    gs = st.get("geom")
    pool = {} if (pool is None and st.get("share")) else pool

    def obj(g):
        if pool is None:
            return _geom_obj(g, gs)
        k = jkey(g)
        if k not in pool:
            pool[k] = _geom_obj(g, gs)
        return pool[k]
    src = _container([obj(g) for g in inp["source"]], st.get("cont"))
    tgt = src if inp.get("alias") else _container([obj(g) for g in inp["target"]], st.get("cont"))
    return {"src": src, "tgt": tgt, "tb": _num(inp["tb"], st.get("num")), "fb": _num(inp["fb"], st.get("num")),
            "call": _effective_call(inp), "json": [inp["source"], inp["target"], bool(inp.get("alias"))]}


def _effective_call(inp):
    """the call style, falling back to keywords where a default cannot be relied on"""
    call = (inp.get("style") or {}).get("call") or "kw"
    tb_default, fb_default = frac(inp["tb"]) == Fraction(1, 100), frac(inp["fb"]) == 100
    if call == "default" and not (tb_default and fb_default):
        return "kw"
    if call == "default_fb" and not fb_default:
        return "kw"
    if call == "default_tb" and not tb_default:
        return "kw"
    return call


def _pos_kw(call, src, tgt, tb, fb):
    """positional and keyword arguments of `match_geometries` for a call style"""
    if call == "pos":
        return [src, tgt, tb, fb], {}
    if call == "pos3":
        return [src, tgt, tb], {"freq_buffer": fb}
    if call == "kw_rev":
        return [], {"freq_buffer": fb, "target": tgt, "time_buffer": tb, "source": src}
    if call == "kw_mixed":
        return [src, tgt], {"freq_buffer": fb, "time_buffer": tb}
    if call == "default":
        return [src, tgt], {}
    if call == "default_fb":
        return [src, tgt, tb], {}
    if call == "default_tb":
        return [src, tgt], {"freq_buffer": fb}
    return [src, tgt], {"time_buffer": tb, "freq_buffer": fb}


def _invoke(args):
    from soundevent.evaluation import match_geometries
    pos, kw = _pos_kw(args["call"], args["src"], args["tgt"], args["tb"], args["fb"])
    return match_geometries(*pos, **kw)


def _impl_match(inp):
    return {"val": _canon(list(_invoke(_live_args(inp))))}


def _bound_call_msg(ctx, inp):
    """the call as written (positional / keyword / omitted arguments) bound by the Lean model of the call
    protocol (`MatchCall.callOf`, theorem C07_match_call_styles) is the call the case means"""
    call = _effective_call(inp)
    src, tgt = {"geoms": inp["source"]}, {"geoms": inp["target"]}
    pos, kw = _pos_kw(call, src, tgt, {"num": inp["tb"]}, {"num": inp["fb"]})
    b = ctx.model("bind_call", {"pos": pos, "kw": [[k, v] for k, v in kw.items()]})
    if "raise" in b:
        return f"the model of the call protocol rejects the call style {call}"
    same = (frac(b["tb"]) == frac(inp["tb"]) and frac(b["fb"]) == frac(inp["fb"])
            and jkey(_norm_geoms(b["source"])) == jkey(_norm_geoms(inp["source"]))
            and jkey(_norm_geoms(b["target"])) == jkey(_norm_geoms(inp["target"])))
    return None if same else f"the model binds the call style {call} to another call: {jkey(b)[:200]}"


def _norm_geoms(gs):
    return [{"type": g["type"], "coordinates": _map_leaves(g["coordinates"], lambda x: rat(frac(x)))
             if isinstance(g["coordinates"], list) else rat(frac(g["coordinates"]))} for g in gs]


def _core_key(inp):
    return jkey([inp["source"], inp["target"], inp["tb"], inp["fb"], bool(inp.get("alias"))])


def _matrix_of(inp):
    """affinity matrix by the real compute_affinity, and scipy's answer on it (cached per input).  The library's
    compute_affinity is a *monitored contract* here, not the oracle: `_holds_independent` compares every entry with
    the affinity stated independently of the code (harness/c07_oracle.py)"""
    k = _core_key(inp)
    if k in _LIB_OVERRIDE:
        return _LIB_OVERRIDE[k]
    if k not in _CACHE:
        if len(_CACHE) > 4096:
            _CACHE.clear()
        _CACHE[k] = _observe_lib(inp)
    return _CACHE[k]


_LIB_OVERRIDE = {}      # the library's matrix as observed in a fresh process (pristine-process probe), while re-judging


def _observe_lib(inp):
    from soundevent.evaluation import compute_affinity
    src, tgt = _geoms(inp)
    m = np.zeros((len(src), len(tgt)))
    positional = (len(inp["source"]) + len(inp["target"])) % 2 == 1      # the public function is also called positionally
    for i, a in enumerate(src):
        for j, b in enumerate(tgt):
            m[i, j] = (compute_affinity(a, b, _f(inp["tb"]), _f(inp["fb"])) if positional else
                       compute_affinity(a, b, time_buffer=_f(inp["tb"]), freq_buffer=_f(inp["fb"])))
    return {"n": len(src), "m": len(tgt), "matrix": [[rat(float(x)) for x in row] for row in m], "assigned": _solve(m)}


def _observe(inp):
    """one call as the pristine-process probe observes it: the output of match_geometries, then the library's own
    affinity matrix for the same arguments"""
    from ..core import canon_exc
    try:
        out = _impl_match(inp)
    except Exception as e:  # noqa: BLE001 - an exception of the real code is an observation
        out = canon_exc(e)
    try:
        out["lib"] = _observe_lib(inp)
    except Exception as e:  # noqa: BLE001
        out["lib"] = canon_exc(e)
    return out


def _geoms_args(inp):
    """request for `matchGeometries`: the lists as indices into the pool of distinct geometries and the table of
    compute_affinity on the pool; the model fills the matrix itself (`fillMatrix`)"""
    a = _matrix_of(inp)
    pool = {}
    si = [pool.setdefault(jkey(g), len(pool)) for g in inp["source"]]
    ti = [pool.setdefault(jkey(g), len(pool)) for g in inp["target"]]
    table = [["0"] * len(pool) for _ in pool]
    for i, p_ in enumerate(si):
        for j, q_ in enumerate(ti):
            table[p_][q_] = a["matrix"][i][j]
    return {"source": si, "target": ti, "table": table, "assigned": a["assigned"]}


# ---------------------------------------------------------------- stubbed affinity (arbitrary matrices)
def _impl_matrix(inp):
    """the real match_geometries with compute_affinity replaced by a lookup in the given matrix"""
    mat = [[_f(x) for x in row] for row in inp["matrix"]]
    src, tgt, ids_s, ids_t = _stub_geoms(inp["n"], inp["m"])

    def stub(geometry1=None, geometry2=None, *a, **kw):
        return mat[ids_s[id(geometry1)]][ids_t[id(geometry2)]]
    with _patched(compute_affinity=stub) as M:
        out = list(M.match_geometries(src, tgt))
    return {"val": _canon(out)}


def _matrix_args(inp):
    mf = np.array([[_f(x) for x in row] for row in inp["matrix"]], dtype=float).reshape(inp["n"], inp["m"])
    return {"n": inp["n"], "m": inp["m"], "matrix": inp["matrix"], "assigned": _solve(mf)}


# ---------------------------------------------------------------- replacing names the code reaches
_MODS = []


@contextlib.contextmanager
def _patched(**repl):
    """replace `name` wherever match_geometries may look it up (its own module, the affinity module, the
    package, scipy.optimize): a rewrite that reaches the same function through another of these names
    keeps the stubs effective"""
    if not _MODS:
        import importlib
        for mn in ("soundevent.evaluation.match", "soundevent.evaluation.affinity", "soundevent.evaluation", "scipy.optimize"):
            try:
                _MODS.append(importlib.import_module(mn))
            except Exception:  # noqa: BLE001
                pass
    mods = _MODS
    saved = []
    for name, fn in repl.items():
        for mod in mods:
            if hasattr(mod, name):
                saved.append((mod, name, getattr(mod, name)))
                setattr(mod, name, fn)
    try:
        yield mods[0]
    finally:
        for mod, name, old in reversed(saved):
            setattr(mod, name, old)


def _stub_geoms(n, m):
    from soundevent import data
    src = [data.TimeStamp(coordinates=float(i)) for i in range(n)]
    tgt = [data.TimeStamp(coordinates=float(j)) for j in range(m)]
    return src, tgt, {id(g): i for i, g in enumerate(src)}, {id(g): j for j, g in enumerate(tgt)}


# ---------------------------------------------------------------- optimality certificates (any size)
def _certificate(rows, n, m):
    """Untrusted helper: exact (Fraction) Hungarian method, rectangular (O(min(n,m)^2 max(n,m))).  Returns row
    potentials u, column potentials v (all >= 0, aff[i][j] <= u[i] + v[j]) and a witness pairing whose value is
    sum(u) + sum(v).  Lean *checks* the certificate (`certOk`, theorem C07_cert_best); nothing here is trusted."""
    if n == 0 or m == 0:
        return [Fraction(0)] * n, [Fraction(0)] * m, []
    if n > m:
        t = [[rows[i][j] for i in range(n)] for j in range(m)]
        v, u, w = _certificate(t, m, n)
        return u, v, sorted([b, a] for a, b in w)
    w = [[max(rows[i][j], Fraction(0)) for j in range(m)] for i in range(n)]
    u = [Fraction(0)] * (n + 1)
    v = [Fraction(0)] * (m + 1)
    p = [0] * (m + 1)
    way = [0] * (m + 1)
    for i in range(1, n + 1):
        p[0] = i
        j0 = 0
        minv = [None] * (m + 1)
        used = [False] * (m + 1)
        while True:
            used[j0] = True
            i0 = p[j0]
            delta = None
            j1 = None
            for j in range(1, m + 1):
                if not used[j]:
                    cur = -w[i0 - 1][j - 1] - u[i0] - v[j]
                    if minv[j] is None or cur < minv[j]:
                        minv[j] = cur
                        way[j] = j0
                    if delta is None or minv[j] < delta:
                        delta = minv[j]
                        j1 = j
            for j in range(m + 1):
                if used[j]:
                    u[p[j]] += delta
                    v[j] -= delta
                elif minv[j] is not None:
                    minv[j] -= delta
            j0 = j1
            if p[j0] == 0:
                break
        while True:
            j1 = way[j0]
            p[j0] = p[j1]
            j0 = j1
            if j0 == 0:
                break
    big_u = [-u[i] for i in range(1, n + 1)]
    big_v = [-v[j] for j in range(1, m + 1)]
    c = min(big_v)          # 0 when a column stays free (n < m); the usual shift for square matrices
    big_u = [x + c for x in big_u]
    big_v = [x - c for x in big_v]
    witness = [[p[j] - 1, j - 1] for j in range(1, m + 1) if p[j] != 0 and rows[p[j] - 1][j - 1] > 0]
    witness.sort()
    return big_u, big_v, witness


def _cert_args(a):
    k = "cert"
    if k not in a:
        rows = [[frac(x) for x in row] for row in a["matrix"]]
        u, v, w = _certificate(rows, a["n"], a["m"])
        a[k] = {"u": [rat(x) for x in u], "v": [rat(x) for x in v], "witness": w}
    return a[k]


BRUTE = 5      # brute-force optimum (factorial) up to BRUTE x BRUTE in quick, 7 x 7 in thorough; beyond: certificate


def _brute_limit(ctx):
    return ctx.budget(BRUTE, 7)


# ---------------------------------------------------------------- the solver's answer as an adversarial parameter
_ORIENT = {"square_transposed": False}


def _solver_stub(n, m, asg, seen=None):
    """stands for linear_sum_assignment: returns the given pairs whatever the matrix.  A rewrite may hand the
    solver the transposed matrix (and swap the answer back): the orientation is read off the shape, for square
    matrices off a probe made by `_solver_selftest`; the answer is then given for the transposed problem."""
    def solver(cost_matrix=None, maximize=False, *a, **kw):
        cost = cost_matrix
        shp = tuple(np.shape(cost))
        if seen is not None:
            seen.append(cost)
        if n != m:
            transposed = shp == (m, n)
            if not transposed and shp != (n, m):
                raise RuntimeError(f"solver stub: unexpected matrix shape {shp}")
        else:
            if shp != (n, m):
                raise RuntimeError(f"solver stub: unexpected matrix shape {shp}")
            transposed = _ORIENT["square_transposed"]
        pairs = sorted((c, r) for r, c in asg) if transposed else [(r, c) for r, c in asg]
        return np.array([x for x, _ in pairs], dtype=int), np.array([y for _, y in pairs], dtype=int)
    return solver


def _impl_solver(inp):
    """the real match_geometries with compute_affinity replaced by a table lookup *and*
    linear_sum_assignment replaced by a given answer"""
    mat = [[_f(x) for x in row] for row in inp["matrix"]]
    src, tgt, ids_s, ids_t = _stub_geoms(inp["n"], inp["m"])

    def aff(geometry1=None, geometry2=None, *a, **kw):
        return mat[ids_s[id(geometry1)]][ids_t[id(geometry2)]]
    solver = _solver_stub(inp["n"], inp["m"], inp["assigned"], inp.get("_seen"))
    with _patched(compute_affinity=aff, linear_sum_assignment=solver) as M:
        out = list(M.match_geometries(src, tgt))
    return {"val": _canon(out)}


def _compare_solver(inp, io, mo):
    c = _model("shape", {"n": inp["n"], "m": inp["m"], "matrix": inp["matrix"], "out": io.get("val", []),
                         "assigned": inp["assigned"]})
    if not c["valid"]:
        # outside scipy's contract: the property says nothing; not compared, only tallied
        if _CTX is not None:
            same = ("raise" in io) == ("raise" in mo) and ("raise" not in io or io["raise"] == mo["raise"])
            _CTX.tally("invalid solver answer: code and model " + ("agree" if same else "differ (not compared)"))
        return None
    if "raise" in io or "raise" in mo:
        return "match_geometries raised on a valid assignment" if "raise" in io else "model raised"
    if io["val"] != _sort_entries(mo["val"]):
        return "match_geometries and selectMatches disagree on a given valid assignment"
    if not c["all"]:
        return "cover / positive pairs / reported affinity fail for a given valid assignment"
    return None


def _solver_args(inp):
    return {"n": inp["n"], "m": inp["m"], "matrix": inp["matrix"], "assigned": inp["assigned"]}


# ---------------------------------------------------------------- compare / monitor
def _mk_compare(args_of):
    def compare(inp, io, mo):
        if "raise" in io or "raise" in mo:
            a = {k: v for k, v in io.items() if k != "trace"}
            return None if a == mo else "implementation and model disagree (exception)"
        got = io["val"]
        want = _sort_entries(mo["val"])
        if got == want:
            return None
        # tie-breaking is not part of the property: accept an output that is the model run on the
        # implementation's own pairs (the monitor `holds` has judged its optimality already)
        a = dict(args_of(inp))
        a["assigned"] = [[e[0], e[1]] for e in got if e[0] is not None and e[1] is not None]
        alt = _model("match", a)
        if "val" in alt and _sort_entries(alt["val"]) == got:
            if _CTX is not None:
                _CTX.tally("tie-break differs from scipy-as-called")
            return None
        return "match_geometries and selectMatches(scipy's assignment) disagree"
    return compare


_XCHECK = [0]


def _mk_holds(args_of, tol):
    def holds(ctx, inp, io):
        if "raise" in io:
            return "match_geometries raised " + str(io["raise"])
        a = args_of(inp)
        n, m = a["n"], a["m"]
        ctx.tally(f"size:{n}x{m}" if max(n, m) <= 7 else f"size:{'8-12' if max(n, m) <= 12 else '13+'}")
        zero_pairs = sum(1 for r, c in a["assigned"] if frac(a["matrix"][r][c]) <= 0)
        if zero_pairs:
            ctx.tally("cases where scipy assigned a zero-affinity pair")
        base = {"n": n, "m": m, "matrix": a["matrix"], "tol": rat(tol)}
        lim = _brute_limit(ctx)
        _XCHECK[0] += 1
        big = n > lim or m > lim
        if big or _XCHECK[0] % 16 == 0:
            # optimum by certificate (Lean checks the certificate: C07_cert_best / C07_holds_by_cert)
            cert = _cert_args(a)
            cargs = dict(base, u=cert["u"], v=cert["v"], witness=cert["witness"])
            vc = ctx.model("holds_cert", dict(cargs, out=io["val"]))
            if not vc["cert"]:
                ctx.tally("certificate rejected by Lean (harness helper; optimality then by brute force or not judged)")
                if big:
                    ctx.fail("obligation", "optimality certificate", inp=inp,
                             detail="the harness could not produce a certificate Lean accepts")
            else:
                ctx.tally("optimality judged by certificate" if big else "certificate cross-checked with the brute force")
        if big:
            if not vc["cert"]:
                return None
            c = ctx.model("contract_cert", dict(cargs, assigned=a["assigned"]))
            v = vc
        else:
            v = ctx.model("holds_contract", dict(base, out=io["val"], assigned=a["assigned"]))
            c = {"valid": v["solver_valid"], "optimal": v["solver_optimal"], "value": v["solver_value"], "best": v["best"]}
            if _XCHECK[0] % 16 == 0 and vc["cert"] and (vc["all"] != v["all"] or vc["best"] != v["best"]):
                ctx.fail("obligation", "optimality certificate", inp=inp,
                         detail="certificate verdict differs from the brute force (contradicts C07_holds_by_cert)")
        # scipy's contract, evaluated on what scipy returned for this matrix
        ctx.contract("ValidAssignment", c["valid"], inp, a["assigned"])
        ctx.contract("solver optimal within tolerance", c["optimal"], inp,
                     {"assigned": a["assigned"], "value": c["value"], "best": c["best"]})
        if v["all"]:
            return None
        bad = [k for k in ("cover_src", "cover_tgt", "entries", "optimal") if not v[k]]
        msg = {"cover_src": "a source index is missing or repeated",
               "cover_tgt": "a target index is missing or repeated",
               "entries": "a pair with non-positive affinity, a reported affinity that is not the pair's affinity, "
                          "or a non-zero one-sided match",
               "optimal": f"sum of reported affinities {v['total']} below the optimum {v['best']}"}
        return "C07 fails: " + "; ".join(msg[k] for k in bad)
    return holds


# ---------------------------------------------------------------- the independent affinity matrix (oracle independence)
def _snap(rows, out, tau):
    """Python twin of `MatchCall.snap` (only to produce a certificate; Lean recomputes the snapped matrix)"""
    b = [list(r) for r in rows]
    seen = set()
    for e in out:
        if e[0] is None or e[1] is None or (e[0], e[1]) in seen:
            continue
        seen.add((e[0], e[1]))
        if e[0] < len(b) and e[1] < len(b[e[0]]) and abs(frac(b[e[0]][e[1]]) - frac(e[2])) <= tau:
            b[e[0]][e[1]] = rat(frac(e[2]))
    return b


def _holds_independent(ctx, inp, io):
    """the output of match_geometries, and the library's compute_affinity, against the affinity of every pair
    stated independently of the code under test (Lean closed forms / GEOS called by the harness on the
    coordinates): theorem C07_holds_ind says what an accepted verdict means"""
    if "raise" in io:
        return None
    ind = oracle.matrix(ctx.model, inp["source"], inp["target"], inp["tb"], inp["fb"])
    if "raise" in ind:
        ctx.tally("independent matrix: the call raises in the model (outside the quantifier; not judged)")
        return None
    ctx.tally("independent matrix entries: closed form (Lean)", ind["closed"])
    ctx.tally("independent matrix entries: GEOS on the coordinates", ind["geos"])
    tau = ind["tau"]
    n, m = len(inp["source"]), len(inp["target"])
    lib = _matrix_of(inp)
    for i in range(n):
        for j in range(m):
            if abs(frac(lib["matrix"][i][j]) - frac(ind["matrix"][i][j])) > tau:
                return ("C07 fails against the independent affinities: "
                        f"compute_affinity(source[{i}], target[{j}], time_buffer={inp['tb']}, freq_buffer={inp['fb']}) = "
                        f"{float(frac(lib['matrix'][i][j]))!r} but the affinity of that pair from the coordinates and the "
                        f"buffers of this call is {float(frac(ind['matrix'][i][j]))!r}")
    ctx.tally("contract:compute_affinity = independent affinity (per matrix)")
    tol = tau * min(n, m) + TOL
    args = {"n": n, "m": m, "matrix": ind["matrix"], "out": io["val"], "tau": rat(tau), "tol": rat(tol)}
    lim = _brute_limit(ctx)
    big = n > lim or m > lim
    if big:
        b = _snap(ind["matrix"], io["val"], tau)
        u, v, w = _certificate([[frac(x) for x in row] for row in b], n, m)
        args.update(u=[rat(x) for x in u], v=[rat(x) for x in v], witness=w)
    r = ctx.model("holds_ind", args)
    if r["all"]:
        return None
    bad = [k for k in ("cover_src", "cover_tgt", "within", "entries", "optimal") if not r[k]]
    if big and not r["cert"] and bad in ([], ["optimal"]):
        ctx.fail("obligation", "optimality certificate", inp=inp,
                 detail="the harness could not produce a certificate Lean accepts (independent matrix)")
        return None
    msg = {"cover_src": "a source index is missing or repeated", "cover_tgt": "a target index is missing or repeated",
           "within": "a reported affinity is not the affinity of that pair computed from the coordinates and the "
                     "buffers of this call",
           "entries": "a pair with non-positive affinity or a non-zero one-sided match",
           "optimal": f"sum of reported affinities {r['total']} below the optimum {r['best']} of the independent matrix"}
    return "C07 fails against the independent affinities: " + "; ".join(msg[k] for k in bad)


def _mk_judge_match():
    lib = _mk_holds(_matrix_of, TOL)

    def judge(ctx, inp, io):
        msg = lib(ctx, inp, io)
        if msg:
            return msg
        msg = _holds_independent(ctx, inp, io)
        if msg:
            return msg
        if inp.get("style"):
            st = inp["style"]
            for k in ("call", "num", "cont", "geom"):
                if st.get(k):
                    ctx.tally(f"style:{k}={_effective_call(inp) if k == 'call' else st[k]}")
            return _bound_call_msg(ctx, inp)
        return None
    return judge


_judge_match = _mk_judge_match()


# ---------------------------------------------------------------- the pristine-process probe (harness/c07_fresh.py)
_FRESH = [None]
_RAW = {}
_RINGS = {"match": collections.deque(maxlen=20), "match_matrix": collections.deque(maxlen=20)}
_PROBE = {"n": 0, "explained": 0}


def _fresh():
    if _FRESH[0] is None:
        import os
        _FRESH[0] = c07_fresh.Fresh(os.environ.get("SOUNDEVENT_SRC", "/repo/src"))
    return _FRESH[0]


def _close_fresh():
    if _FRESH[0] is not None:
        _FRESH[0].close()
        _FRESH[0] = None


import atexit  # noqa: E402
atexit.register(_close_fresh)


def _plain(o):
    if not isinstance(o, dict):
        return o
    out = {k: v for k, v in o.items() if k != "trace"}
    if isinstance(out.get("lib"), dict) and "matrix" in out["lib"]:
        out["lib"] = {k: out["lib"].get(k) for k in ("n", "m", "matrix", "assigned")}
    return out


def _neighbours(base, x):
    """calls likely to share state with `x`: the same geometries with other buffers / the same shape with other entries"""
    if base == "match":
        out = []
        for fb in ("100", "500", "1/2", "1", "1000", "10"):
            if fb != x["fb"]:
                out.append({**x, "fb": fb})
        for tb in ("1/100", "1/4", "1/2", "1"):
            if tb != x["tb"]:
                out.append({**x, "tb": tb})
        out += [{**x, "tb": "1/2", "fb": "1"}, {**x, "tb": "1/4", "fb": "1/2"}]
        return [{k: v for k, v in c.items() if k != "style"} for c in out]
    n, m = x["n"], x["m"]
    flat = [v for row in x["matrix"] for v in row]
    outs = [["0"] * (n * m), ["1"] * (n * m), list(reversed(flat)), [("1/2" if v == "0" else "0") for v in flat]]
    return [dict(x, matrix=[vals[i * m:(i + 1) * m] for i in range(n)]) for vals in outs if vals != flat]


def _hist_input(base, prefix, x):
    seq = [{"inp": r} for r in prefix] + [{"inp": x}]
    return ("match_history", {"seq": seq}) if base == "match" else ("stub_history", {"base": base, "seq": seq})


def _refine(ctx, base, x, io_bad, msg):
    """A failing call: does it fail on its own?  If a fresh process answers the same call differently the failure
    depends on what was called before; then look for a short history (a neighbour of the call - the same geometries
    with other buffers, the same shape with other entries - or one of the recent calls in front of it, finally the
    whole recent past) that reproduces it in a fresh process and record *that* as the violation: its replay stands
    on its own.  Returns the message to report for the single call (None when a history was recorded instead)."""
    F = _fresh()
    alone = F.run({"seq": [{"inp": x}]}, base=base)
    if alone is None:
        return msg
    here = _plain(dict(io_bad, lib=_matrix_of(x))) if base == "match" else _plain(io_bad)
    if _plain(alone[0]) == here:
        return msg
    ctx.tally("pristine-process probe: failing call answers differently in a fresh process (state-dependent)")
    if _PROBE["explained"] >= 2:
        return None              # two reproducing histories are recorded already: the same cause
    _PROBE["refined"] = _PROBE.get("refined", 0) + 1
    if _PROBE["refined"] > 8:
        _DEFERRED.append((base, x, io_bad, msg + " (state-dependent: a fresh process answers this call differently)"))
        return None

    def attempt(prefix):
        outs = F.run({"seq": [{"inp": r} for r in prefix] + [{"inp": x}]}, base=base)
        if outs is None:
            return "stop"
        if _plain(outs[-1]) == _plain(alone[0]):
            return None
        m2 = _judge_observed(ctx, base, x, outs[-1])
        if not m2:
            return None
        _PROBE["explained"] += 1
        name, hist = _hist_input(base, prefix, x)
        ctx.fail("property", name, inp=hist,
                 impl={"steps": [{kk: v for kk, v in o.items() if kk != "lib"} for o in outs], "notes": []},
                 detail=f"history step {len(prefix)} ({' -> '.join(['fresh'] * (len(prefix) + 1))}) gives an answer that "
                        "violates the property: " + m2 +
                        f" [alone, in a fresh process, the same call returns {jkey(_plain(alone[0]))[:200]}]")
        return "done"
    ring = list(_RINGS[base])
    for r in (_neighbours(base, x) + list(reversed(ring)))[:34]:
        res = attempt([r])
        if res == "done":
            return None
        if res == "stop":
            return msg
    if len(ring) > 1 and attempt(ring) == "done":
        return None
    # nothing short reproduces it (e.g. it hinges on object identities): reported at the end of the run only if no
    # violation with a replay that stands on its own was found
    _DEFERRED.append((base, x, io_bad, msg + " (state-dependent: a fresh process answers this call differently; no short "
                                             "history reproduces it, the replay may need the calls made before it)"))
    return None


_DEFERRED = []


def _flush_deferred(ctx):
    if not _DEFERRED:
        return
    if any(f.kind == "property" for f in ctx.failures):
        ctx.note(f"{len(_DEFERRED)} further state-dependent failures of single calls (not reproducible on their own) are "
                 "explained by the recorded violations")
    else:
        for base, x, io, msg in _DEFERRED[:5]:
            ctx.fail("property", base, inp=x, impl=io, detail=msg)
    del _DEFERRED[:]


def _judge_observed(ctx, base, x, obs):
    """judge a call as observed in a fresh process (its output and the library's matrix there)"""
    if base != "match":
        return history._judge(ctx, _RAW[base], x, obs)[0]
    k = _core_key(x)
    out = {kk: v for kk, v in obs.items() if kk != "lib"}
    if isinstance(obs.get("lib"), dict) and "matrix" in obs["lib"]:
        _LIB_OVERRIDE[k] = obs["lib"]
    try:
        m2, _ = history._judge(ctx, _MATCH_RAW, x, out)
    finally:
        _LIB_OVERRIDE.pop(k, None)
    return m2


def _holds_match(ctx, inp, io):
    msg = _judge_match(ctx, inp, io)
    if _CTX is None:          # --replay: judge only
        return msg
    if msg is None:
        _PROBE["n"] += 1
        if _PROBE["n"] % 9 == 0 and "raise" not in io:
            # purity monitor: the answer must not depend on the calls made earlier in this process
            alone = _fresh().run({"seq": [{"inp": inp}]})
            if alone is not None:
                ctx.tally("pristine-process probe: same answer in a fresh process")
                if _plain(alone[0]) != _plain(dict(io, lib=_matrix_of(inp))):
                    ctx.tally("pristine-process probe: same answer in a fresh process", -1)
                    msg = ("the answer to this call (or the library's affinity matrix for it) depends on the calls made "
                           f"earlier in this process: a fresh process gives {jkey(_plain(alone[0]))[:300]}")
    if msg is not None:
        msg = _refine(ctx, "match", inp, io, msg)
    _RINGS["match"].append(inp)
    return msg


def _holds_matrix_probed(ctx, inp, io):
    """`match_matrix` with the probe: the stubbed operation, too, must not depend on earlier calls"""
    msg = _RAW["match_matrix"].holds(ctx, inp, io)
    if _CTX is None:
        return msg
    if msg is None and inp["n"] * inp["m"] <= 64:
        _PROBE["n"] += 1
        if _PROBE["n"] % 67 == 0 and _PROBE.get("matrix_probes", 0) < 500:
            _PROBE["matrix_probes"] = _PROBE.get("matrix_probes", 0) + 1
            alone = _fresh().run({"seq": [{"inp": inp}]}, base="match_matrix")
            if alone is not None:
                ctx.tally("pristine-process probe: same answer in a fresh process")
                if _plain(alone[0]) != _plain(io):
                    ctx.tally("pristine-process probe: same answer in a fresh process", -1)
                    msg = ("the answer to this call depends on the calls made earlier in this process: a fresh process "
                           f"gives {jkey(_plain(alone[0]))[:300]}")
    if msg is not None:
        msg = _refine(ctx, "match_matrix", inp, io, msg)
    if inp["n"] * inp["m"] <= 64:
        _RINGS["match_matrix"].append(inp)
    return msg


def _sig(msg):
    """the report keeps one replay per (operation, first 60 characters of the message): keep the varying part of a
    history's message behind a fixed clause so that different operations / reuse trails get the replay slots"""
    import re
    return re.sub(r"^((?:history step|call) \d+ (?:\([^)]*\)|of \d+ consumed in turn)): ",
                  lambda m_: m_.group(1) + " gives an answer that violates the property: ", msg) if msg else msg


def _holds_history(raw, opname):
    def holds(ctx, h, io):
        return _sig(inner(ctx, h, io))

    def inner(ctx, h, io):
        msg = raw(ctx, h, io)
        if msg is None or _CTX is None:
            return msg
        _PROBE["confirmed"] = _PROBE.get("confirmed", 0) + 1
        if _PROBE["confirmed"] > 6:
            return msg                      # enough failing histories were re-run in a fresh process
        F = _fresh()
        again = F.run(h, op=opname)
        if again is None:
            return msg                      # the probe is unavailable
        libs, again = again.get("libs", {}), again.get("out", {})
        _LIB_OVERRIDE.update(libs)
        try:
            m2 = raw(ctx, h, again)
        finally:
            for k in libs:
                _LIB_OVERRIDE.pop(k, None)
        if m2:
            return m2 + " [as observed when the history runs in a fresh process]"
        # the history is fine on its own: what failed here was caused by calls made before it
        import re
        k = re.match(r"(?:history step|call) (\d+)", msg)
        if k and int(k.group(1)) < len(io.get("steps", [])):
            k = int(k.group(1))
            return _refine(ctx, h.get("base", "match"), h["seq"][k]["inp"], io["steps"][k], msg)
        return msg + " (not reproduced when the history runs in a fresh process)"
    return holds


def _nontrivial(inp, out):
    if "val" not in out:
        return False
    if "source" in inp:
        return len(inp["source"]) > 0 and len(inp["target"]) > 0
    return inp["n"] > 0 and inp["m"] > 0


OPS = {
    "match": Op("match", _impl_match, to_model=_geoms_args, model_op="match_geoms",
                compare=_mk_compare(_matrix_of), holds=_holds_match, determined=False,
                nontrivial=_nontrivial, mode="exact"),
    "match_matrix": Op("match_matrix", _impl_matrix, to_model=_matrix_args, compare=_mk_compare(_matrix_args),
                       holds=_holds_matrix_probed, determined=False, nontrivial=_nontrivial,
                       mode="exact", model_op="match", shrink=True),
    # the solver's answer as a parameter (any answer scipy's documented contract allows, optimal or not):
    # ties `selectMatches` to the code for the whole quantifier of the theorems, independent of scipy's choices
    "match_solver": Op("match_solver", _impl_solver, to_model=_solver_args, compare=_compare_solver, determined=False,
                       nontrivial=_nontrivial, mode="exact", model_op="match"),
}


# ---------------------------------------------------------------- histories (harness/history.py, HISTORIES.md section 1)
def _h_build(inp):
    return _live_args(inp)


def _h_call(args):
    return list(_invoke(args))


def _h_canon(inp, args, res):
    return {"val": _canon(res)}


def _h_snapshot(args):
    """content of every argument: geometries (type, coordinates), list lengths, the buffers"""
    def side(xs):
        return [gen_geom.from_data(xs[i]) for i in range(len(xs))]
    return [side(args["src"]), side(args["tgt"]), rat(float(args["tb"])), rat(float(args["fb"]))]


H_REUSE = ("pool", "same_lists", "assign", "copy_update", "deep_copy_update", "inplace_list")


def _h_modify(args, inp, how):
    """the live objects of the previous step turned into the arguments of this step: the very same lists with other
    buffers, the same geometry objects in new lists, geometry objects whose coordinates are assigned to /
    model_copy(update=...)d, lists edited in place - nothing remembered from the earlier use may survive"""
    new = _live_args(inp)
    old_src = [args["src"][i] for i in range(len(args["src"]))]
    old_tgt = [args["tgt"][i] for i in range(len(args["tgt"]))]
    osj, otj, oalias = args["json"]
    if how == "same_lists":
        if jkey([osj, otj, oalias]) != jkey(new["json"]):
            return None
        new["src"], new["tgt"] = args["src"], args["tgt"]
        return new
    if how == "pool":
        pool = {}
        for g, o in list(zip(osj, old_src)) + list(zip(otj, old_tgt)):
            pool.setdefault(jkey(g), o)
        src = [pool.get(jkey(g)) or _geom_obj(g) for g in inp["source"]]
        new["src"] = src
        new["tgt"] = src if inp.get("alias") else [pool.get(jkey(g)) or _geom_obj(g) for g in inp["target"]]
        return new
    if how == "inplace_list":
        if not isinstance(args["src"], list) or not isinstance(args["tgt"], list) or oalias or inp.get("alias"):
            return None
        args["src"][:] = [new["src"][i] for i in range(len(new["src"]))]
        args["tgt"][:] = [new["tgt"][i] for i in range(len(new["tgt"]))]
        new["src"], new["tgt"] = args["src"], args["tgt"]
        return new
    if how in ("assign", "copy_update", "deep_copy_update"):
        if oalias or inp.get("alias"):
            return None

        def side(old, want):
            if len(old) != len(want) or any(o.type != w["type"] for o, w in zip(old, want)):
                return None
            out = []
            for o, w in zip(old, want):
                c = gen_geom.coords_float(w)
                if how == "assign":
                    o.coordinates = c
                    out.append(o)
                else:
                    out.append(o.model_copy(update={"coordinates": c}, deep=(how == "deep_copy_update")))
            return out
        a, b = side(old_src, inp["source"]), None
        if a is None:
            return None
        b = side(old_tgt, inp["target"])
        if b is None:
            if how == "assign":      # the sources were already assigned to: they carry this step's content
                new["src"] = a
                return new
            return None
        new["src"], new["tgt"] = a, b
        return new
    return None


def _h_poison(res):
    """the caller edits the list it built from the matches"""
    if not res:
        return False
    res.reverse()
    res.append(res[0])
    return True


_BUFFER_CHOICES = [("1/100", "100"), ("1/4", "1/2"), ("1/2", "1"), ("1/2", "1000"), ("1/8", "100"), ("1/100", "500"),
                   ("1", "100"), ("1/16", "50")]


def _h_variants(x, rng):
    """neighbours of a call: the same geometries with other buffers (written out, or left to the defaults),
    source and target exchanged, one geometry moved, one geometry more"""
    out = []
    for tb, fb in rng.sample(_BUFFER_CHOICES, 4):
        if (tb, fb) != (x["tb"], x["fb"]):
            out.append({**x, "tb": tb, "fb": fb})
    out.append({**x, "tb": "1/100", "fb": "100", "style": {"call": rng.choice(["default", "default_fb", "default_tb"])}})
    out.append({**x, "style": {"call": rng.choice(["pos", "kw_rev", "pos3"])}})
    if not x.get("alias"):
        out.append({**x, "source": x["target"], "target": x["source"]})
        if x["source"]:
            i = rng.randrange(len(x["source"]))
            moved = _shift_geom(x["source"][i], rng.choice([Fraction(1, 4), Fraction(1, 2), 1]))
            out.append({**x, "source": x["source"][:i] + [moved] + x["source"][i + 1:]})
        out.append({**x, "target": x["target"] + [_grid_geom(rng)]})
    return out


def _shift_geom(g, d):
    def sh(c):
        if isinstance(c, list) and c and not isinstance(c[0], list) and len(c) == 2:
            return [rat(frac(c[0]) + d), c[1]]
        return [sh(x) for x in c]
    ty, c = g["type"], g["coordinates"]
    if ty == "TimeStamp":
        return {"type": ty, "coordinates": rat(frac(c) + d)}
    if ty == "TimeInterval":
        return {"type": ty, "coordinates": [rat(frac(c[0]) + d), rat(frac(c[1]) + d)]}
    if ty == "BoundingBox":
        return {"type": ty, "coordinates": [rat(frac(c[0]) + d), c[1], rat(frac(c[2]) + d), c[3]]}
    if ty == "Point":
        return {"type": ty, "coordinates": [rat(frac(c[0]) + d), c[1]]}
    return {"type": ty, "coordinates": sh(c)}


def _impl_interleaved(h):
    """several calls whose generators are created first and consumed in turn (match_geometries is lazy): nothing
    one call keeps between its yields may be touched by another"""
    live = [_live_args(st["inp"]) for st in h["seq"]]
    gens = [iter(_invoke(a)) for a in live]
    outs = [[] for _ in gens]
    done = [False] * len(gens)
    while not all(done):
        for k, g in enumerate(gens):
            if done[k]:
                continue
            try:
                outs[k].append(next(g))
            except StopIteration:
                done[k] = True
    return {"steps": [{"val": _canon(o)} for o in outs]}


def _holds_interleaved(ctx, h, io):
    if "raise" in io:
        return f"the interleaved calls raised {io['raise']}"
    for k, (st, out) in enumerate(zip(h["seq"], io["steps"])):
        msg, _ = history._judge(ctx, _MATCH_RAW, st["inp"], out)
        if msg:
            return f"call {k} of {len(h['seq'])} consumed in turn: {msg}"
    return None


def _soft(name, compare):
    """inside a history a step whose output satisfies the property (`holds`) but differs from the model is a broken
    correspondence, as it is for the base operation on its own (determined=False) - never a property violation"""
    def cmp(inp, io, mo):
        msg = compare(inp, io, mo)
        if msg and _CTX is not None:
            _CTX.fail("correspondence", name, inp=inp, impl=io, model=mo, detail=msg + " (inside a history)")
        return None
    return cmp


# the base operations of the histories: judged step by step without the probe (the probe works on whole histories)
_MATCH_RAW = Op("match", _impl_match, to_model=_geoms_args, model_op="match_geoms",
                compare=_soft("match", _mk_compare(_matrix_of)),
                holds=_judge_match, determined=False, nontrivial=_nontrivial, mode="exact")
_RAW.update({"match": _MATCH_RAW,
             "match_matrix": Op("match_matrix", _impl_matrix, to_model=_matrix_args,
                                compare=_soft("match_matrix", _mk_compare(_matrix_args)),
                                holds=_mk_holds(_matrix_args, Fraction(0)), determined=False, nontrivial=_nontrivial,
                                mode="exact", model_op="match"),
             "match_solver": Op("match_solver", _impl_solver, to_model=_solver_args,
                                compare=_soft("match_solver", _compare_solver), determined=False,
                                nontrivial=_nontrivial, mode="exact", model_op="match")})


def _observe_op(base, inp):
    """one call of a base operation as the pristine-process probe observes it"""
    if base == "match":
        return _observe(inp)
    from ..core import canon_exc
    try:
        return OPS[base].impl(inp)
    except Exception as e:  # noqa: BLE001 - an exception of the real code is an observation
        return canon_exc(e)


def _impl_stub_history(h):
    """consecutive calls of a stubbed operation (arbitrary matrices / solver answers) in one process"""
    return {"steps": [_observe_op(h["base"], st["inp"]) for st in h["seq"]], "notes": []}


def _holds_stub_history(ctx, h, io):
    if "raise" in io:
        return f"the history driver raised {io['raise']}"
    for k, (st, out) in enumerate(zip(h["seq"], io["steps"])):
        msg, _ = history._judge(ctx, _RAW[h["base"]], st["inp"], out)
        if msg:
            return f"history step {k} ({' -> '.join(['fresh'] * (k + 1))}): {msg}"
    return None


OPS["stub_history"] = Op("stub_history", _impl_stub_history, holds=_holds_history(_holds_stub_history, "stub_history"),
                         compare=lambda inp, io, mo: None, determined=True, mode="exact", no_model=True,
                         nontrivial=lambda inp, out: isinstance(out, dict) and "steps" in out)
OPS["match_history"] = history.history_op("match_history", _MATCH_RAW, _h_build, _h_call, _h_canon,
                                          snapshot=_h_snapshot, modify=_h_modify, poison=_h_poison)
OPS["match_history"].holds = _holds_history(OPS["match_history"].holds, "match_history")
OPS["match_interleaved"] = Op("match_interleaved", _impl_interleaved,
                              holds=_holds_history(_holds_interleaved, "match_interleaved"),
                              compare=lambda inp, io, mo: None, determined=True, mode="exact", no_model=True,
                              nontrivial=lambda inp, out: isinstance(out, dict) and "steps" in out)


# ---------------------------------------------------------------- generators
def _box(s, lo, e, hi):
    return {"type": "BoundingBox", "coordinates": [rat(Fraction(x)) for x in (s, lo, e, hi)]}


def _interval(s, e):
    return {"type": "TimeInterval", "coordinates": [rat(Fraction(s)), rat(Fraction(e))]}


def _stamp(t):
    return {"type": "TimeStamp", "coordinates": rat(Fraction(t))}


def _grid_geom(rng):
    """tie-rich grid: integer seconds, three frequency bands; far-apart placements are common"""
    r = rng.random()
    s = rng.choice([0, 1, 2, 3, 8, 9, 20])
    w = rng.choice([1, 1, 2])
    if r < 0.55:
        lo = rng.choice([0, 1000, 2000])
        h = rng.choice([1000, 1000, 2000])
        if rng.random() < 0.04:
            w = 0          # zero-width box: area 0, affinity 0 even with itself
        return _box(s, lo, s + w, lo + h)
    if r < 0.8:
        return _interval(s, s + w)
    if r < 0.9:
        # quarter offsets: with time_buffer 1/4 or 1/2 different instants overlap partially
        return _stamp(s + rng.choice([0, 0, Fraction(1, 4), Fraction(1, 2)]))
    if r < 0.93:
        return {"type": "Point", "coordinates": [rat(s + rng.choice([0, Fraction(1, 4)])), rat(Fraction(rng.choice([1000, 1000, 1001])))]}
    return gen_geom.gen_valid(rng, rng.choice(["Point", "LineString", "Polygon", "MultiPoint"]), tmax=4, fmax=4, k=1)


def _buffers(rng, geoms):
    low_dim = any(g["type"] in ("TimeStamp", "Point", "LineString", "MultiPoint", "MultiLineString") for g in geoms)
    if low_dim:
        return rng.choice([("1/100", "100"), ("1/4", "1/2"), ("1/2", "1")])
    return rng.choice([("1/100", "100"), ("0", "0"), ("1/4", "1/2")])


def _grid_cases(rng, count, nmax, nmin=0):
    for _ in range(count):
        n = rng.randint(nmin, nmax)
        m = rng.randint(nmin, nmax)
        pool = [_grid_geom(rng) for _ in range(rng.randint(1, 4))]
        src = [rng.choice(pool) if rng.random() < 0.5 else _grid_geom(rng) for _ in range(n)]
        tgt = [rng.choice(pool) if rng.random() < 0.5 else _grid_geom(rng) for _ in range(m)]
        if n and m and rng.random() < 0.12:
            # a sliver: two intervals (or boxes) overlapping by 2^-33 s (affinity about 6e-11, far above the tolerance)
            t0 = rng.choice([0, 3, 20])
            eps = Fraction(1, 2 ** rng.choice([20, 33]))
            if rng.random() < 0.5:
                a, b = _interval(t0, t0 + 1), _interval(t0 + 1 - eps, t0 + 2)
            else:
                a, b = _box(t0, 0, t0 + 1, 1000), _box(t0 + 1 - eps, 0, t0 + 2, 1000)
            src[rng.randrange(n)] = a
            tgt[rng.randrange(m)] = b
        tb, fb = _buffers(rng, src + tgt)
        case = {"source": src, "target": tgt, "tb": tb, "fb": fb}
        if n and rng.random() < 0.06:
            # the same list object on both sides (zero buffers make instants and points degenerate: affinity 0 with themselves)
            case = {"source": src, "target": src, "tb": rng.choice([tb, "0"]), "fb": rng.choice([fb, "0"]), "alias": True}
        yield case


_POOL = [_box(0, 0, 1, 1000), _box(0, 0, 2, 1000), _box(1, 0, 2, 1000), _box(5, 0, 6, 1000), _interval(0, 1),
         _box(0, 1000, 1, 2000)]


def _exhaustive_lists(pool, nmax):
    for n in range(nmax + 1):
        for m in range(nmax + 1):
            for src in itertools.product(pool, repeat=n):
                for tgt in itertools.product(pool, repeat=m):
                    yield {"source": list(src), "target": list(tgt), "tb": "0", "fb": "0"}


def _free_geom(rng):
    """arbitrary binary64 coordinates (free mode)"""
    ty = rng.choice(gen_geom.TYPES)
    if ty in ("BoundingBox", "TimeInterval", "TimeStamp", "Point") or rng.random() < 0.5:
        t0 = rng.uniform(0, 3)
        t1 = t0 + rng.uniform(0.001, 2)
        f0 = rng.uniform(0, 4000)
        f1 = f0 + rng.uniform(1, 3000)
        if ty == "TimeStamp":
            return {"type": ty, "coordinates": rat(t0)}
        if ty == "TimeInterval":
            return {"type": ty, "coordinates": [rat(t0), rat(t1)]}
        if ty == "Point":
            return {"type": ty, "coordinates": [rat(t0), rat(f0)]}
        return {"type": "BoundingBox", "coordinates": [rat(t0), rat(f0), rat(t1), rat(f1)]}
    return gen_geom.gen_valid(rng, ty, tmax=4, fmax=8, k=4)


def _free_cases(rng, count, nmax):
    for _ in range(count):
        n = rng.randint(0, nmax)
        m = rng.randint(0, nmax)
        src = [_free_geom(rng) for _ in range(n)]
        tgt = [(rng.choice(src) if src and rng.random() < 0.3 else _free_geom(rng)) for _ in range(m)]
        yield {"source": src, "target": tgt, "tb": rng.choice(["1/100", "1/8", rat(0.05)]),
               "fb": rng.choice(["100", "1/2", rat(33.3)])}


def _matrix_case(n, m, vals):
    return {"n": n, "m": m, "matrix": [[vals[i * m + j] for j in range(m)] for i in range(n)]}


def _exhaustive_matrices(values, max_cells, dims=3):
    for n in range(dims + 1):
        for m in range(dims + 1):
            if n * m > max_cells:
                continue
            for vals in itertools.product(values, repeat=n * m):
                yield _matrix_case(n, m, vals)


def _random_matrices(rng, count, nmax):
    for _ in range(count):
        n = rng.randint(0, nmax)
        m = rng.randint(0, nmax)
        style = rng.random()
        if style < 0.4:
            pool = ["0", "0", "1/4", "1/2", "1"]
        elif style < 0.6:
            pool = ["0", "1"]
        elif style < 0.7:
            pool = ["0"] + [rat(Fraction(rng.randint(0, 16), 16)) for _ in range(3)]
        elif style < 0.8:
            # tiny but positive affinities (slivers): every one of them counts
            pool = ["0", "1/1099511627776", "1/1073741824", "1/1048576", "1/2", "1"]
        else:
            pool = None
        vals = [rng.choice(pool) if pool else rat(Fraction(rng.randint(0, 1024), 1024)) for _ in range(n * m)]
        if rng.random() < 0.2 and n and m:
            # an all-zero row or column
            i = rng.randrange(n)
            for j in range(m):
                vals[i * m + j] = "0"
        yield _matrix_case(n, m, vals)


# ---------------------------------------------------------------- follow-up generators (HISTORIES.md sections 2-4)
def _near_geom(rng, ty=None):
    """a geometry of the given type placed so that neighbours overlap or not depending on the buffers
    (times around 1-2 s in quarter steps, frequencies around 1-2 kHz)"""
    ty = ty or rng.choice(gen_geom.TYPES)
    t = Fraction(rng.choice([4, 5, 5, 6, 7, 8]), 4)
    f = Fraction(rng.choice([1000, 1000, 1100, 1500]))
    q, h = Fraction(1, 4), Fraction(1, 2)
    if ty == "TimeStamp":
        c = t
    elif ty == "TimeInterval":
        c = [t, t + h]
    elif ty == "Point":
        c = [t, f]
    elif ty == "MultiPoint":
        c = [[t, f], [t + q, f + 200]]
    elif ty == "LineString":
        c = [[t, f], [t + h, f + 300]]
    elif ty == "MultiLineString":
        c = [[[t, f], [t + h, f]], [[t + 1, f + 500], [t + 1 + h, f + 500]]]
    elif ty == "BoundingBox":
        c = [t, f, t + h, f + 500]
    elif ty == "Polygon":
        c = [[[t, f], [t + 1, f], [t + h, f + 800], [t, f]]]
    else:
        c = [[[[t, f], [t + h, f], [t + q, f + 400], [t, f]]], [[[t + 1, f], [t + 1 + h, f], [t + 1 + q, f + 400], [t + 1, f]]]]
    return {"type": ty, "coordinates": gen_geom._enc(c)}


def _near_cases(rng, count, nmax=3, low_dim=0.6):
    low = ["TimeStamp", "Point", "MultiPoint", "LineString", "MultiLineString"]
    for _ in range(count):
        n, m = rng.randint(1, nmax), rng.randint(1, nmax)
        pick = lambda: _near_geom(rng, rng.choice(low) if rng.random() < low_dim else None)
        pool = [pick() for _ in range(2)]
        src = [rng.choice(pool) if rng.random() < 0.3 else pick() for _ in range(n)]
        tgt = [rng.choice(pool) if rng.random() < 0.3 else pick() for _ in range(m)]
        tb, fb = rng.choice(_BUFFER_CHOICES)
        yield {"source": src, "target": tgt, "tb": tb, "fb": fb}


def _type_pair_cases(rng):
    """every ordered pair of geometry types x buffer settings that change the time buffer only, the frequency
    buffer only, both, none (options x input classes; sibling branches of _prepare_geometry / the two branches of
    compute_affinity)"""
    settings = [("1/100", "100"), ("1/4", "100"), ("1/100", "500"), ("1/2", "1000"), ("1/8", "1/2")]
    for a in gen_geom.TYPES:
        for b in gen_geom.TYPES:
            for tb, fb in settings:
                yield {"source": [_near_geom(rng, a), _near_geom(rng, a)], "target": [_near_geom(rng, b), _near_geom(rng, b)],
                       "tb": tb, "fb": fb}


def _style_cases(rng, per_value):
    """every value of every style dimension, the other dimensions random; the fixed cases are built so that
    exchanging or dropping a buffer changes the answer"""
    dims = {"call": CALL_STYLES, "num": NUM_STYLES, "cont": CONT_STYLES, "geom": GEOM_STYLES}
    fixed = [
        {"source": [_stamp(1), {"type": "Point", "coordinates": ["1", "1000"]}],
         "target": [_stamp(Fraction(5, 4)), {"type": "Point", "coordinates": ["5/4", "1200"]}], "tb": "1/2", "fb": "500"},
        {"source": [_stamp(1), {"type": "Point", "coordinates": ["1", "1000"]}],
         "target": [_stamp(Fraction(129, 128)), {"type": "Point", "coordinates": ["129/128", "1050"]}], "tb": "1/100", "fb": "100"},
        {"source": [_stamp(2), _box(1, 1000, 2, 2000)], "target": [_stamp(3), _interval(1, 3)], "tb": "1", "fb": "100"},
        {"source": [{"type": "Point", "coordinates": ["2", "1000"]}], "target": [{"type": "Point", "coordinates": ["2", "1004"]}],
         "tb": "1/100", "fb": "4"},
    ]
    for dim, values in dims.items():
        for val in values:
            for k in range(per_value):
                base = fixed[k % len(fixed)] if k < len(fixed) else next(_near_cases(rng, 1))
                st = {d: rng.choice(vs) for d, vs in dims.items()}
                st[dim] = val
                st["share"] = rng.random() < 0.3
                yield {**base, "style": st}


def _boundary_geometry_cases():
    """tolerance-sized offsets around the one comparison the property pins (affinity > 0), at small and large
    magnitudes; every point of the 10 ms lattice with the 10 ms default buffer"""
    out = []
    # tiny but positive intersections over unions: 1e-6 ... 1e-12 (all must be paired)
    for L in (1.0, 1000.0, 86400.0):
        for k in range(6, 13):
            w = L * 10.0 ** (-k)
            t = L / 2
            if t + w > t:
                out.append({"source": [_fi(t, t + w)], "target": [_fi(0.0, L)], "tb": "1/100", "fb": "100"})
                out.append({"source": [_fi(0.0, L), _fi(L + 1, L + 2)], "target": [_fi(t, t + w)], "tb": "0", "fb": "0"})
    out.append({"source": [_fb(10.0, 40000.0, 10.001, 40050.0)], "target": [_fb(0.0, 0.0, 300.0, 96000.0)], "tb": "1/100", "fb": "100"})
    out.append({"source": [_fb(10.0, 40000.0, 10.001, 40050.0), _fb(20.0, 100.0, 20.0001, 100.5)],
                "target": [_fb(0.0, 0.0, 300.0, 96000.0), _fb(0.0, 0.0, 300.0, 96000.0)], "tb": "1/100", "fb": "100"})
    # touching / overlapping by eps / separated by eps, at magnitudes 1 and 1e6
    for base, eps in ((0.0, 2.0 ** -40), (0.0, 1e-12), (0.0, 1e-9), (0.0, 1e-6), (1e6, 2.0 ** -20), (1e6, 1e-6), (1e6, 1e-9 * 1e6)):
        for d in (0.0, eps, -eps):
            a, b = _fi(base, base + 1), _fi(base + 1 - d, base + 2)
            out.append({"source": [a], "target": [b], "tb": "1/100", "fb": "100"})
            out.append({"source": [_fb(base, 0.0, base + 1, 1000.0)], "target": [_fb(base + 1 - d, 0.0, base + 2, 1000.0)],
                        "tb": "1/100", "fb": "100"})
    # the 10 ms lattice: stamps two steps apart touch (affinity 0 up to one rounding), one step apart overlap by a third
    for off in (0, 1000):
        for k in range(0, 131 if off == 0 else 41):
            st = lambda j: {"type": "TimeStamp", "coordinates": rat((off * 100 + j) / 100)}
            out.append({"source": [st(k)], "target": [st(k + 2), st(k + 1)], "fb": "100",
                        **({"tb": "1/100", "style": {"call": "default"}} if k % 2 else {"tb": rat(0.01)})})
    return out


def _fi(s, e):
    return {"type": "TimeInterval", "coordinates": [rat(float(s)), rat(float(e))]}


def _fb(s, lo, e, hi):
    return {"type": "BoundingBox", "coordinates": [rat(float(x)) for x in (s, lo, e, hi)]}


def _boundary_matrix_cases(rng):
    """alternatives that differ by 1e-6 ... 1e-12, tiny decimal entries, shapes across the thresholds where an
    implementation could switch strategy (> 16 elements, > 256 cells, >= 1024 pairs / items)"""
    for a in (0.5, 1e-3, 1.0 - 1e-6):
        for d in (1e-6, 1e-9, 1e-12):
            other = a + d if a + d <= 1.0 else a - d
            lo, hi = rat(min(a, other)), rat(max(a, other))
            yield {"n": 2, "m": 2, "matrix": [[lo, hi], [hi, lo]]}
            yield {"n": 2, "m": 2, "matrix": [[hi, lo], [lo, hi]]}
            yield {"n": 2, "m": 3, "matrix": [[lo, hi, lo], [hi, hi, lo]]}
            yield {"n": 3, "m": 3, "matrix": [[hi, lo, "0"], [lo, hi, lo], ["0", lo, hi]]}
    tiny = ["0"] + [rat(10.0 ** -k) for k in (6, 8, 9, 10, 12)]
    for vals in itertools.product(tiny, repeat=4):
        if rng.random() < 0.25:
            yield _matrix_case(2, 2, list(vals))
    for v in tiny[1:]:
        yield _matrix_case(1, 1, [v])
        yield _matrix_case(1, 2, ["0", v])
        yield _matrix_case(2, 1, [v, "0"])
    for n, m in ((17, 17), (16, 17), (33, 32), (3, 400), (2, 600), (1030, 1), (1, 1030), (257, 1), (5, 52)):
        pool = rng.choice([["0", "0", "1/4", "1/2", "1"], ["0", "1"], None])
        vals = [rng.choice(pool) if pool else rat(Fraction(rng.randint(0, 1024), 1024)) for _ in range(n * m)]
        yield _matrix_case(n, m, vals)


def _long_time_lists(rng, count):
    """>= 1024 pairs of real geometries (time stamps and intervals: closed-form affinities)"""
    for _ in range(count):
        n, m = rng.choice([(35, 30), (33, 32), (18, 60)])
        def g():
            t0 = Fraction(rng.randint(0, 160), 4)
            return _stamp(t0) if rng.random() < 0.5 else _interval(t0, t0 + Fraction(rng.randint(1, 8), 4))
        src = [g() for _ in range(n)]
        tgt = [g() for _ in range(m)]
        yield {"source": src, "target": tgt, "tb": rng.choice(["1/4", "1/2", "1/100"]), "fb": "100"}


# ---------------------------------------------------------------- the solver's answer as a parameter: generators
def _contract_assignments(n, m):
    """every answer scipy's documented contract allows on an n x m matrix: min(n, m) pairs, rows ascending,
    rows distinct, columns distinct"""
    k = min(n, m)
    for rows in itertools.combinations(range(n), k):
        for cols in itertools.permutations(range(m), k):
            yield [[r, c] for r, c in zip(rows, cols)]


def _solver_cases_exhaustive(values, max_cells):
    for n in range(4):
        for m in range(4):
            if n * m > max_cells:
                continue
            for vals in itertools.product(values, repeat=n * m):
                for asg in _contract_assignments(n, m):
                    yield dict(_matrix_case(n, m, vals), assigned=asg)


def _solver_cases_random(rng, count, nmax):
    for case in _random_matrices(rng, count, nmax):
        n, m = case["n"], case["m"]
        k = min(n, m)
        rows = sorted(rng.sample(range(n), k))
        cols = rng.sample(range(m), k)
        r = rng.random()
        asg = [[a, b] for a, b in zip(rows, cols)]
        if r < 0.06 and k >= 1:
            asg = asg + [[asg[0][0], (asg[0][1] + 1) % m]]          # a row twice (outside the contract)
        elif r < 0.10 and k >= 1:
            asg = [[asg[0][0], m]] + asg[1:]                         # column out of range
        elif r < 0.2 and k >= 2:
            asg = asg[:-1]                                           # a partial (still one-to-one) answer
        elif r < 0.3:
            rng.shuffle(asg)                                         # rows not ascending
        yield dict(case, assigned=asg)


# ---------------------------------------------------------------- Tie 1b at fixed shapes
class _NumpyProxy:
    """numpy, except that `zeros` (and `empty`/`full`) give object arrays so that symbolic numbers can be stored"""

    def __getattr__(self, name):
        return getattr(np, name)

    @staticmethod
    def zeros(shape=None, *a, **kw):
        out = np.empty(shape, dtype=object)
        out.fill(0)
        return out

    empty = zeros

    @staticmethod
    def array(obj, dtype=None, *a, **kw):
        return np.array(obj, dtype=object)

    asarray = array

    @staticmethod
    def full(shape, fill_value=0, *a, **kw):
        out = np.empty(shape, dtype=object)
        out.fill(fill_value)
        return out


class _Entries:
    """a traced output: concrete indices, symbolic (or literal) affinities"""

    def __init__(self, ents):
        self.ents = ents

    def lean(self):
        from .. import symtrace as st
        opt = lambda x: "none" if x is None else f"some {x}"
        return "[" + ", ".join(f"⟨{opt(s_)}, {opt(t_)}, {a_.e if isinstance(a_, st.Sym) else st.lit(a_)}⟩"
                               for s_, t_, a_ in self.ents) + "]"


def _tree_lean(tree, indent=4):
    """Lean term of a traced decision tree whose leaves are `_Entries`"""
    if tree[0] == "ite":
        pad = " " * indent
        return (f"if {tree[1][0]} then\n{pad}{_tree_lean(tree[2], indent + 2)}\n"
                f"{' ' * (indent - 2)}else\n{pad}{_tree_lean(tree[3], indent + 2)}")
    leaf = tree[1]
    return "some " + leaf[1].lean() if leaf[0] == "ok" else "none"


def _sym_thunk(n, m, asg):
    from ..symtrace import Sym
    names = [[f"a{i}{j}" for j in range(m)] for i in range(n)]

    def thunk():
        import builtins
        src, tgt, ids_s, ids_t = _stub_geoms(n, m)

        def aff(geometry1=None, geometry2=None, *a, **kw):
            return Sym.var(names[ids_s[id(geometry1)]][ids_t[id(geometry2)]])

        solver = _solver_stub(n, m, asg)

        class to_float(builtins.float):
            """`float` inside the traced module: symbolic numbers pass through (as a dtype numpy reads it as object)"""

            def __new__(cls, x=0.0, *a):
                return x if isinstance(x, Sym) else builtins.float(x, *a)
        with _patched(compute_affinity=aff, linear_sum_assignment=solver) as M:
            had_np, old_np = hasattr(M, "np"), getattr(M, "np", None)
            had_numpy, old_numpy = hasattr(M, "numpy"), getattr(M, "numpy", None)
            if had_np:
                M.np = _NumpyProxy()
            if had_numpy:
                M.numpy = _NumpyProxy()
            M.float = to_float
            try:
                out = list(M.match_geometries(src, tgt))
            finally:
                del M.float
                if had_np:
                    M.np = old_np
                if had_numpy:
                    M.numpy = old_numpy
        # canonical order (`sortEntries`: by source key, then target key; None first); stable like the insertion sort
        key = lambda x: 0 if x is None else int(x) + 1
        ents = [(None if s_ is None else int(s_), None if t_ is None else int(t_),
                 a_ if isinstance(a_, Sym) else Fraction(a_)) for s_, t_, a_ in out]
        ents.sort(key=lambda e: (key(e[0]), key(e[1])))
        return _Entries(ents)
    return [x for row in names for x in row], thunk


def _sym_one(ctx, n, m, asg):
    """`match_geometries` on an n x m matrix of *symbolic* affinities with the solver's answer fixed: every path
    (one per sign pattern of the assigned entries) is traced on the real code and the resulting piecewise function
    is proved equal to `selectMatches` for ALL rational matrix entries"""
    from .. import symtrace as st
    variables, thunk = _sym_thunk(n, m, asg)
    name = f"ext_match_{n}x{m}_" + "_".join(f"{r}{c}" for r, c in asg) if asg else f"ext_match_{n}x{m}_none"
    meta = {"op": "match_matrix"}
    try:
        res = st.trace(thunk, catch=())
        tree = st.to_tree(res)
        body = _tree_lean(tree)
    except Exception as e:  # noqa: BLE001 - the tie cannot be re-established: a broken obligation, never a crash
        from ..leanio import InfraError
        if isinstance(e, InfraError):
            raise
        ctx.symbolic_ties[name] = {"error": repr(e)[:300]}
        ctx.pre_failed.append(name)
        ctx.fail("obligation", name, detail=f"symbolic trace of the current source failed: {e!r}", extra=meta)
        return
    ctx.symbolic_ties[name] = {"paths": len(res)}
    args = " ".join(variables)
    binder = f"({args} : Rat) " if variables else ""
    matrix = "[" + ", ".join("[" + ", ".join(f"a{i}{j}" for j in range(m)) + "]" for i in range(n)) + "]"
    assigned = "[" + ", ".join(f"({r}, {c})" for r, c in asg) + "]"
    cases = " <;> ".join(f"by_cases h{r}{c} : a{r}{c} ≤ 0" for r, c in asg)
    hyps = ", ".join(f"h{r}{c}" for r, c in asg)
    simp = ("simp [" + (hyps + ", " if hyps else "") + f"{name}, selectMatches, assignLoop, matOfRows, emit, pairEntry, srcOnly, "
            "tgtOnly, sortEntries, insertEntry, keyLe, entryKey, Except.toOption, List.range, List.range.loop, List.erase]")
    tactic = (f"{cases} <;> ({simp}) <;> grind" if asg else f"{simp}")
    src = (f"open SE SE.Matching in\ndef {name} {binder}: Option (List Entry) :=\n    {body}\n"
           f"open SE SE.Matching in\ntheorem {name}_tie {binder}: {name} {args} = "
           f"(selectMatches {n} {m} (matOfRows {matrix}) {assigned}).toOption.map sortEntries := by\n  {tactic}\n")
    ctx.obligation(name, src, meta)


def _stage_symbolic(ctx):
    shapes = [(n, m) for n in range(4) for m in range(4)]
    count = 0
    for n, m in shapes:
        asgs = list(_contract_assignments(n, m))
        if n * m >= 9 and not ctx.thorough():
            asgs = [asgs[0], asgs[-1], asgs[1 + ctx.rng.randrange(len(asgs) - 2)]]
        for asg in asgs:
            _sym_one(ctx, n, m, asg)
            count += 1
    ctx.exhaustive["symbolic"] = ("match_geometries traced on symbolic affinity matrices for every shape (n, m) in {0..3}^2 and "
                                  "every answer scipy's contract allows (3 x 3: " +
                                  ("all 6" if ctx.thorough() else "3 of 6") + f"): {count} equality obligations, each for all rational entries")


# ---------------------------------------------------------------- run / search
def _stub_selftest():
    """the matrix operation replaces `compute_affinity` where match_geometries looks it up; if the code no
    longer reaches the affinity through one of those names the stub is ineffective and the stage must not run"""
    import soundevent.evaluation.match as M
    if not hasattr(M, "match_geometries"):
        raise RuntimeError("soundevent.evaluation.match no longer exposes match_geometries")
    probe = {"n": 2, "m": 2, "matrix": [["1/4", "1"], ["1/2", "1/4"]]}
    out = _impl_matrix(probe)["val"]
    vals = sorted(e[2] for e in out if e[0] is not None and e[1] is not None)
    if vals != ["1", "1/2"]:
        raise RuntimeError(f"stub of compute_affinity is not effective (got {out})")


def _solver_selftest():
    """the two stubs must be effective; also learns whether the code hands the solver the transposed matrix"""
    seen = []
    probe = {"n": 2, "m": 2, "matrix": [["1/4", "1"], ["1/2", "1/4"]], "assigned": [[0, 0], [1, 1]], "_seen": seen}
    _ORIENT["square_transposed"] = False
    _impl_solver(probe)
    if seen and abs(float(seen[0][0][1])) == 0.5 and abs(float(seen[0][1][0])) == 1.0:
        _ORIENT["square_transposed"] = True      # answer the transposed problem from now on
    out = _impl_solver(dict(probe, assigned=[[0, 1], [1, 0]], _seen=None))["val"]
    if out != [[0, 1, "1"], [1, 0, "1/2"]]:
        raise RuntimeError(f"stubs of compute_affinity / linear_sum_assignment are not effective (got {out})")


def _cert_selftest(ctx):
    """the (untrusted) certificate generator against the verified brute force on random small matrices"""
    cases = list(_random_matrices(ctx.rng, 60, 4))
    for c in cases:
        a = dict(c)
        cert = _cert_args(a)
        r = ctx.model("holds_cert", {"n": a["n"], "m": a["m"], "matrix": a["matrix"], "tol": "0", "out": [],
                                     "u": cert["u"], "v": cert["v"], "witness": cert["witness"]})
        b = ctx.model("contract", {"n": a["n"], "m": a["m"], "matrix": a["matrix"], "assigned": [], "tol": "0"})
        if not r["cert"] or r["best"] != b["best"]:
            raise RuntimeError(f"certificate generator fails on {c}: {r} vs brute force {b['best']}")
    ctx.tally("certificate generator self-test cases", len(cases))


def _stage_matrices(ctx, nmax):
    _stub_selftest()
    # stubbed-affinity matrices: exhaustive small scopes, then random (ties, zero rows/columns)
    if ctx.thorough():
        ctx.run_cases(OPS["match_matrix"], _exhaustive_matrices(["0", "1/4", "1/2", "1"], 9))
        ctx.exhaustive["match_matrix"] = "all n x m matrices, (n, m) in {0..3}^2, entries in {0, 1/4, 1/2, 1}"
    else:
        ctx.run_cases(OPS["match_matrix"], _exhaustive_matrices(["0", "1/4", "1/2", "1"], 6))
        ctx.run_cases(OPS["match_matrix"], (_matrix_case(3, 3, v) for v in itertools.product(["0", "1/2", "1"], repeat=9)
                                            if ctx.rng.random() < 0.2))
        ctx.exhaustive["match_matrix"] = ("all n x m matrices with n*m <= 6, (n, m) in {0..3}^2, entries in {0, 1/4, 1/2, 1}; "
                                          "a fifth of all 3 x 3 matrices over {0, 1/2, 1}")
    ctx.run_cases(OPS["match_matrix"], _exhaustive_matrices(["0", "1/1073741824", "1"], 4, dims=2))
    ctx.run_cases(OPS["match_matrix"], _random_matrices(ctx.rng, ctx.budget(1500, 12000), nmax))
    # beyond the brute force: optimality by certificate
    ctx.run_cases(OPS["match_matrix"], _random_matrices(ctx.rng, ctx.budget(250, 1500), ctx.budget(12, 25)))


def _stage_solver(ctx):
    _solver_selftest()
    ctx.run_cases(OPS["match_solver"], _solver_cases_exhaustive(["0", "1/2", "1"], ctx.budget(4, 6)))
    ctx.exhaustive["match_solver"] = (f"all matrices over {{0, 1/2, 1}} with n*m <= {ctx.budget(4, 6)}, (n, m) in {{0..3}}^2, times every "
                                      "answer scipy's contract allows (min(n, m) pairs, rows ascending, one-to-one)")
    ctx.run_cases(OPS["match_solver"], _solver_cases_random(ctx.rng, ctx.budget(600, 6000), 4))


def _stage_lists(ctx):
    ctx.run_cases(OPS["match"], _exhaustive_lists(_POOL[:ctx.budget(5, 6)], 2))
    ctx.exhaustive["match"] = f"all source/target lists of length 0..2 over a pool of {ctx.budget(5, 6)} boxes/intervals"


def _sig_literal(fn):
    """`inspect.signature(fn)` as a Lean `List (Param Arg)`: names, kinds, defaults (numbers as the decimal the
    source states; any other default as `.num 0`, it only has to exist)"""
    import inspect
    ps = []
    for prm in inspect.signature(fn).parameters.values():
        kind = ".positional" if prm.kind in (prm.POSITIONAL_ONLY, prm.POSITIONAL_OR_KEYWORD) else ".keywordOnly"
        if prm.kind in (prm.VAR_POSITIONAL, prm.VAR_KEYWORD):
            default = "some (.num 0)"
        elif prm.default is prm.empty:
            default = "none"
        elif isinstance(prm.default, (int, float)) and not isinstance(prm.default, bool):
            q = Fraction(str(prm.default))
            if float(q) != float(prm.default):
                q = Fraction(prm.default)
            default = f"some (.num (({q.numerator} : Rat) / {q.denominator}))"
        else:
            default = "some (.num 0)"
        ps.append(f'⟨"{prm.name}", {kind}, {default}⟩')
    return "[" + ", ".join(ps) + "]"


def _stage_signature(ctx):
    """Tie 1: the signatures of the two public functions, re-extracted from the live objects, still serve every call
    written against the documented one (same leading parameters, names, order, defaults; additions optional)"""
    import soundevent.evaluation as E
    for name, table in (("match_geometries", "matchSig"), ("compute_affinity", "affinitySig")):
        fn = getattr(E, name, None)
        if fn is None:
            ctx.pre_failed.append(f"signature of {name}")
            ctx.fail("obligation", f"signature of {name}", detail=f"soundevent.evaluation no longer exposes {name}")
            continue
        lit = _sig_literal(fn)
        ctx.obligation(f"sig_{name}", "open SE SE.MatchCall in\n"
                       f"theorem sig_{name} : compatible (V := Arg) {lit} {table} = true := by decide +kernel\n",
                       {"op": "match"})


def _stage_styles(ctx):
    cases = list(_style_cases(ctx.rng, ctx.budget(4, 12)))
    ctx.run_cases(OPS["match"], cases)
    ctx.exhaustive["styles"] = ("every call style (keyword, positional in the documented order, partly positional, keywords "
                                "reversed, buffers omitted), number style (float, int, numpy float64/float32/int64), container "
                                "(list, tuple, other Sequence, numpy object array) and construction path of the geometries "
                                f"(validate, constructor, dict, JSON, copies, tuples, ints, numpy scalars), {ctx.budget(4, 12)} cases each")


def _stage_type_pairs(ctx):
    ctx.run_cases(OPS["match"], _type_pair_cases(ctx.rng))
    ctx.exhaustive["type pairs x buffers"] = ("all 81 ordered pairs of geometry types x 5 buffer settings (default, time only, "
                                              "frequency only, both, both small), 2 x 2 lists")


def _history_bases(ctx):
    rng = ctx.rng
    base = list(_near_cases(rng, ctx.budget(60, 500)))
    base += [c for c in _grid_cases(rng, ctx.budget(25, 200), 3)]
    base += [{"source": [_stamp(1), _stamp(4)], "target": [_stamp(Fraction(13, 10)), _stamp(Fraction(21, 5))], "tb": "1/100", "fb": "100"},
             {"source": [{"type": "Point", "coordinates": ["1", "1000"]}], "target": [{"type": "Point", "coordinates": ["1", "1050"]}],
              "tb": "1/100", "fb": "10"}]
    return base


def _stage_histories(ctx):
    """consecutive calls in one process: the same geometries with other buffers (equal content, same or distinct
    objects), buffers omitted after buffers given, geometry objects changed by assignment / model_copy and used again,
    lists edited in place, results edited by the caller, results compared again after later calls, arguments
    snapshotted around every call"""
    base = _history_bases(ctx)
    hs = history.sequences(ctx.rng, base, ctx.budget(110, 900), variants=_h_variants, reuse_hows=H_REUSE, poison=True,
                           length=(2, 4))
    for h in hs:
        for st in h["seq"]:
            ctx.tally("history:" + (st.get("reuse") or "fresh") + ("+poison" if st.get("poison") else ""))
    ctx.run_cases(OPS["match_history"], hs)
    inter = []
    for _ in range(ctx.budget(50, 400)):
        x = ctx.rng.choice(base)
        ys = _h_variants(x, ctx.rng)
        inter.append({"seq": [{"inp": x}] + [{"inp": ctx.rng.choice(ys) if ctx.rng.random() < 0.7 else ctx.rng.choice(base)}
                                             for _ in range(ctx.rng.randint(1, 2))]})
    ctx.run_cases(OPS["match_interleaved"], inter)


def _stage_stub_histories(ctx):
    """consecutive calls of the stubbed operations in one process: a matrix, another matrix of the same shape (other
    entries, all zeros, all ones, reversed), the first again; the same matrix with another solver answer"""
    rng = ctx.rng
    hs = []
    for x in _random_matrices(rng, ctx.budget(120, 1200), 4):
        if x["n"] * x["m"] == 0:
            continue
        seq = [x]
        for _ in range(rng.randint(1, 2)):
            seq.append(rng.choice(_neighbours("match_matrix", x) + [next(_random_matrices(rng, 1, 4))]))
            if rng.random() < 0.7:
                seq.append(x)
        hs.append({"base": "match_matrix", "seq": [{"inp": y} for y in seq]})
    for x in _solver_cases_random(rng, ctx.budget(40, 400), 3):
        n, m = x["n"], x["m"]
        if n * m == 0:
            continue
        others = [dict(x, assigned=a) for a in itertools.islice(_contract_assignments(n, m), 6)]
        hs.append({"base": "match_solver", "seq": [{"inp": y} for y in [x, rng.choice(others), x]]})
    ctx.run_cases(OPS["stub_history"], hs)


def _stage_boundaries(ctx):
    ctx.run_cases(OPS["match"], _boundary_geometry_cases())
    ctx.run_cases(OPS["match"], _long_time_lists(ctx.rng, ctx.budget(2, 8)))
    ctx.exhaustive["boundaries"] = ("intervals / boxes with intersection over union 1e-6 ... 1e-12 at extents 1, 1000, 86400 s; touching, "
                                    "overlapping and separated by 2^-40 ... 1e-6 at magnitudes 1 and 1e6; every point of the 10 ms "
                                    "lattice 0 ... 1.3 s and 1000 ... 1000.4 s with the 10 ms buffer (two steps apart: touching)")


def _stage_boundary_matrices(ctx):
    ctx.run_cases(OPS["match_matrix"], _boundary_matrix_cases(ctx.rng))
    ctx.exhaustive["matrix boundaries"] = ("alternatives differing by 1e-6, 1e-9, 1e-12; entries 1e-6 ... 1e-12; shapes 17x17, 16x17, "
                                           "33x32, 3x400, 2x600, 1030x1, 1x1030, 257x1, 5x52 (optimum by certificate)")


def _timed(ctx):
    """ctx.stage with the wall time of each stage recorded in the evidence notes"""
    import time
    real = ctx.stage

    def stage(name, fn, *a, **kw):
        t = time.time()
        try:
            return real(name, fn, *a, **kw)
        finally:
            ctx.note(f"stage `{name}`: {time.time() - t:.1f} s")
    return stage


def run(ctx):
    global _CTX
    _CTX = ctx
    _CACHE.clear()
    del _DEFERRED[:]
    _PROBE.update(n=0, explained=0, refined=0, confirmed=0, matrix_probes=0)
    nmax = ctx.budget(5, 7)
    stage = _timed(ctx)
    stage("certificate generator self-test", _cert_selftest, ctx)
    stub_ok = stage("stub of compute_affinity inside soundevent.evaluation.match", lambda: _stub_selftest() or True)
    stage("corpus", ctx.run_corpus, OPS if stub_ok else {"match": OPS["match"]})
    if stub_ok:
        stage("affinity matrices through the real match_geometries (compute_affinity stubbed)",
                  _stage_matrices, ctx, nmax)
        stage("the solver's answer as a parameter (compute_affinity and linear_sum_assignment stubbed)",
                  _stage_solver, ctx)
        stage("symbolic affinities at fixed shapes", _stage_symbolic, ctx)
        stage("matrix boundaries and size thresholds", _stage_boundary_matrices, ctx)
        stage("histories of the stubbed operations", _stage_stub_histories, ctx)
    stage("signatures of match_geometries / compute_affinity (Tie 1)", _stage_signature, ctx)
    stage("construction and call styles", _stage_styles, ctx)
    stage("type pairs x buffer settings", _stage_type_pairs, ctx)
    stage("numeric boundaries on real geometries, long lists", _stage_boundaries, ctx)
    stage("histories", _stage_histories, ctx)
    stage("exhaustive short lists of real geometries", _stage_lists, ctx)
    stage("tie-rich grid lists", lambda: ctx.run_cases(OPS["match"], _grid_cases(ctx.rng, ctx.budget(500, 5000), nmax)))
    stage("long grid lists (optimality by certificate)",
              lambda: ctx.run_cases(OPS["match"], _grid_cases(ctx.rng, ctx.budget(60, 400), ctx.budget(10, 16), nmin=4)))
    stage("free-mode lists", lambda: ctx.run_cases(OPS["match"], _free_cases(ctx.rng, ctx.budget(150, 2000), min(nmax, 5))))
    stage("discharge", ctx.discharge, ["SoundeventModel.Matching", "SoundeventModel.MatchCall"])
    _flush_deferred(ctx)
    _close_fresh()


def search(ctx, failures):
    """a correspondence, contract or stage broke: widen every scope and let `holds` judge the real outputs"""
    def matrices():
        _stub_selftest()
        ctx.run_cases(OPS["match_matrix"], _exhaustive_matrices(["0", "1/2", "1"], 9))
        ctx.run_cases(OPS["match_matrix"], _random_matrices(ctx.rng, 6000, 5))
        ctx.run_cases(OPS["match_matrix"], _random_matrices(ctx.rng, 600, 14))
    ctx.stage("search: matrices", matrices)
    ctx.stage("search: short lists", lambda: ctx.run_cases(OPS["match"], _exhaustive_lists(_POOL, 2)))
    ctx.stage("search: grid lists", lambda: ctx.run_cases(OPS["match"], _grid_cases(ctx.rng, 2000, 5)))
    ctx.stage("search: long grid lists", lambda: ctx.run_cases(OPS["match"], _grid_cases(ctx.rng, 150, 12, nmin=3)))
    ctx.stage("search: histories", _stage_histories, ctx)
    _flush_deferred(ctx)
    _close_fresh()
