"""C07 — Matching is an optimal one-to-one assignment that covers every geometry once."""
import itertools
from fractions import Fraction

import numpy as np

from ..core import Op, jkey
from ..rat import rat, frac
from .. import gen_geom

PROPERTY = "C07"
LEAN_MODULE = "Proofs.C07"
_T = "SE.Proofs.C07."
THEOREMS = [_T + n for n in [
    "C07_contract_decidable", "C07_total", "C07_cover", "C07_cover_count", "C07_positive_pairs",
    "C07_positive_assigned_reported", "C07_reported_affinity", "C07_unpaired_zero",
    "bestValue_upper", "bestValue_attained", "C07_optimal", "C07_optimal_complete",
    "C07_total_le_best", "C07_optimal_of_solver", "C07_empty", "C07_no_overlap_all_unpaired",
    "C07_holds_iff", "C07_model_holds"]]
LEVEL_TEXT = ("Lean theorems over the model of match_geometries/_select_matches (scipy's assignment a parameter under the "
              "explicit ValidAssignment hypothesis): every source and target index occurs exactly once, pairs only with "
              "positive affinity, reported affinity = matrix entry, unpaired report 0, empty cases; the brute-force optimum "
              "bestValue is proved to bound every partial injection and to be attained, and the executable predicate `holds` "
              "is proved equivalent to the property, so that its evaluation on every real output of match_geometries means "
              "the property (optimality within 2^-40, exact on dyadic matrices).")
LEVEL_NOTE = ("Unmodelled: the Hungarian/LAPJV algorithm of scipy.optimize.linear_sum_assignment (its answer is a parameter; "
              "ValidAssignment and optimality are checked on every answer against the verified brute force, <= 5x5 quick, "
              "<= 7x7 thorough); compute_affinity (C06) supplies the matrix; binary64 summation inside scipy (tolerance 2^-40). "
              "Model tied to the code by generator-bounded correspondence (real geometries and stubbed-affinity matrices, "
              "exhaustive small scopes).")
TECHNIQUE = ("Lean 4 proof over model with the solver as a parameter; verified brute-force optimum as run-time monitor; "
             "exhaustive small-scope and random correspondence")
RULE = ("lists of 0-5 (thorough 0-7) geometries on tie-rich grids, exhaustive lists over a small pool, random geometries of all "
        "types, exhaustive / random affinity matrices through the real match_geometries with compute_affinity stubbed; "
        "non-trivial = at least one source and one target; distinct = distinct (operation, input)")
TRUSTED = ["scipy.optimize.linear_sum_assignment (answer checked per case: ValidAssignment, optimal within tolerance)",
           "compute_affinity as the supplier of the matrix (property C06)",
           "the stub replacing compute_affinity in the matrix operation (a table lookup)"]
ASSUMPTIONS = ["scipy's answer is a valid assignment (monitored on every case)",
               "optimality is checked up to 2^-40 on real geometries (scipy sums binary64 values, the model exact rationals), "
               "exactly on dyadic matrices"]
NOT_COMPARED = ["order of the yielded matches (compared as a sorted multiset)",
                "tie-breaking among equally good assignments (an output that differs from the model's only by the "
                "solver's choice among optimal assignments is accepted when it satisfies `holds` and equals the model "
                "run on its own pairs)"]

TOL = Fraction(1, 2 ** 40)
_CTX = None
_CACHE = {}
_OWN_DRIVER = None


def _model(op, args):
    """the model through the running check, or (in --replay mode, where run() is not called) an own driver"""
    global _OWN_DRIVER
    if _CTX is not None:
        return _CTX.model(op, args)
    if _OWN_DRIVER is None:
        from .. import leanio
        _OWN_DRIVER = leanio.Driver()
    return _OWN_DRIVER.call(PROPERTY, op, args)


def _f(s):
    return float(frac(s))


def _canon(triples):
    out = [[None if s is None else int(s), None if t is None else int(t), rat(float(a))] for s, t, a in triples]
    out.sort(key=lambda e: (e[0] is None, -1 if e[0] is None else e[0], e[1] is None, -1 if e[1] is None else e[1], e[2]))
    return out


def _sort_entries(es):
    return sorted(es, key=lambda e: (e[0] is None, -1 if e[0] is None else e[0], e[1] is None,
                                     -1 if e[1] is None else e[1], e[2]))


def _solve(matrix_f):
    """the assignment exactly as `_select_matches` asks for it"""
    from scipy.optimize import linear_sum_assignment
    r, c = linear_sum_assignment(matrix_f, maximize=True)
    return [[int(a), int(b)] for a, b in zip(r, c)]


# ---------------------------------------------------------------- real geometries
def _geoms(inp):
    return [gen_geom.to_data(g) for g in inp["source"]], [gen_geom.to_data(g) for g in inp["target"]]


def _impl_match(inp):
    from soundevent.evaluation import match_geometries
    src, tgt = _geoms(inp)
    out = list(match_geometries(src, tgt, time_buffer=_f(inp["tb"]), freq_buffer=_f(inp["fb"])))
    return {"val": _canon(out)}


def _matrix_of(inp):
    """affinity matrix by the real compute_affinity, and scipy's answer on it (cached per input)"""
    k = jkey(inp)
    if k not in _CACHE:
        if len(_CACHE) > 4096:
            _CACHE.clear()
        from soundevent.evaluation import compute_affinity
        src, tgt = _geoms(inp)
        m = np.zeros((len(src), len(tgt)))
        for i, a in enumerate(src):
            for j, b in enumerate(tgt):
                m[i, j] = compute_affinity(a, b, time_buffer=_f(inp["tb"]), freq_buffer=_f(inp["fb"]))
        _CACHE[k] = {"n": len(src), "m": len(tgt), "matrix": [[rat(float(x)) for x in row] for row in m],
                     "assigned": _solve(m)}
    return _CACHE[k]


# ---------------------------------------------------------------- stubbed affinity (arbitrary matrices)
def _impl_matrix(inp):
    """the real match_geometries with compute_affinity replaced by a lookup in the given matrix"""
    from soundevent import data
    import soundevent.evaluation.match as M
    mat = [[_f(x) for x in row] for row in inp["matrix"]]
    src = [data.TimeStamp(coordinates=float(i)) for i in range(inp["n"])]
    tgt = [data.TimeStamp(coordinates=float(j)) for j in range(inp["m"])]
    ids_s = {id(g): i for i, g in enumerate(src)}
    ids_t = {id(g): j for j, g in enumerate(tgt)}

    def stub(g1, g2, *a, **kw):
        return mat[ids_s[id(g1)]][ids_t[id(g2)]]
    orig = M.compute_affinity
    M.compute_affinity = stub
    try:
        out = list(M.match_geometries(src, tgt))
    finally:
        M.compute_affinity = orig
    return {"val": _canon(out)}


def _matrix_args(inp):
    mf = np.array([[_f(x) for x in row] for row in inp["matrix"]], dtype=float).reshape(inp["n"], inp["m"])
    return {"n": inp["n"], "m": inp["m"], "matrix": inp["matrix"], "assigned": _solve(mf)}


# ---------------------------------------------------------------- compare / monitor
def _mk_compare(args_of):
    def compare(inp, io, mo):
        if "raise" in io or "raise" in mo:
            a = {k: v for k, v in io.items() if k != "trace"}
            return None if a == mo else "implementation and model disagree (exception)"
        got = io["val"]
        want = _sort_entries(mo["val"])
        if got == want:
            return None
        # tie-breaking is not part of the property: accept an output that is the model run on the
        # implementation's own pairs (the monitor `holds` has judged its optimality already)
        a = dict(args_of(inp))
        a["assigned"] = [[e[0], e[1]] for e in got if e[0] is not None and e[1] is not None]
        alt = _model("match", a)
        if "val" in alt and _sort_entries(alt["val"]) == got:
            if _CTX is not None:
                _CTX.tally("tie-break differs from scipy-as-called")
            return None
        return "match_geometries and selectMatches(scipy's assignment) disagree"
    return compare


def _mk_holds(args_of, tol):
    def holds(ctx, inp, io):
        if "raise" in io:
            return "match_geometries raised " + str(io["raise"])
        a = args_of(inp)
        n, m = a["n"], a["m"]
        ctx.tally(f"size:{n}x{m}")
        zero_pairs = sum(1 for r, c in a["assigned"] if frac(a["matrix"][r][c]) <= 0)
        if zero_pairs:
            ctx.tally("cases where scipy assigned a zero-affinity pair")
        # scipy's contract, evaluated on what scipy returned for this matrix
        c = ctx.model("contract", {"n": n, "m": m, "matrix": a["matrix"], "assigned": a["assigned"], "tol": rat(tol)})
        ctx.contract("ValidAssignment", c["valid"], inp, a["assigned"])
        ctx.contract("solver optimal within tolerance", c["optimal"], inp,
                     {"assigned": a["assigned"], "value": c["value"], "best": c["best"]})
        v = ctx.model("holds", {"n": n, "m": m, "matrix": a["matrix"], "out": io["val"], "tol": rat(tol)})
        if v["all"]:
            return None
        bad = [k for k in ("cover_src", "cover_tgt", "entries", "optimal") if not v[k]]
        msg = {"cover_src": "a source index is missing or repeated",
               "cover_tgt": "a target index is missing or repeated",
               "entries": "a pair with non-positive affinity, a reported affinity that is not the pair's affinity, "
                          "or a non-zero one-sided match",
               "optimal": f"sum of reported affinities {v['total']} below the optimum {v['best']}"}
        return "C07 fails: " + "; ".join(msg[k] for k in bad)
    return holds


def _nontrivial(inp, out):
    if "val" not in out:
        return False
    if "source" in inp:
        return len(inp["source"]) > 0 and len(inp["target"]) > 0
    return inp["n"] > 0 and inp["m"] > 0


OPS = {
    "match": Op("match", _impl_match, to_model=lambda i: {k: v for k, v in _matrix_of(i).items()},
                compare=_mk_compare(_matrix_of), holds=_mk_holds(_matrix_of, TOL), determined=False,
                nontrivial=_nontrivial, mode="exact"),
    "match_matrix": Op("match_matrix", _impl_matrix, to_model=_matrix_args, compare=_mk_compare(_matrix_args),
                       holds=_mk_holds(_matrix_args, Fraction(0)), determined=False, nontrivial=_nontrivial,
                       mode="exact", model_op="match", shrink=True),
}


# ---------------------------------------------------------------- generators
def _box(s, lo, e, hi):
    return {"type": "BoundingBox", "coordinates": [rat(Fraction(x)) for x in (s, lo, e, hi)]}


def _interval(s, e):
    return {"type": "TimeInterval", "coordinates": [rat(Fraction(s)), rat(Fraction(e))]}


def _stamp(t):
    return {"type": "TimeStamp", "coordinates": rat(Fraction(t))}


def _grid_geom(rng):
    """tie-rich grid: integer seconds, three frequency bands; far-apart placements are common"""
    r = rng.random()
    s = rng.choice([0, 1, 2, 3, 8, 9, 20])
    w = rng.choice([1, 1, 2])
    if r < 0.55:
        lo = rng.choice([0, 1000, 2000])
        h = rng.choice([1000, 1000, 2000])
        return _box(s, lo, s + w, lo + h)
    if r < 0.8:
        return _interval(s, s + w)
    if r < 0.9:
        return _stamp(s)
    return gen_geom.gen_valid(rng, rng.choice(["Point", "LineString", "Polygon", "MultiPoint"]), tmax=4, fmax=4, k=1)


def _buffers(rng, geoms):
    low_dim = any(g["type"] in ("TimeStamp", "Point", "LineString", "MultiPoint", "MultiLineString") for g in geoms)
    if low_dim:
        return rng.choice([("1/100", "100"), ("1/4", "1/2"), ("1/2", "1")])
    return rng.choice([("1/100", "100"), ("0", "0"), ("1/4", "1/2")])


def _grid_cases(rng, count, nmax):
    for _ in range(count):
        n = rng.randint(0, nmax)
        m = rng.randint(0, nmax)
        pool = [_grid_geom(rng) for _ in range(rng.randint(1, 4))]
        src = [rng.choice(pool) if rng.random() < 0.5 else _grid_geom(rng) for _ in range(n)]
        tgt = [rng.choice(pool) if rng.random() < 0.5 else _grid_geom(rng) for _ in range(m)]
        tb, fb = _buffers(rng, src + tgt)
        yield {"source": src, "target": tgt, "tb": tb, "fb": fb}


_POOL = [_box(0, 0, 1, 1000), _box(0, 0, 2, 1000), _box(1, 0, 2, 1000), _box(5, 0, 6, 1000), _interval(0, 1),
         _box(0, 1000, 1, 2000)]


def _exhaustive_lists(pool, nmax):
    for n in range(nmax + 1):
        for m in range(nmax + 1):
            for src in itertools.product(pool, repeat=n):
                for tgt in itertools.product(pool, repeat=m):
                    yield {"source": list(src), "target": list(tgt), "tb": "0", "fb": "0"}


def _free_geom(rng):
    """arbitrary binary64 coordinates (free mode)"""
    ty = rng.choice(gen_geom.TYPES)
    if ty in ("BoundingBox", "TimeInterval", "TimeStamp", "Point") or rng.random() < 0.5:
        t0 = rng.uniform(0, 3)
        t1 = t0 + rng.uniform(0.001, 2)
        f0 = rng.uniform(0, 4000)
        f1 = f0 + rng.uniform(1, 3000)
        if ty == "TimeStamp":
            return {"type": ty, "coordinates": rat(t0)}
        if ty == "TimeInterval":
            return {"type": ty, "coordinates": [rat(t0), rat(t1)]}
        if ty == "Point":
            return {"type": ty, "coordinates": [rat(t0), rat(f0)]}
        return {"type": "BoundingBox", "coordinates": [rat(t0), rat(f0), rat(t1), rat(f1)]}
    return gen_geom.gen_valid(rng, ty, tmax=4, fmax=8, k=4)


def _free_cases(rng, count, nmax):
    for _ in range(count):
        n = rng.randint(0, nmax)
        m = rng.randint(0, nmax)
        src = [_free_geom(rng) for _ in range(n)]
        tgt = [(rng.choice(src) if src and rng.random() < 0.3 else _free_geom(rng)) for _ in range(m)]
        yield {"source": src, "target": tgt, "tb": rng.choice(["1/100", "1/8", rat(0.05)]),
               "fb": rng.choice(["100", "1/2", rat(33.3)])}


def _matrix_case(n, m, vals):
    return {"n": n, "m": m, "matrix": [[vals[i * m + j] for j in range(m)] for i in range(n)]}


def _exhaustive_matrices(values, max_cells, dims=3):
    for n in range(dims + 1):
        for m in range(dims + 1):
            if n * m > max_cells:
                continue
            for vals in itertools.product(values, repeat=n * m):
                yield _matrix_case(n, m, vals)


def _random_matrices(rng, count, nmax):
    for _ in range(count):
        n = rng.randint(0, nmax)
        m = rng.randint(0, nmax)
        style = rng.random()
        if style < 0.4:
            pool = ["0", "0", "1/4", "1/2", "1"]
        elif style < 0.6:
            pool = ["0", "1"]
        elif style < 0.8:
            pool = ["0"] + [rat(Fraction(rng.randint(0, 16), 16)) for _ in range(3)]
        else:
            pool = None
        vals = [rng.choice(pool) if pool else rat(Fraction(rng.randint(0, 1024), 1024)) for _ in range(n * m)]
        if rng.random() < 0.2 and n and m:
            # an all-zero row or column
            i = rng.randrange(n)
            for j in range(m):
                vals[i * m + j] = "0"
        yield _matrix_case(n, m, vals)


# ---------------------------------------------------------------- run / search
def _stub_selftest():
    """the matrix operation replaces `compute_affinity` inside soundevent.evaluation.match; if the code no
    longer reaches the affinity through that name the stub is ineffective and the stage must not run"""
    import soundevent.evaluation.match as M
    if not hasattr(M, "compute_affinity") or not hasattr(M, "match_geometries"):
        raise RuntimeError("soundevent.evaluation.match no longer exposes compute_affinity / match_geometries")
    probe = {"n": 2, "m": 2, "matrix": [["1/4", "1"], ["1/2", "1/4"]]}
    out = _impl_matrix(probe)["val"]
    vals = sorted(e[2] for e in out if e[0] is not None and e[1] is not None)
    if vals != ["1", "1/2"]:
        raise RuntimeError(f"stub of compute_affinity is not effective (got {out})")


def _stage_matrices(ctx, nmax):
    _stub_selftest()
    # stubbed-affinity matrices: exhaustive small scopes, then random (ties, zero rows/columns)
    if ctx.thorough():
        ctx.run_cases(OPS["match_matrix"], _exhaustive_matrices(["0", "1/4", "1/2", "1"], 9))
        ctx.exhaustive["match_matrix"] = "all n x m matrices, (n, m) in {0..3}^2, entries in {0, 1/4, 1/2, 1}"
    else:
        ctx.run_cases(OPS["match_matrix"], _exhaustive_matrices(["0", "1/4", "1/2", "1"], 6))
        ctx.run_cases(OPS["match_matrix"], (_matrix_case(3, 3, v) for v in itertools.product(["0", "1/2", "1"], repeat=9)
                                            if ctx.rng.random() < 0.2))
        ctx.exhaustive["match_matrix"] = ("all n x m matrices with n*m <= 6, (n, m) in {0..3}^2, entries in {0, 1/4, 1/2, 1}; "
                                          "a fifth of all 3 x 3 matrices over {0, 1/2, 1}")
    ctx.run_cases(OPS["match_matrix"], _random_matrices(ctx.rng, ctx.budget(1500, 12000), nmax))


def _stage_lists(ctx):
    ctx.run_cases(OPS["match"], _exhaustive_lists(_POOL[:ctx.budget(5, 6)], 2))
    ctx.exhaustive["match"] = f"all source/target lists of length 0..2 over a pool of {ctx.budget(5, 6)} boxes/intervals"


def run(ctx):
    global _CTX
    _CTX = ctx
    _CACHE.clear()
    nmax = ctx.budget(5, 7)
    stub_ok = ctx.stage("stub of compute_affinity inside soundevent.evaluation.match", lambda: _stub_selftest() or True)
    ctx.stage("corpus", ctx.run_corpus, OPS if stub_ok else {"match": OPS["match"]})
    if stub_ok:
        ctx.stage("affinity matrices through the real match_geometries (compute_affinity stubbed)",
                  _stage_matrices, ctx, nmax)
    ctx.stage("exhaustive short lists of real geometries", _stage_lists, ctx)
    ctx.stage("tie-rich grid lists", lambda: ctx.run_cases(OPS["match"], _grid_cases(ctx.rng, ctx.budget(500, 5000), nmax)))
    ctx.stage("free-mode lists", lambda: ctx.run_cases(OPS["match"], _free_cases(ctx.rng, ctx.budget(150, 2000), min(nmax, 5))))


def search(ctx, failures):
    """a correspondence, contract or stage broke: widen every scope and let `holds` judge the real outputs"""
    def matrices():
        _stub_selftest()
        ctx.run_cases(OPS["match_matrix"], _exhaustive_matrices(["0", "1/2", "1"], 9))
        ctx.run_cases(OPS["match_matrix"], _random_matrices(ctx.rng, 6000, 5))
    ctx.stage("search: matrices", matrices)
    ctx.stage("search: short lists", lambda: ctx.run_cases(OPS["match"], _exhaustive_lists(_POOL, 2)))
    ctx.stage("search: grid lists", lambda: ctx.run_cases(OPS["match"], _grid_cases(ctx.rng, 2000, 5)))
