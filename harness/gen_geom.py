"""Seeded generators of valid geometries (as JSON with exact rational coordinates).

A geometry travels as {"type": tag, "coordinates": nested "n/d" strings}; the same
JSON is parsed by the Lean driver and turned into a real `soundevent.data`
geometry by `to_data`.  Grid mode: coordinates are multiples of 2^-k with small
magnitude so every + - min max the code performs on them is exact in binary64.
"""
import math
from fractions import Fraction

from .rat import rat, frac

TYPES = ["TimeStamp", "TimeInterval", "Point", "LineString", "Polygon", "BoundingBox",
         "MultiPoint", "MultiLineString", "MultiPolygon"]
MAXF = 5_000_000


def _g(rng, lo, hi, k):
    a = int(math.ceil(lo * (1 << k)))
    b = int(math.floor(hi * (1 << k)))
    if b < a:
        b = a
    return Fraction(rng.randint(a, b), 1 << k)


def _pt(rng, t0, t1, f0, f1, k):
    return [_g(rng, t0, t1, k), _g(rng, f0, f1, k)]


def _star(rng, ct, cf, rt, rf, n, k):
    """a simple (star-shaped) ring around (ct, cf); closed (first point repeated)"""
    angs = sorted(rng.uniform(0, 2 * math.pi) for _ in range(n))
    # spread the angles so that rounding to the grid keeps the ring simple in most cases
    pts = []
    for i, a in enumerate(angs):
        a = 2 * math.pi * (i + rng.uniform(0.15, 0.85)) / n
        r = rng.uniform(0.6, 1.0)
        t = ct + rt * r * math.cos(a)
        f = cf + rf * r * math.sin(a)
        q = 1 << k
        pts.append([Fraction(round(t * q), q), Fraction(round(f * q), q)])
    pts.append(list(pts[0]))
    return pts


def _poly(rng, t0, t1, f0, f1, k, holes=None):
    ct = (t0 + t1) / 2
    cf = (f0 + f1) / 2
    rt = (t1 - t0) / 2
    rf = (f1 - f0) / 2
    rings = [_star(rng, ct, cf, rt, rf, rng.randint(3, 7), k)]
    if holes is None:
        holes = rng.random() < 0.3
    if holes:
        rings.append(_star(rng, ct, cf, rt / 5, rf / 5, rng.randint(3, 5), k + 2))
    return rings


def gen_geometry(rng, ty=None, tmax=8.0, fmax=8.0, k=3, tmin=0.0, fmin=0.0):
    """a valid geometry with times in [tmin, tmax], frequencies in [fmin, fmax]"""
    ty = ty or rng.choice(TYPES)
    t0 = _g(rng, tmin, tmax, k)
    t1 = _g(rng, tmin, tmax, k)
    if t0 > t1:
        t0, t1 = t1, t0
    f0 = _g(rng, fmin, fmax, k)
    f1 = _g(rng, fmin, fmax, k)
    if f0 > f1:
        f0, f1 = f1, f0
    if ty == "TimeStamp":
        c = t0
    elif ty == "TimeInterval":
        c = [t0, t1]
    elif ty == "Point":
        c = [t0, f0]
    elif ty == "BoundingBox":
        c = [t0, f0, t1, f1]
    elif ty == "LineString":
        n = rng.randint(2, 5)
        pts = [_pt(rng, float(t0), float(t1), float(f0), float(f1), k) for _ in range(n)]
        if rng.random() < 0.7:
            pts.sort(key=lambda p: p[0])
        if pts[0][0] > pts[-1][0]:
            pts.reverse()
        c = pts
    elif ty == "MultiPoint":
        c = [_pt(rng, float(t0), float(t1), float(f0), float(f1), k) for _ in range(rng.randint(1, 5))]
    elif ty == "MultiLineString":
        lines = []
        for _ in range(rng.randint(1, 3)):
            n = rng.randint(2, 4)
            pts = [_pt(rng, float(t0), float(t1), float(f0), float(f1), k) for _ in range(n)]
            pts.sort(key=lambda p: p[0])
            if pts[0][0] >= pts[-1][0]:
                pts[-1][0] = pts[0][0] + Fraction(1, 1 << k)
            lines.append(pts)
        c = lines
    elif ty == "Polygon":
        tt1 = max(t1, t0 + Fraction(1, 2))
        ff1 = max(f1, f0 + Fraction(1, 2))
        c = _poly(rng, float(t0), float(tt1), float(f0), float(ff1), k)
    elif ty == "MultiPolygon":
        polys = []
        n = rng.randint(1, 3)
        w = (float(max(t1, t0 + 1)) - float(t0)) / n
        for i in range(n):
            a = float(t0) + i * w
            polys.append(_poly(rng, a + 0.05 * w, a + 0.9 * w, float(f0), float(max(f1, f0 + Fraction(1, 2))), k + 2))
        c = polys
    else:
        raise ValueError(ty)
    return {"type": ty, "coordinates": _enc(c)}


def _enc(c):
    if isinstance(c, list):
        return [_enc(x) for x in c]
    return rat(c)


def _dec(c):
    if isinstance(c, list):
        return [_dec(x) for x in c]
    return float(frac(c))


def coords_float(gj):
    return _dec(gj["coordinates"])


def to_data(gj):
    """JSON geometry -> validated soundevent.data geometry"""
    from soundevent import data
    return data.geometry_validate({"type": gj["type"], "coordinates": coords_float(gj)}, mode="dict")


def from_data(geom):
    """soundevent geometry -> JSON geometry with exact rationals"""
    return {"type": geom.type, "coordinates": _enc_f(geom.coordinates)}


def _enc_f(c):
    if isinstance(c, (list, tuple)):
        return [_enc_f(x) for x in c]
    return rat(float(c))


def is_simple(gj):
    """shapely validity of polygonal geometries (used to stay inside a property's quantifier)"""
    from soundevent.geometry import geometry_to_shapely
    try:
        return bool(geometry_to_shapely(to_data(gj)).is_valid)
    except Exception:  # noqa: BLE001
        return False


def gen_valid(rng, ty=None, **kw):
    for _ in range(50):
        g = gen_geometry(rng, ty, **kw)
        if g["type"] not in ("Polygon", "MultiPolygon") or is_simple(g):
            return g
    return gen_geometry(rng, "BoundingBox", **kw)
