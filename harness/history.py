"""Histories: consecutive calls in one process on shared identities (see HISTORIES.md).

A property whose quantifier includes histories (and every property whose code a contributor could
"optimise" with a cache) is also run through sequences of calls in one process.  Every step of a
history is judged on its own by the *base* operation's model (the Lean model is pure, so the composed
history has exactly one right answer per step); the whole sequence is the replay.

    OPS["segment_history"] = history.history_op(
        "segment_history", OPS["segment"],
        build=lambda inp: <live argument objects for the base input>,
        call=lambda args: <the library call on those objects -> live result>,
        canon=lambda inp, args, res: <canonical output, exactly what OPS["segment"].impl returns>,
        snapshot=lambda args: <JSON snapshot of the arguments>            (argument mutation),
        modify=lambda args, inp2: <the same live objects changed to carry inp2, or None>   (reuse after change),
        poison=lambda res: <mutate the returned live object in place; return False if nothing to poison>)

History input: {"seq": [step, ...]} with step = {"inp": <base input>, "reuse": how | absent, "poison": bool}.
  * step k is built fresh (`build`) unless "reuse" is given: then the live arguments of step k-1 are turned
    into the step's input by `modify(args, inp, how)` (assignment / model_copy(update=...) / ... - the
    property module decides what `how` means) - an object that was used before and then changed;
  * each step's canonical output is judged like a case of the base operation (monitor `holds`, then `compare`);
  * after the call the arguments must snapshot as before the call (no mutation of an argument);
  * with "poison" the returned live object is mutated in place *after* it was canonicalised: a later step
    that is affected shows a shared mutable return value;
  * at the end every un-poisoned live result is canonicalised again: it must not have changed through later
    calls (a result that aliases internal state).
"""
import copy
import traceback

from .core import Op, canon_exc, InfraError, jkey


def prefetch(ctx, base, histories):
    """optional: ask the model for every step of `histories` in one batch (the replies are kept on `ctx` and
    used by the step judge instead of one request per step)"""
    cache = ctx.__dict__.setdefault("_history_model_cache", {})
    todo, seen = [], set()
    for h in histories:
        for st in h["seq"]:
            a = base.to_model(st["inp"])
            k = (base.model_op, jkey(a))
            if k not in cache and k not in seen:
                seen.add(k)
                todo.append((k, a))
    for (k, _a), r in zip(todo, ctx.model_many(base.model_op, [a for _k, a in todo])):
        cache[k] = r


def _judge(ctx, base, inp, io):
    a = base.to_model(inp)
    cache = getattr(ctx, "_history_model_cache", None)
    k = (base.model_op, jkey(a)) if cache is not None else None
    if cache is not None and k in cache:
        mo = cache[k]
    else:
        mo = ctx.model(base.model_op, a)
    if base.holds is not None:
        msg = base.holds(ctx, inp, io)
        if msg:
            return msg, mo
    if base.compare is not None:
        msg = base.compare(inp, io, mo)
    else:
        a = dict(io) if isinstance(io, dict) else io
        if isinstance(a, dict):
            a.pop("trace", None)
        msg = None if a == mo else "implementation and model disagree"
    return msg, mo


def history_op(name, base, build, call, canon, snapshot=None, modify=None, poison=None, nontrivial=None):
    def impl(h):
        outs, live, notes = [], [], []
        args = None
        for k, step in enumerate(h["seq"]):
            inp = step["inp"]
            try:
                how = step.get("reuse")
                if how and modify is not None and args is not None:
                    new_args = modify(args, inp, how)
                    args = new_args if new_args is not None else build(inp)
                else:
                    args = build(inp)
                s0 = snapshot(args) if snapshot is not None else None
                res = call(args)
                out = canon(inp, args, res)
                if snapshot is not None:
                    s1 = snapshot(args)
                    if s1 != s0:
                        notes.append({"step": k, "what": "argument-mutated", "before": s0, "after": s1})
                poisoned = False
                if step.get("poison") and poison is not None:
                    poisoned = poison(res) is not False
                live.append((k, inp, args, res, out, poisoned))
            except InfraError:
                raise
            except Exception as e:  # noqa: BLE001 - an exception of the real code is an observation of that step
                out = canon_exc(e)
                if out["raise"].startswith("crash:"):
                    out["trace"] = "".join(traceback.format_exception_only(type(e), e))[-300:]
                args = None
            outs.append(out)
        for k, inp, a, res, out, poisoned in live:
            if poisoned:
                continue
            try:
                again = canon(inp, a, res)
            except Exception as e:  # noqa: BLE001
                again = canon_exc(e)
            if again != out:
                notes.append({"step": k, "what": "result-changed-later", "first": out, "now": again})
        return {"steps": outs, "notes": notes}

    def holds(ctx, h, io):
        if "raise" in io:
            return f"the history driver raised {io['raise']}"
        for n in io.get("notes", []):
            if n["what"] == "argument-mutated":
                return (f"step {n['step']}: the call changed one of its arguments in place "
                        f"(before {jkey(n['before'])[:160]} after {jkey(n['after'])[:160]})")
            if n["what"] == "result-changed-later":
                return (f"the result returned at step {n['step']} changed after later calls "
                        f"(was {jkey(n['first'])[:160]} now {jkey(n['now'])[:160]})")
        trail = []
        for k, (step, out) in enumerate(zip(h["seq"], io["steps"])):
            msg, _mo = _judge(ctx, base, step["inp"], out)
            trail.append(("reuse:" + str(step["reuse"]) if step.get("reuse") else "fresh") + ("+poison" if step.get("poison") else ""))
            if msg:
                return f"history step {k} ({' -> '.join(trail)}): {msg}"
        return None

    return Op(name, impl, holds=holds, compare=lambda inp, io, mo: None, determined=True, mode=base.mode,
              no_model=True, nontrivial=nontrivial or (lambda inp, out: isinstance(out, dict) and "steps" in out
                                                      and any(not (isinstance(o, dict) and "raise" in o) for o in out["steps"])))


def sequences(rng, cases, n, variants=None, reuse_hows=(), poison=False, length=(3, 5)):
    """n histories over base inputs `cases`: x, a neighbour of x, x again, ... where a neighbour is drawn from
    `variants(x, rng)` (inputs sharing identities with x: the same objects with other options / revised content)
    or is another case.  Some steps reuse the previous live objects (`reuse_hows`), some poison their result."""
    cases = list(cases)
    out = []
    if not cases:
        return out
    for i in range(n):
        x = cases[i % len(cases)]
        neigh = []
        if variants is not None:
            try:
                neigh = list(variants(x, rng))
            except Exception:  # noqa: BLE001
                neigh = []
        if not neigh:
            neigh = [rng.choice(cases)]
        seq = [{"inp": copy.deepcopy(x)}]
        L = rng.randint(*length)
        while len(seq) < L:
            y = rng.choice(neigh) if rng.random() < 0.8 else rng.choice(cases)
            st = {"inp": copy.deepcopy(y)}
            if reuse_hows and rng.random() < 0.5:
                st["reuse"] = rng.choice(list(reuse_hows))
            seq.append(st)
            if rng.random() < 0.7 and len(seq) < L:
                st2 = {"inp": copy.deepcopy(x)}
                if reuse_hows and rng.random() < 0.4:
                    st2["reuse"] = rng.choice(list(reuse_hows))
                seq.append(st2)
        if poison:
            for st in seq[:-1]:
                if rng.random() < 0.4:
                    st["poison"] = True
        out.append({"seq": seq})
    return out
