"""Check framework: context, operations, failure handling, evidence, known findings.

A property module (harness/props/cXX.py) provides

    PROPERTY   = "C12"
    LEAN_MODULE = "Proofs.C12"            # module holding the property theorems
    THEOREMS   = ["SE.Proofs.C12.C12_symm", ...]   # audited on every run
    TRUSTED / UNMODELLED strings for the evidence
    def run(ctx): ...                     # obligations (ties 1, 1b) and correspondence (tie 2)
    def search(ctx, failures): ...        # optional directed failing-input search
    OPS = {name: Op}                      # every correspondence operation, for --replay
    FINDING_MATCHERS = {name: fn(failure) -> bool}
"""
import hashlib
import json
import os
import random
import sys
import time
import traceback

from . import leanio
from .leanio import InfraError, VERIF

ERR_MAP = {
    "ValidationError": "invalid", "ValueError": "invalid",
    "KeyError": "key", "NotImplementedError": "notimpl", "TypeError": "type",
}


def canon_exc(e):
    """exception -> small enum; anything unforeseen is `crash:<type>` and never matches a model reply"""
    for cls in type(e).__mro__:
        if cls.__name__ in ERR_MAP:
            return {"raise": ERR_MAP[cls.__name__]}
    return {"raise": "crash:" + type(e).__name__}


def jkey(x):
    return json.dumps(x, sort_keys=True, separators=(",", ":"), default=str)


class Op:
    """One correspondence operation.

    impl(inp)            -> canonical output of the real code (exceptions are caught and mapped)
    to_model(inp)        -> args of the driver request (default: inp itself)
    compare(inp, impl_out, model_out) -> None | str   (default: exact equality)
    holds(ctx, inp, impl_out) -> None | str           property monitor on the real I/O
    determined           -> the property fixes the output (theorem `holds x y -> y = model x`):
                            a disagreement is then itself a violation of the property at that input
    nontrivial(inp, out) -> counted in distinct_nontrivial
    mode                 -> "exact" | "round-once" | "tolerance" (for the evidence)
    """

    def __init__(self, name, impl, to_model=None, compare=None, holds=None, determined=True,
                 nontrivial=None, mode="exact", model_op=None, shrink=False, valid=None, no_model=False):
        self.name = name
        self.impl = impl
        self.to_model = to_model or (lambda x: x)
        self.compare = compare
        self.holds = holds
        self.determined = determined
        self.nontrivial = nontrivial or (lambda inp, out: not (isinstance(out, dict) and "raise" in out))
        self.mode = mode
        self.model_op = model_op or name
        self.shrink = shrink      # opt-in greedy shrinking of a failing input (needs `valid` if the
        self.valid = valid        # property's quantifier restricts inputs: valid(inp) -> bool)
        self.no_model = no_model  # the operation judges itself step by step through `holds` (harness/history.py)


class Failure:
    def __init__(self, kind, op, inp=None, impl=None, model=None, detail="", extra=None):
        self.kind = kind        # property | correspondence | obligation | contract | audit
        self.op = op
        self.inp = inp
        self.impl = impl
        self.model = model
        self.detail = detail
        self.extra = extra or {}

    def to_json(self):
        return {"kind": self.kind, "op": self.op, "input": self.inp, "impl": self.impl,
                "model": self.model, "detail": self.detail, **({"extra": self.extra} if self.extra else {})}

    def size(self):
        return len(jkey(self.inp))


class Ctx:
    def __init__(self, mod, tier, seed):
        self.mod = mod
        self.pid = mod.PROPERTY
        self.tier = tier
        self.seed = seed
        self.rng = random.Random(f"{self.pid}:{seed}")
        self.t0 = time.time()
        self.driver = None
        self.failures = []
        self.evaluations = 0
        self.distinct = set()
        self.samples = []
        self.per_op = {}
        self.modes = {}
        self.tallies = {}
        self.obligations = []        # (name, lean source, meta)
        self.obl_results = {}        # name -> True/False
        self.audited = {}
        self.exhaustive = {}
        self.not_compared = []
        self.notes = []
        self.symbolic_ties = {}
        self.known_seen = []
        self.searching = False
        self.pre_failed = []         # obligations / stages that could not even be generated

    # ------------------------------------------------------------------ model access
    def model(self, op, args):
        return self.driver.call(self.pid, op, args)

    def model_many(self, op, args_list):
        return self.driver.call_many(self.pid, op, args_list)

    def thorough(self):
        return self.tier == "thorough"

    def budget(self, quick, thorough):
        return thorough if self.tier == "thorough" else quick

    def tally(self, key, n=1):
        self.tallies[key] = self.tallies.get(key, 0) + n

    def note(self, s):
        self.notes.append(s)

    # ------------------------------------------------------------------ correspondence
    def run_cases(self, op: Op, inputs, label=None):
        """Run implementation and model on the same inputs and judge them."""
        inputs = list(inputs)
        if not inputs:
            return []
        impl_outs = []
        for inp in inputs:
            try:
                impl_outs.append(op.impl(inp))
            except InfraError:
                raise
            except Exception as e:  # noqa: BLE001 - every exception of the real code is an observation
                c = canon_exc(e)
                if c["raise"].startswith("crash:"):
                    c["trace"] = "".join(traceback.format_exception_only(type(e), e))[-400:]
                impl_outs.append(c)
        model_outs = [None] * len(inputs) if op.no_model else self.model_many(op.model_op, [op.to_model(i) for i in inputs])
        st = self.per_op.setdefault(op.name, {"cases": 0, "nontrivial": 0, "impl_errors": 0, "mismatch": 0})
        new_failures = []
        for inp, io, mo in zip(inputs, impl_outs, model_outs):
            self.evaluations += 1
            st["cases"] += 1
            self.modes[op.mode] = self.modes.get(op.mode, 0) + 1
            is_err = isinstance(io, dict) and "raise" in io
            if is_err:
                st["impl_errors"] += 1
                self.tally("impl_error:" + str(io["raise"]))
            try:
                nt = op.nontrivial(inp, io)
            except Exception:  # noqa: BLE001
                nt = False
            if nt:
                st["nontrivial"] += 1
                self.distinct.add(hashlib.blake2b((op.name + jkey(inp)).encode(), digest_size=8).digest())
            if len(self.samples) < 6 or (nt and len(self.samples) < 12 and st["nontrivial"] <= 2):
                self.samples.append({"op": op.name, "input": inp, "impl": _strip(io), "model": _strip(mo)})
            # property monitor on the implementation's own I/O
            if op.holds is not None:
                msg = op.holds(self, inp, io)
                if msg:
                    f = Failure("property", op.name, inp, io, mo, msg)
                    new_failures.append(f)
                    continue
            # correspondence
            if op.compare is not None:
                msg = op.compare(inp, io, mo)
            else:
                a = dict(io) if isinstance(io, dict) else io
                if isinstance(a, dict):
                    a.pop("trace", None)
                msg = None if a == mo else "implementation and model disagree"
            if msg:
                st["mismatch"] += 1
                kind = "property" if op.determined else "correspondence"
                new_failures.append(Failure(kind, op.name, inp, io, mo, msg))
        self.failures.extend(new_failures)
        return new_failures

    def probe(self, op: Op, inp):
        """judge one input without recording anything: returns a Failure or None"""
        try:
            io = op.impl(inp)
        except InfraError:
            raise
        except Exception as e:  # noqa: BLE001
            io = canon_exc(e)
        mo = None if op.no_model else self.model(op.model_op, op.to_model(inp))
        if op.holds is not None:
            msg = op.holds(self, inp, io)
            if msg:
                return Failure("property", op.name, inp, io, mo, msg)
        if op.compare is not None:
            msg = op.compare(inp, io, mo)
        else:
            msg = None if io == mo else "implementation and model disagree"
        if msg:
            return Failure("property" if op.determined else "correspondence", op.name, inp, io, mo, msg)
        return None

    def shrink(self, op: Op, failure, budget=200):
        """greedy structural shrinking that keeps the failure kind (opt-in per Op)"""
        cur = failure
        improved = True
        while improved and budget > 0:
            improved = False
            for cand in _shrink_candidates(cur.inp):
                if budget <= 0:
                    break
                if op.valid is not None:
                    try:
                        if not op.valid(cand):
                            continue
                    except Exception:  # noqa: BLE001
                        continue
                budget -= 1
                try:
                    f = self.probe(op, cand)
                except InfraError:
                    continue
                if f is not None and f.kind == failure.kind:
                    cur = f
                    improved = True
                    break
        return cur

    def run_corpus(self, ops):
        """minimised past failures and hand-written corner cases (corpus/<id>/*.json) run first"""
        d = os.path.join(VERIF, "corpus", self.pid)
        if not os.path.isdir(d):
            return
        by_op = {}
        for fn in sorted(os.listdir(d)):
            if fn.endswith(".json"):
                rec = json.load(open(os.path.join(d, fn)))
                for r in (rec if isinstance(rec, list) else [rec]):
                    if r.get("op") in ops and "input" in r:
                        by_op.setdefault(r["op"], []).append(r["input"])
        for name, inputs in by_op.items():
            self.run_cases(ops[name], inputs)
            self.tally("corpus:" + name, len(inputs))

    def contract(self, name, ok, inp=None, observed=None, detail=""):
        """a monitored assumption about an unmodelled library call (hypothesis of a theorem)"""
        self.tally("contract:" + name)
        if not ok:
            self.fail("contract", name, inp=inp, impl=observed, detail=detail or f"library contract {name} violated")

    def fail(self, kind, op, inp=None, impl=None, model=None, detail="", extra=None):
        f = Failure(kind, op, inp, impl, model, detail, extra)
        self.failures.append(f)
        return f

    # ------------------------------------------------------------------ robustness against code changes
    def stage(self, name, fn, *args, **kw):
        """Run one stage of a check.  If the harness itself crashes (typically because the code under
        test changed shape: a renamed table, a new argument, a stub that no longer fits), that tie is
        *not re-established*: it is recorded as a broken obligation and the remaining stages still run.
        Never let such a crash end the check without a verdict."""
        try:
            return fn(*args, **kw)
        except InfraError:
            raise
        except Exception as e:  # noqa: BLE001
            self.pre_failed.append(name)
            self.fail("obligation", name, detail=f"stage `{name}` could not be carried out: {e!r}",
                      extra={"traceback": traceback.format_exc()[-1500:]})
            return None

    # ------------------------------------------------------------------ obligations (ties 1 and 1b)
    def obligation(self, name, lean_src, meta=None):
        self.obligations.append((name, lean_src, meta or {}))

    def sym_tie(self, name, fn, variables, ret_type, model_term, tactic=None, unfolds=(), meta=None,
                catch=(ValueError,)):
        """Tie 1b in one call: trace `fn` symbolically, emit `def name`, register the obligation
        `∀ vars, name vars = model_term`.  A trace that fails (stub no longer fits the code, the code
        became untraceable) is a broken obligation, not a crash."""
        from . import symtrace as st
        try:
            src, tree, n = st.extract(name, fn, variables, ret_type, catch=catch)
        except InfraError:
            raise
        except Exception as e:  # noqa: BLE001
            self.symbolic_ties[name] = {"error": repr(e)[:300]}
            self.pre_failed.append(name)
            self.fail("obligation", name, detail=f"symbolic trace of the current source failed: {e!r}",
                      extra=dict(meta or {}))
            return None
        self.symbolic_ties[name] = {"paths": n}
        self.obligation(name, st.tie_obligation(name, src, variables, model_term, unfolds, tactic=tactic), meta)
        return tree

    def discharge(self, imports):
        """Elaborate every registered obligation in one throw-away file."""
        if not self.obligations:
            return
        d = leanio.run_dir()
        path = os.path.join(d, f"Obl_{self.pid}.lean")
        lines = [f"import {m}" for m in imports]
        lines.append("set_option maxRecDepth 4000")
        spans = []
        for name, src, _meta in self.obligations:
            start = len(lines) + 1
            lines.append(f"-- obligation {name}")
            lines.append(f"section Obl_{_ident(name)}")
            lines.extend(src.rstrip("\n").split("\n"))
            lines.append(f"end Obl_{_ident(name)}")
            spans.append((name, start, len(lines)))
        open(path, "w").write("\n".join(lines) + "\n")
        rc, out = leanio.elaborate(path)
        bad = {}
        import re
        for m in re.finditer(r":(\d+):(\d+): error:? ?(.*)", out):
            ln = int(m.group(1))
            for name, a, b in spans:
                if a <= ln <= b:
                    bad.setdefault(name, []).append(m.group(3)[:300])
        if rc != 0 and not bad:
            # cannot attribute: everything is undischarged
            for name, _a, _b in spans:
                bad.setdefault(name, []).append("obligation file failed: " + out[-800:])
        for name, src, meta in self.obligations:
            ok = name not in bad
            self.obl_results[name] = ok
            if not ok:
                self.fail("obligation", name, detail="; ".join(bad[name])[:1500],
                          extra={"lean": src[:4000], **meta})
        if not bad:
            try:
                os.remove(path)
            except OSError:
                pass
        else:
            self.note(f"failed obligation file kept at {os.path.relpath(path, VERIF)}")

    # ------------------------------------------------------------------ audit
    def audit(self):
        hits = leanio.grep_forbidden(leanio.lean_sources())
        for h in hits:
            self.fail("audit", "forbidden-construct", detail=h)
        ok, problems = leanio.audit(self.mod.LEAN_MODULE, self.mod.THEOREMS)
        self.audited = ok
        for p in problems:
            self.fail("audit", "theorem", detail=p)


_RAT_RE = None


def _shrink_candidates(x):
    """structurally smaller variants of a JSON value (lists shortened, rationals simplified)"""
    import re
    global _RAT_RE
    if _RAT_RE is None:
        _RAT_RE = re.compile(r"^-?\d+(/\d+)?$")
    if isinstance(x, dict):
        for k, v in x.items():
            for c in _shrink_candidates(v):
                y = dict(x)
                y[k] = c
                yield y
    elif isinstance(x, list):
        for i in range(len(x)):
            yield x[:i] + x[i + 1:]
        for i, v in enumerate(x):
            for c in _shrink_candidates(v):
                yield x[:i] + [c] + x[i + 1:]
    elif isinstance(x, str) and _RAT_RE.match(x) and x not in ("0", "1"):
        from fractions import Fraction
        q = Fraction(x)
        for c in ("0", "1", str(int(q)), str(Fraction(round(q * 2), 2)), str(Fraction(round(q * 8), 8))):
            if c != x:
                yield c


def _ident(s):
    return "".join(c if c.isalnum() else "_" for c in s)


def _strip(x):
    if isinstance(x, dict) and "trace" in x:
        x = {k: v for k, v in x.items() if k != "trace"}
    s = jkey(x)
    if len(s) > 1500:
        return s[:1500] + "…"
    return x


# ---------------------------------------------------------------------- known findings
def load_findings(pid):
    path = os.path.join(VERIF, "known_findings.json")
    if not os.path.exists(path):
        return []
    return [e for e in json.load(open(path)) if e.get("property") == pid]


def match_finding(mod, findings, failure):
    matchers = getattr(mod, "FINDING_MATCHERS", {})
    for e in findings:
        if e.get("status") != "known":
            continue
        m = e.get("matcher") or {}
        fn = matchers.get(m.get("predicate"))
        if fn is None:
            continue
        if m.get("op") not in (None, failure.op):
            continue
        try:
            if fn(failure, m):
                return e
        except Exception:  # noqa: BLE001
            continue
    return None


# ---------------------------------------------------------------------- main flow
def write_replay(ctx, failure, idx, note=""):
    d = os.path.join(VERIF, "replays")
    os.makedirs(d, exist_ok=True)
    path = os.path.join(d, f"{ctx.pid}_{ctx.tier}_{ctx.seed}_{idx}.json")
    rec = {"property": ctx.pid, "tier": ctx.tier, "seed": ctx.seed, **failure.to_json()}
    if note:
        rec["note"] = note
    json.dump(rec, open(path, "w"), indent=1, default=str)
    return os.path.relpath(path, VERIF)


def finish(ctx, replay_mode=False):
    mod = ctx.mod
    findings = load_findings(ctx.pid)
    remaining = []
    seen_known = {}
    for f in ctx.failures:
        e = match_finding(mod, findings, f)
        if e is not None:
            seen_known.setdefault(e["id"], (e, f))
        else:
            remaining.append(f)
    for fid, (e, f) in seen_known.items():
        print(f"KNOWN-FINDING: property={ctx.pid} {e['id']}: {e['what']}")
        ctx.known_seen.append({"id": fid, "example": _strip(f.inp)})

    concrete = [f for f in remaining if f.kind == "property"]
    broken = [f for f in remaining if f.kind != "property"]
    # a broken obligation / correspondence / contract: look for a concrete failing input
    if broken and not concrete and hasattr(mod, "search") and not replay_mode:
        ctx.searching = True
        before = len(ctx.failures)
        try:
            mod.search(ctx, broken)
        except InfraError:
            raise
        except Exception as e:  # noqa: BLE001
            ctx.note("search crashed: %r" % (e,))
        for f in ctx.failures[before:]:
            if match_finding(mod, findings, f) is None:
                (concrete if f.kind == "property" else broken).append(f)

    violations = 0
    lines = []
    if concrete:
        # smallest inputs first, one replay per (op, detail) signature
        concrete.sort(key=lambda f: f.size())
        sigs = {}
        for f in concrete:
            sigs.setdefault((f.op, f.detail[:60]), f)
        for i, f in enumerate(list(sigs.values())[:5]):
            op = getattr(mod, "OPS", {}).get(f.op)
            if op is not None and op.shrink and not replay_mode:
                try:
                    f = ctx.shrink(op, f)
                except Exception as e:  # noqa: BLE001
                    ctx.note("shrinking crashed: %r" % (e,))
            path = write_replay(ctx, f, i)
            lines.append(f"VIOLATION property={ctx.pid} replay={path}")
            violations += 1
        if broken:
            ctx.note("also broken (explained by the concrete violation or reported with it): "
                     + "; ".join(sorted({f"{f.kind}:{f.op}" for f in broken}))[:600])
    elif broken:
        sigs = {}
        for f in broken:
            sigs.setdefault((f.kind, f.op), f)
        for i, f in enumerate(list(sigs.values())[:5]):
            path = write_replay(ctx, f, i, note=f"{f.kind} `{f.op}` no longer checks; no input found on which "
                                                "the property itself fails")
            lines.append(f"VIOLATION property={ctx.pid} replay={path} no-failing-input-found")
            violations += 1
    if not replay_mode:
        write_evidence(ctx, violations)
    for f in (concrete + broken)[:8]:
        print(f"[{ctx.pid}] {f.kind} {f.op}: {f.detail[:300]} input={jkey(f.inp)[:300]} impl={jkey(_strip(f.impl))[:200]} "
              f"model={jkey(f.model)[:200]}", file=sys.stderr)
    for ln in lines:
        print(ln)
    return 1 if violations else 0


def write_evidence(ctx, violations):
    mod = ctx.mod
    n_thm = len(mod.THEOREMS)
    n_obl = len(ctx.obligations) + len(ctx.pre_failed)
    discharged = len(ctx.audited) + sum(1 for v in ctx.obl_results.values() if v)
    samples = list(ctx.samples[:12])
    for t, info in list(ctx.audited.items())[:3]:
        samples.append({"theorem": t, "statement": info["statement"], "axioms": info["axioms"]})
    for name, src, _m in ctx.obligations[:2]:
        samples.append({"regenerated_obligation": name, "lean": src[:1200]})
    ev = {
        "property_id": ctx.pid,
        "tier": ctx.tier,
        "seed": ctx.seed,
        "level": "proof",
        "coverage": {
            "obligations": n_thm + n_obl,
            "discharged": discharged,
            "checker_cmd": f"./check {ctx.pid} --tier {ctx.tier}  (lake build; lake env lean on Audit_*.lean and "
                           f"Obl_{ctx.pid}.lean" + ("; lake env leanchecker" if ctx.tier == "thorough" else "") + ")",
            "trusted_base": list(getattr(mod, "TRUSTED", [])) + [
                "Lean 4.33.0 kernel and elaborator",
                "axioms: subset of {propext, Classical.choice, Quot.sound}, audited per theorem this run",
                "Python harness: generators, canonicalisation, exact-rational encoding, symbolic tracer, JSON glue of the Lean driver",
            ],
            "property_theorems": {t: i["axioms"] for t, i in ctx.audited.items()},
            "regenerated_obligations": ctx.obl_results,
            "symbolic_ties": ctx.symbolic_ties,
            "evaluations": ctx.evaluations,
            "distinct_nontrivial": len(ctx.distinct),
            "rule": getattr(mod, "RULE", "distinct canonical inputs whose implementation output is not an error"),
            "traces_validated_against_impl": ctx.evaluations,
            "samples": samples,
            "per_operation": ctx.per_op,
            "comparison_modes": ctx.modes,
            "generator_distribution": dict(sorted(ctx.tallies.items())),
            "exhaustive_scopes": ctx.exhaustive,
            "not_compared": ctx.not_compared + list(getattr(mod, "NOT_COMPARED", [])),
            "known_findings_seen": ctx.known_seen,
            "notes": ctx.notes,
            "model_requests": ctx.driver.requests if ctx.driver else 0,
        },
        "assumptions": list(getattr(mod, "ASSUMPTIONS", [])),
        "wall_s": round(time.time() - ctx.t0, 2),
        "violations": violations,
    }
    # runs against a deliberately changed tree (tools/run_seeded.py) must not overwrite the evidence of the real tree
    evdir = os.environ.get("VERIF_EVIDENCE_DIR") or os.path.join(VERIF, "evidence")
    os.makedirs(evdir, exist_ok=True)
    json.dump(ev, open(os.path.join(evdir, f"{ctx.pid}.json"), "w"), indent=1, default=str)


def run_check(mod, tier, seed, replay=None):
    ctx = Ctx(mod, tier, seed)
    try:
        leanio.build(clean=False)
        ctx.driver = leanio.Driver()
        if replay:
            rec = json.load(open(replay))
            return run_replay(ctx, rec)
        ctx.audit()
        if tier == "thorough":
            thorough_extras(ctx)
        ctx.stage("run", mod.run, ctx)      # backstop: a crashing check is a broken tie, not "no verdict"
        return finish(ctx)
    except InfraError as e:
        print("INFRASTRUCTURE ERROR:", e, file=sys.stderr)
        return 2
    finally:
        if ctx.driver:
            ctx.driver.close()
        try:
            d = leanio.run_dir()
            if not os.listdir(d):
                os.rmdir(d)
        except OSError:
            pass


def thorough_extras(ctx):
    """independent re-check of the compiled proof module with leanchecker"""
    mods = [ctx.mod.LEAN_MODULE]
    rc, out = leanio.leanchecker(mods)
    if rc != 0:
        ctx.fail("audit", "leanchecker", detail=out[-1500:])
    else:
        ctx.note("leanchecker re-checked " + ", ".join(mods))


def run_replay(ctx, rec):
    mod = ctx.mod
    kind = rec.get("kind")
    op = mod.OPS.get(rec.get("op")) if hasattr(mod, "OPS") else None
    if op is not None and rec.get("input") is not None:
        fs = ctx.run_cases(op, [rec["input"]])
        rcode = finish(ctx, replay_mode=True)
        if not fs:
            print(f"replay: {rec.get('op')} no longer fails on the recorded input")
        return rcode
    # obligation / audit replays: re-run the whole quick check
    print(f"replay of a {kind} record: re-running the check")
    ctx.audit()
    mod.run(ctx)
    return finish(ctx)
