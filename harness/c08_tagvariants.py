"""C08: construction variants of Tag / Term objects (HISTORIES.md section 2), around `harness/tagpool.py`.

`tagpool.fresh(d)` builds a plain `data.Tag` with a new plain `data.Term` for every use of a pool tag.  A caller has
other legitimate ways to come by the *same tag*; this module builds them, independently for the three places a tag
occurs in a detection call (`role` in {"vocab", "ann", "pred"}):

    inp["tagstyle"] = {"vocab" | "ann" | "pred": form,          how the Tag object is made (FORMS)
                       "vocab_term" | "ann_term" | "pred_term": mode,   where its Term object comes from (TERM_MODES)
                       "termcls": None | "sub" | "subx"}        the class of every Term object of the call

forms   plain          data.Tag(term=, value=)
        sub            an instance of a subclass of data.Tag without a field of its own (a convenience class)
        subdef         an instance of a subclass of data.Tag that fixes the term as a *field default* (the class is made
                       per term; only the value is passed - the seeded `SpeciesTag(value="fox")`)
        subx           an instance of a subclass of data.Tag with a further field
        validate       data.Tag.model_validate({"term": <dictionary of the term's set fields under their aliases>, "value"})
        validate_obj   data.Tag.model_validate({"term": <Term object>, "value"})
        copy, deepcopy data.Tag(...).model_copy() / .model_copy(deep=True)
        update         a tag of another value revised by model_copy(update={"value": ...})
modes   fresh          a new Term object per Tag object
        shared         one Term object per term content for all tags of this call built in this mode
        cross          (annotated / predicted tags) the Term *object* of a vocabulary tag with the same term content,
                       preferably of one whose value differs (seeded C19-11: a table that recognises terms by identity
                       first then only looks at the values registered under that object)

What a tag *is* does not depend on any of this: the unchanged code keys on `(tag.term, tag.value)`, so neither the class
of the Tag object nor the way it was made nor the identity of the Term object matters.  The class of the *Term* object
does matter to the code today (pydantic's `__eq__` compares classes), and whether that is intended is not for C08 to
pin: `termcls` therefore applies to *every* Term object of a call (vocabulary, annotations and predictions alike), so
that equal term fields always come with equal Term classes and field equality - what the Lean model of the encoder
compares - coincides with the code's equality.

Every object built here is checked to carry the content of its descriptor (`tagpool.read_back` on the object against
`tagpool.content` of the descriptor); an object that does not (a construction path that loses a field) is replaced by
the plain one and tallied, never handed to the code.  Nothing here consults the library's encoder, `__eq__` or `__hash__`.
"""
import warnings

from . import tagpool as TP
from .core import jkey

FORMS = ["plain", "sub", "subdef", "subx", "validate", "validate_obj", "copy", "deepcopy", "update"]
TERM_MODES = ["fresh", "shared", "cross"]
TERM_CLASSES = [None, "sub", "subx"]
ROLES = ("vocab", "ann", "pred")
_CLASSES = {}
_DEFAULT_CLASSES = {}
FALLBACKS = {}


def classes():
    """subclasses of data.Tag / data.Term as a project would define them (made once per process)"""
    if not _CLASSES:
        from typing import Optional
        from soundevent import data

        class SpeciesTag(data.Tag):
            """a Tag with a convenience constructor, no field of its own"""

            @classmethod
            def of(cls, term, value):
                return cls(term=term, value=value)

        class NotedTag(data.Tag):
            """a Tag with a field of its own"""
            note: Optional[str] = None

        class ProjectTerm(data.Term):
            pass

        class RankedTerm(data.Term):
            rank: Optional[str] = None
        _CLASSES.update(sub=SpeciesTag, subx=NotedTag, term_sub=ProjectTerm, term_subx=RankedTerm)
    return _CLASSES


def _default_class(term):
    """a subclass of data.Tag whose `term` field defaults to (an object equal to) `term`"""
    from soundevent import data
    k = (type(term).__name__, jkey(_term_kwargs(term)))
    if k not in _DEFAULT_CLASSES:
        if len(_DEFAULT_CLASSES) > 200:
            _DEFAULT_CLASSES.clear()
        _DEFAULT_CLASSES[k] = type("DefaultTermTag", (data.Tag,), {"__module__": __name__, "__annotations__": {"term": type(term)},
                                                                   "term": term})
    return _DEFAULT_CLASSES[k]


def _term_kwargs(term):
    """the set fields of a Term object under the names its constructor takes (aliases), extras included"""
    fields = type(term).model_fields
    kw = {}
    for f in term.model_fields_set:
        if f in fields and f in term.__dict__:
            kw[fields[f].alias or f] = term.__dict__[f]
    for k, v in (getattr(term, "__pydantic_extra__", None) or {}).items():
        kw[k] = v
    return kw


def _plain_term(d):
    return TP.fresh(d).term


def make_term(d, termcls=None):
    """descriptor -> a new Term object (of the Term subclass `termcls` names) with the descriptor's term content"""
    t = _plain_term(d)
    if termcls is None:
        return t
    return classes()["term_" + termcls](**_term_kwargs(t))


def make_tag(d, form=None, term=None, termcls=None):
    """descriptor -> a new real Tag made the way `form` says, around `term` (a live Term object with the descriptor's
    term content) or a new Term object"""
    from soundevent import data
    with warnings.catch_warnings():
        warnings.simplefilter("ignore")
        if term is None:
            if form in (None, "plain") and termcls is None:
                return TP.fresh(d)
            term = make_term(d, termcls)
        value = d["value"]
        C = classes()
        if form in (None, "plain"):
            return data.Tag(term=term, value=value)
        if form == "sub":
            return C["sub"].of(term, value)
        if form == "subdef":
            return _default_class(term)(value=value)
        if form == "subx":
            return C["subx"](term=term, value=value, note="checked")
        if form == "validate":
            if type(term) is data.Term:
                return data.Tag.model_validate({"term": _term_kwargs(term), "value": value})
            return data.Tag.model_validate({"term": term, "value": value})
        if form == "validate_obj":
            return data.Tag.model_validate({"term": term, "value": value})
        if form == "copy":
            return data.Tag(term=term, value=value).model_copy()
        if form == "deepcopy":
            return data.Tag(term=term, value=value).model_copy(deep=True)
        if form == "update":
            return data.Tag(term=term, value=str(value) + "~").model_copy(update={"value": value})
        raise ValueError(f"unknown tag form {form!r}")


def _strip_class(c):
    """content without a record of the Term object's class (a later `tagpool.read_back` may note it; here the class is
    the same for equal term fields by construction)"""
    term = dict(c["term"])
    term["extra"] = [e for e in term.get("extra", []) if e and e[0] != "+class"]
    return {"term": term, "value": c["value"]}


def same_content(obj, d):
    try:
        return jkey(_strip_class(TP.read_back(obj))) == jkey(_strip_class(TP.content(d)))
    except Exception:  # noqa: BLE001
        return False


def normalise(spec):
    """a tag style with only known entries (an old / hand-written replay with an unknown form falls back to plain)"""
    spec = spec or {}
    out = {}
    for r in ROLES:
        if spec.get(r) in FORMS and spec.get(r) != "plain":
            out[r] = spec[r]
        if spec.get(r + "_term") in TERM_MODES and spec.get(r + "_term") != "fresh" and (r != "vocab" or spec[r + "_term"] == "shared"):
            out[r + "_term"] = spec[r + "_term"]
    if spec.get("termcls") in ("sub", "subx"):
        out["termcls"] = spec["termcls"]
    return out


class Maker:
    """the tags of one call.  `vocab_ids`: the pool positions of the vocabulary in order (mode `cross` needs the
    vocabulary's objects before the first annotated / predicted tag is made: they are made on demand and handed out
    again when the vocabulary itself is asked for)."""

    def __init__(self, descs, spec=None, vocab_ids=()):
        self.descs, self.spec = descs, normalise(spec)
        self.vocab_ids = list(vocab_ids)
        self._shared, self._vocab = {}, {}

    def _tkey(self, d):
        return jkey(TP.content(d)["term"])

    def _build(self, role, d, term):
        form, termcls = self.spec.get(role), self.spec.get("termcls")
        try:
            tag = make_tag(d, form, term, termcls)
        except Exception:  # noqa: BLE001 - a construction path the library (no longer) offers: not this check's business
            tag = None
        if tag is None or not same_content(tag, d):
            k = f"{role}:{form}:{self.spec.get(role + '_term')}:{termcls}"
            FALLBACKS[k] = FALLBACKS.get(k, 0) + 1
            tag = TP.fresh(d)
        return tag

    def vocab_tag(self, t):
        if t not in self._vocab:
            d = self.descs[t]
            term = self._shared.get(self._tkey(d)) if self.spec.get("vocab_term") == "shared" else None
            tag = self._build("vocab", d, term)
            if self.spec.get("vocab_term") == "shared":
                self._shared.setdefault(self._tkey(d), tag.term)
            self._vocab[t] = tag
        return self._vocab[t]

    def make(self, role, t):
        if role == "vocab":
            return self.vocab_tag(t)
        d = self.descs[t]
        mode = self.spec.get(role + "_term")
        term = None
        if mode == "shared":
            term = self._shared.get(self._tkey(d))
        elif mode == "cross":
            k = self._tkey(d)
            cands = [(self.vocab_tag(v), self.descs[v]) for v in self.vocab_ids if self._tkey(self.descs[v]) == k]
            other = [tg for tg, dv in cands if str(dv["value"]) != str(d["value"])]
            if cands:
                term = (other or [tg for tg, _ in cands])[0].term
        tag = self._build(role, d, term)
        if mode == "shared":
            self._shared.setdefault(self._tkey(d), tag.term)
        return tag


def gen_style(rng):
    """a random tag style: forms and term modes chosen independently for vocabulary, annotated and predicted tags"""
    st = {}
    for r in ROLES:
        if rng.random() < 0.6:
            st[r] = rng.choice(FORMS[1:])
        q = rng.random()
        if q < 0.25:
            st[r + "_term"] = "shared"
        elif q < 0.5 and r != "vocab":
            st[r + "_term"] = "cross"
    if rng.random() < 0.2:
        st["termcls"] = rng.choice(["sub", "subx"])
    return normalise(st)


def tallies(st):
    st = normalise(st)
    out = [f"tagstyle:{r}={st.get(r, 'plain')}" for r in ROLES]
    out += [f"tagstyle:{r}_term={st[r + '_term']}" for r in ROLES if r + "_term" in st]
    if "termcls" in st:
        out.append("tagstyle:termcls=" + st["termcls"])
    return out
