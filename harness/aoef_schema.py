"""C02 — the reference structure of the AOEF schema, read off the *declared fields* of the `…Object` classes.

Nothing here knows a field name of an object class: the classes are found by walking the package
`soundevent.io.aoef` (a collection schema is a pydantic model with a `collection_type` field), and a field is
classified by its type annotation only:

    UUID / Optional[UUID] / List[UUID] / Optional[List[UUID]]          a reference by uuid
    List[int] / List[Tuple[int, float]] (optional or not)              a reference by integer id (tags)
    a pydantic model / a list of pydantic models                       embedded objects: walked recursively
    the field `uuid: UUID` (or `id: int`) of a model                   the model's own identity, not a reference

A top-level field of a collection schema that is a list of models *with an identity* is a definition list.

* `extract()`            -> per collection type: declared keys, definition lists (name -> id type), reference rows
                            (owner list, dotted path, id type)                                  [Tie 1]
* `scan(info, data)`     -> what a written document actually holds in those fields: identifiers defined per list,
                            identifiers mentioned per row (document order)                      [Tie 2, search]
"""
import collections.abc
import importlib
import inspect
import pkgutil
import types
import typing
from uuid import UUID

IDENTITY = (("uuid", "uuid"), ("id", "int"))


def _strip_optional(ann):
    o = typing.get_origin(ann)
    if o is typing.Union or o is getattr(types, "UnionType", None):
        args = [a for a in typing.get_args(ann) if a is not type(None)]
        if len(args) == 1:
            return _strip_optional(args[0])
    if o is typing.Annotated:
        return _strip_optional(typing.get_args(ann)[0])
    return ann


def shape(ann):
    """type annotation -> ("uuid",) | ("int",) | ("list", s) | ("tuple", [s…]) | ("model", cls) | ("atom",)"""
    from pydantic import BaseModel
    ann = _strip_optional(ann)
    o = typing.get_origin(ann)
    args = typing.get_args(ann)
    if o in (list, set, frozenset, collections.abc.Sequence, collections.abc.Iterable, collections.abc.Collection) and args:
        return ("list", shape(args[0]))
    if o is tuple and args:
        if len(args) == 2 and args[1] is Ellipsis:
            return ("list", shape(args[0]))
        return ("tuple", [shape(a) for a in args])
    if ann is UUID:
        return ("uuid",)
    if ann is int:
        return ("int",)
    if inspect.isclass(ann) and issubclass(ann, BaseModel):
        return ("model", ann)
    return ("atom",)


def identity_of(cls):
    """(field name, id type) of the identity field of an object class, or None"""
    for name, idty in IDENTITY:
        f = cls.model_fields.get(name)
        if f is not None and shape(f.annotation) == (idty,):
            return name, idty
    return None


def _ref_idty(s):
    """id type of a reference-shaped annotation, or None"""
    if s == ("uuid",):
        return "uuid"
    if s[0] == "list":
        inner = s[1]
        if inner == ("uuid",):
            return "uuid"
        if inner == ("int",):
            return "int"
        if inner[0] == "tuple" and inner[1] and inner[1][0] == ("int",):
            return "int"
    return None


def _walk_object(cls, owner, prefix, rows, skip_identity=True, depth=0):
    """the reference rows of one object class (recursively through embedded models)"""
    if depth > 6:
        return
    ident = identity_of(cls)
    for name, f in cls.model_fields.items():
        if skip_identity and ident is not None and name == ident[0]:
            continue
        s = shape(f.annotation)
        path = prefix + name
        idty = _ref_idty(s)
        if idty is not None:
            rows.add((owner, path, idty))
        elif s[0] == "model":
            _walk_object(s[1], owner, path + ".", rows, depth=depth + 1)
        elif s[0] == "list" and s[1][0] == "model":
            _walk_object(s[1][1], owner, path + ".", rows, depth=depth + 1)


def collection_classes():
    """{collection_type: schema class}: every pydantic model of the package that declares `collection_type`"""
    import soundevent.io.aoef as A
    from pydantic import BaseModel
    out = {}
    mods = [A] + [importlib.import_module("soundevent.io.aoef." + m.name) for m in pkgutil.iter_modules(A.__path__)]
    for mod in mods:
        for _n, c in inspect.getmembers(mod, inspect.isclass):
            if issubclass(c, BaseModel) and c.__module__ == mod.__name__:
                f = c.model_fields.get("collection_type")
                if f is not None and isinstance(f.default, str):
                    out[f.default] = c
    return out


def describe(cls):
    """one collection schema -> {"keys": [...], "deflists": {name: (idty, object class)}, "rows": {(owner, path, idty)}}"""
    keys = list(cls.model_fields)
    deflists, rows = {}, set()
    for name, f in cls.model_fields.items():
        if name in ("uuid", "collection_type"):
            continue
        s = shape(f.annotation)
        idty = _ref_idty(s)
        if idty is not None:
            rows.add((name, "", idty))
        elif s[0] == "list" and s[1][0] == "model":
            m = s[1][1]
            ident = identity_of(m)
            if ident is not None:
                deflists[name] = (ident[1], m)
            _walk_object(m, name, "", rows)
        elif s[0] == "model":
            _walk_object(s[1], name, "", rows)
    return {"keys": keys, "deflists": deflists, "rows": rows}


def extract():
    """every collection schema of the package, described"""
    return {ty: describe(c) for ty, c in sorted(collection_classes().items())}


def row_name(row):
    return f"{row[0]}/{row[1]}"


# ----------------------------------------------------------------------------- scanning a written document
def _values_at(obj, parts):
    """the identifiers found at a dotted path inside one (JSON) object, in document order"""
    if obj is None:
        return []
    if not parts:
        if isinstance(obj, list):
            out = []
            for v in obj:
                if isinstance(v, list):          # Tuple[int, float]: the id comes first
                    v = v[0] if v else None
                if v is not None:
                    out.append(str(v))
            return out
        return [str(obj)]
    head, rest = parts[0], parts[1:]
    if isinstance(obj, list):
        out = []
        for o in obj:
            out.extend(_values_at(o, parts))
        return out
    if isinstance(obj, dict):
        return _values_at(obj.get(head), rest)
    return []


def scan(info, data):
    """`info` = describe(schema of data["collection_type"]); `data` = the `data` member of a written file (parsed JSON)
    -> {"defs": {list: [id…]}, "rows": {"owner/path": [id…]}, "undeclared": [keys not declared by the schema]}"""
    defs = {}
    for name, (idty, cls) in info["deflists"].items():
        ident = identity_of(cls)[0]
        defs[name] = [str(o.get(ident)) for o in (data.get(name) or [])]
    rows = {}
    for owner, path, _idty in info["rows"]:
        rows[row_name((owner, path))] = _values_at(data.get(owner), [p for p in path.split(".") if p])
    return {"defs": defs, "rows": rows, "undeclared": sorted(set(data) - set(info["keys"]))}


def dangling(info, sc, targets):
    """schema-driven closure check of a scanned document.  `targets`: {"owner/path": definition list name} from the
    model's reference table; a row the model does not know is resolved against every list of its id type."""
    by_ty = {}
    for name, (idty, _c) in info["deflists"].items():
        by_ty.setdefault(idty, set()).update(sc["defs"].get(name, []))
    out = []
    for owner, path, idty in sorted(info["rows"]):
        rn = row_name((owner, path))
        tgt = targets.get(rn)
        pool = set(sc["defs"].get(tgt, [])) if tgt is not None else by_ty.get(idty, set())
        for v in sc["rows"].get(rn, []):
            if v not in pool:
                out.append(f"{rn} mentions {v}, which " + (f"`{tgt}` does not define" if tgt else "no list defines"))
    for name, ids in sc["defs"].items():
        if len(ids) != len(set(ids)):
            out.append(f"`{name}` defines an identifier twice")
    return out
