"""C08: the implementation side of operations in a *new interpreter* (nothing was called before).

    echo '{"items": [{"op": "detection_history", "input": {...}}, ...]}' | python -m harness.c08_worker

Every item is run in its own forked child of this interpreter, taken before any library function was called: the
items do not see each other's effects on module / class level state either.  Used by the triage of
`harness/props/c08.py`: a failure that was observed late in a long run may depend on what ran before it; a replay is
self-contained when the failure is also observed here."""
import json
import os
import sys
import warnings

warnings.filterwarnings("ignore")
HERE = os.path.dirname(os.path.dirname(os.path.abspath(__file__)))
sys.path.insert(0, HERE)
sys.path.insert(0, os.environ.get("SOUNDEVENT_SRC", "/repo/src"))
MARK = "@@C08-WORKER@@"


def _one(c08, canon_exc, item):
    try:
        return c08.OPS[item["op"]].impl(item["input"])
    except Exception as e:  # noqa: BLE001
        return canon_exc(e)


def main():
    req = json.load(sys.stdin)
    from harness.core import canon_exc
    from harness.props import c08
    import soundevent.evaluation  # noqa: F401  (imported, nothing called)
    items = req["items"] if "items" in req else [req]
    for k, item in enumerate(items):
        r, w = os.pipe()
        pid = os.fork()
        if pid == 0:
            os.close(r)
            try:
                out = json.dumps(_one(c08, canon_exc, item), default=str)
            except BaseException as e:  # noqa: BLE001
                out = json.dumps({"raise": "crash:" + type(e).__name__})
            with os.fdopen(w, "w") as f:
                f.write(out)
            os._exit(0)
        os.close(w)
        with os.fdopen(r) as f:
            data = f.read()
        os.waitpid(pid, 0)
        sys.stdout.write(MARK + json.dumps({"k": k, "out": json.loads(data) if data else None}) + "\n")
        sys.stdout.flush()


if __name__ == "__main__":
    main()
