"""C08: the implementation side of one operation in a *new interpreter* (nothing was called before).

    echo '{"op": "detection_history", "input": {...}}' | python -m harness.c08_worker

Used by the triage of `harness/props/c08.py`: a failure that was observed late in a long run may depend on what
ran before it (module / class level state of the library); a replay is self-contained when the failure is also
observed here."""
import json
import os
import sys
import warnings

warnings.filterwarnings("ignore")
HERE = os.path.dirname(os.path.dirname(os.path.abspath(__file__)))
sys.path.insert(0, HERE)
sys.path.insert(0, os.environ.get("SOUNDEVENT_SRC", "/repo/src"))
MARK = "@@C08-WORKER@@"


def main():
    req = json.load(sys.stdin)
    from harness.core import canon_exc
    from harness.props import c08
    try:
        out = c08.OPS[req["op"]].impl(req["input"])
    except Exception as e:  # noqa: BLE001
        out = canon_exc(e)
    sys.stdout.write(MARK + json.dumps(out, default=str) + "\n")


if __name__ == "__main__":
    main()
