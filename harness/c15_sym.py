"""Tie 1b for C15: symbolic traces of the audio functions' own arithmetic.

`load_clip`, `load_recording`, `create_time_range` / `create_range_dim`, `resample` and
`compute_spectrogram` are *executed* on symbolic rationals.  Only the calls into libraries are
replaced by recorders (soundfile behind `load_audio`, `np.arange`, `scipy.signal.resample / stft`,
`xr.Variable / xr.DataArray`); everything in between is the real code of the current source tree.
The result of a trace is the *plan* the function hands to the libraries (offset and frame count,
start / spacing / number of coordinates of an axis, `nperseg` / `noverlap` / `fs`, advertised `step`
attributes); it is emitted as a Lean decision tree and proved equal, for all rational inputs, to
the `…Plan` definitions of `SoundeventModel/Audio.lean`.

`floor`, `ceil`, `int()` are symbolic (`Rat.floor`, `Rat.ceil`, `truncZ`): `np.floor` / `math.floor`
reach `Q.__floor__`; `int` is shadowed in the traced module's namespace for the duration of the
trace.  Arithmetic is that of an ordered field (no rounding), as for every Tie 1b.

A trace observes behaviour: a rewrite that hands the same plan to the libraries still proves.
A change of shape (another library entry point, a stub attribute that is missing) raises and is a
broken obligation, never a crash of the check.
"""
import builtins
import contextlib
import inspect
import math
from fractions import Fraction
from pathlib import Path

from . import symtrace as st


class TieBroken(Exception):
    """the traced code no longer hands the recorded plan to the libraries in the expected shape"""


def _need(ok, what):
    if not ok:
        raise TieBroken(what)


def _fdiv(x, y):
    return Fraction(0) if y == 0 else x / y


class Q(st.Sym):
    """symbolic rational with symbolic floor / ceil / int; `is_int`: provably integer valued"""
    __slots__ = ("is_int",)

    def __hash__(self):
        # by identity: a (correct) memo keyed by its full input must not make the code untraceable; two distinct
        # symbolic values never meet in one dictionary slot (a lookup compares by identity first)
        return id(self)

    def __init__(self, e, f, is_int=False):
        super().__init__(e, f)
        self.is_int = is_int

    @staticmethod
    def var(name):
        return Q(name, lambda env, n=name: env[n])

    @staticmethod
    def of(o):
        if isinstance(o, Q):
            return o
        if isinstance(o, st.Sym):
            return Q(o.e, o.f)
        if isinstance(o, bool):
            raise st.Untraceable("bool used as number")
        if hasattr(o, "item") and not isinstance(o, (int, float, Fraction)):
            o = o.item()        # numpy scalar
        if isinstance(o, (int, float, Fraction)):
            fr = Fraction(o)
            return Q(st.lit(fr), lambda env, fr=fr: fr, fr.denominator == 1 and isinstance(o, int))
        raise st.Untraceable(f"cannot lift {type(o).__name__}")

    def _bin(self, o, sym, fn, rev=False):
        o = Q.of(o)
        a, b = (o, self) if rev else (self, o)
        is_int = a.is_int and b.is_int and sym in ("+", "-", "*")
        return Q(f"({a.e} {sym} {b.e})", lambda env, a=a, b=b: fn(a.f(env), b.f(env)), is_int)

    def __truediv__(self, o): return self._bin(o, "/", _fdiv)
    def __rtruediv__(self, o): return self._bin(o, "/", _fdiv, True)
    def __neg__(self): return Q(f"(-{self.e})", lambda env, a=self: -a.f(env), self.is_int)
    def __pos__(self): return self

    def _cmp(self, sym, o, fn):
        o = Q.of(o)
        return st._CUR.decide((f"{self.e} {sym} {o.e}", lambda env, a=self, b=o: fn(a.f(env), b.f(env))))

    def __floor__(self):
        if self.is_int:
            return self
        return Q(f"((Rat.floor {self.e} : Int) : Rat)", lambda env, a=self: Fraction(math.floor(a.f(env))), True)

    def __ceil__(self):
        if self.is_int:
            return self
        return Q(f"((Rat.ceil {self.e} : Int) : Rat)", lambda env, a=self: Fraction(math.ceil(a.f(env))), True)

    def __trunc__(self):
        return sym_int(self)

    def __floordiv__(self, o):
        return (self / o).__floor__()

    def __rfloordiv__(self, o):
        return (Q.of(o) / self).__floor__()

    def __round__(self, *a):
        raise st.Untraceable("round() of a symbolic number")


def sym_int(x=0, *a, **kw):
    """`int` as seen by the traced module: truncation toward zero of a symbolic number"""
    if isinstance(x, Q):
        if x.is_int:
            return x
        return Q(f"((SE.Audio.truncZ {x.e} : Int) : Rat)", lambda env, q=x: Fraction(math.trunc(q.f(env))), True)
    if isinstance(x, st.Sym):
        return sym_int(Q.of(x))
    return builtins.int(x, *a, **kw)


# ---------------------------------------------------------------------- library recorders
class Rec:
    """a recorded constructor / library call"""

    def __init__(self, kind, args):
        self.kind = kind
        self.args = args

    def __getitem__(self, k):
        return self.args[k]

    def get(self, k, d=None):
        return self.args.get(k, d)


def _recorder(kind, real, log=None, ret=None, method=True):
    sig = inspect.signature(real)

    def rec(*a, **kw):
        ba = sig.bind(*(((None,) if method else ()) + a), **kw)
        ba.apply_defaults()
        args = dict(ba.arguments)
        if method:
            args.pop(next(iter(sig.parameters)), None)
        r = Rec(kind, args)
        if log is not None:
            log.append(r)
        return r if ret is None else ret(r)
    return rec


class Proxy:
    """a module with some attributes replaced"""

    def __init__(self, real, **over):
        self.__dict__["_real"] = real
        self.__dict__["_over"] = over

    def __getattr__(self, n):
        if n in self._over:
            return self._over[n]
        return getattr(self._real, n)


_MISSING = object()


@contextlib.contextmanager
def patched(*triples):
    saved = []
    try:
        for mod, name, val in triples:
            saved.append((mod, name, mod.__dict__.get(name, _MISSING)))
            setattr(mod, name, val)
        yield
    finally:
        for mod, name, old in reversed(saved):
            if old is _MISSING:
                try:
                    delattr(mod, name)
                except AttributeError:
                    pass
            else:
                setattr(mod, name, old)


class SymArange:
    """`np.arange(start, stop, step)` on symbolic numbers: the lattice `start + i·step`, `i < size`"""

    def __init__(self, start, step, size, dtype=None):
        self.start, self.step, self._size, self.dtype = Q.of(start), Q.of(step), Q.of(size), dtype

    @property
    def size(self):
        return self._size

    @property
    def shape(self):
        return (self._size,)

    ndim = 1

    def __len__(self):
        raise st.Untraceable("len() of a symbolic arange (use .size)")

    def copy(self, *a, **kw):
        return self

    def astype(self, dtype, *a, **kw):
        return SymArange(self.start, self.step, self._size, dtype)

    def __getitem__(self, i):
        if isinstance(i, slice):
            if i == slice(None, -1, None):
                return SymArange(self.start, self.step, self._size - 1, self.dtype)
            if i in (slice(None, None, None), slice(0, None, None)):
                return self
            raise st.Untraceable(f"slice {i} of a symbolic arange")
        if isinstance(i, int) and not isinstance(i, bool):
            if i == -1:
                return self.start + (self._size - 1) * self.step
            if i >= 0:
                return self.start + i * self.step
        raise st.Untraceable(f"index {i!r} of a symbolic arange")


def _sym_arange(*a, **kw):
    import numpy as np

    def shape(start=None, stop=None, step=None, dtype=None, **_kw):
        return start, stop, step, dtype
    start, stop, step, dtype = shape(*a, **kw)
    if stop is None:
        start, stop = 0, start
    if start is None:
        start = 0
    if step is None:
        step = 1
    if not any(isinstance(x, st.Sym) for x in (start, stop, step)):
        return np.arange(*a, **kw)
    start, stop, step = Q.of(start), Q.of(stop), Q.of(step)
    size = Q(f"((SE.Audio.arangeLen {start.e} {stop.e} {step.e} : Nat) : Rat)",
             lambda env, a=start, b=stop, s=step: Fraction(max(0, math.ceil(_fdiv(b.f(env) - a.f(env), s.f(env))))), True)
    return SymArange(start, step, size, dtype)


def _dim_patches():
    """np.arange / xr.Variable of `soundevent.arrays.dimensions` replaced by symbolic ones"""
    import numpy as np
    import xarray as xr
    from soundevent.arrays import dimensions as D
    return [(D, "np", Proxy(np, arange=_sym_arange)),
            (D, "xr", Proxy(xr, Variable=_recorder("Variable", xr.Variable.__init__))),
            (D, "int", sym_int)]


def _axis_of(var, name, what):
    """(start, spacing, count, advertised step) of a recorded range dimension"""
    _need(isinstance(var, Rec) and var.kind == "Variable", f"{what}: the {name} coordinate is not built with xr.Variable")
    dims = var["dims"]
    _need(dims == name or tuple(dims) == (name,), f"{what}: coordinate dims {dims!r}, expected {name!r}")
    data = var["data"]
    _need(isinstance(data, SymArange), f"{what}: the {name} coordinate is not an arange lattice")
    attrs = var["attrs"] or {}
    _need("step" in attrs, f"{what}: the {name} coordinate has no `step` attribute")
    return data.start, data.step, data.size, Q.of(attrs["step"])


class _Stub:
    def __init__(self, **kw):
        self.__dict__.update(kw)


# ---------------------------------------------------------------------- traced functions
def trace_range_dim(a, b, step):
    from soundevent.arrays import dimensions as D
    with patched(*_dim_patches()):
        var = D.create_range_dim("time", a, b, step)
    return _axis_of(var, "time", "create_range_dim")


def trace_time_range(a, b, sr, step=None):
    from soundevent.arrays import dimensions as D
    with patched(*_dim_patches()):
        var = D.create_time_range(a, b, samplerate=sr) if step is None else \
            D.create_time_range(a, b, step=step, samplerate=sr)
    return _axis_of(var, "time", "create_time_range")


def _io_patches(log, token):
    import numpy as np
    import xarray as xr
    from soundevent.audio import io as IO
    real = IO.load_audio
    return _dim_patches() + [
        (IO, "load_audio", _recorder("load_audio", real, log, ret=lambda r: (token, 48000), method=False)),
        (IO, "xr", Proxy(xr, DataArray=_recorder("DataArray", xr.DataArray.__init__))),
        (IO, "np", Proxy(np)),
        (IO, "int", sym_int)]


def _clip_result(arr, log, token, what):
    _need(isinstance(arr, Rec) and arr.kind == "DataArray", f"{what}: result is not built with xr.DataArray")
    _need(len(log) == 1, f"{what}: load_audio called {len(log)} times")
    _need(arr["data"] is token, f"{what}: the data of the array is not what load_audio returned")
    _need(tuple(arr["dims"]) == ("time", "channel"), f"{what}: dims {arr['dims']!r}")
    coords = arr["coords"]
    _need(list(coords["channel"]) == list(range(token.shape[1])), f"{what}: channel coordinate")
    return _axis_of(coords["time"], "time", what)


def trace_load_clip(s, e, sr, audio_dir=None):
    import numpy as np
    from soundevent.audio import io as IO
    log, token = [], np.zeros((3, 2))
    rec = _Stub(path=Path("rec.wav"), samplerate=sr, duration=None, uuid="r", channels=2, time_expansion=1.0)
    clip = _Stub(recording=rec, start_time=s, end_time=e, uuid="c")
    with patched(*_io_patches(log, token)):
        arr = IO.load_clip(clip) if audio_dir is None else IO.load_clip(clip, audio_dir=audio_dir)
    axis = _clip_result(arr, log, token, "load_clip")
    _need(clip.start_time is s and clip.end_time is e and clip.recording is rec and rec.samplerate is sr
          and rec.path == Path("rec.wav"), "load_clip: the clip / recording handed in was written to")
    call = log[0]
    _need(Path(call["path"]) == (rec.path if audio_dir is None else Path(audio_dir) / rec.path),
          "load_clip: path handed to load_audio")
    _need(call["samples"] is not None, "load_clip: no frame count handed to load_audio")
    return (Q.of(call["offset"]), Q.of(call["samples"])) + axis


def trace_load_recording(d, sr, audio_dir=None):
    import numpy as np
    from soundevent.audio import io as IO
    log, token = [], np.zeros((3, 2))
    rec = _Stub(path=Path("rec.wav"), samplerate=sr, duration=d, uuid="r", channels=2, time_expansion=1.0)
    with patched(*_io_patches(log, token)):
        arr = IO.load_recording(rec) if audio_dir is None else IO.load_recording(rec, audio_dir=audio_dir)
    axis = _clip_result(arr, log, token, "load_recording")
    _need(rec.duration is d and rec.samplerate is sr and rec.path == Path("rec.wav"),
          "load_recording: the recording handed in was written to")
    call = log[0]
    _need(Path(call["path"]) == (rec.path if audio_dir is None else Path(audio_dir) / rec.path),
          "load_recording: path handed to load_audio")
    off = call["offset"]
    _need(not isinstance(off, st.Sym) and off == 0 and call["samples"] in (None, -1),
          "load_recording: does not read the whole file")
    return axis


class _Tok:
    """an opaque array returned by a library recorder"""
    import numpy as _np
    dtype = _np.dtype("float64")

    def __init__(self, name, size=None):
        self.name = name
        if size is not None:
            self.size = size


class _Shifted(_Tok):
    """scipy's segment times plus a (symbolic) offset"""

    def __init__(self, base, shift):
        super().__init__(base.name)
        self.base, self.shift = base, shift

    def __add__(self, o):
        return _Shifted(self.base, self.shift + Q.of(o))

    __radd__ = __add__

    def __sub__(self, o):
        return _Shifted(self.base, self.shift - Q.of(o))


class _Seq:
    """a coordinate's values of which only the first is looked at"""

    def __init__(self, first, size=None):
        self.first = first
        if size is not None:
            self.size = size
    import numpy as _np
    dtype = _np.dtype("float64")

    def __getitem__(self, i):
        if i == 0:
            return self.first
        raise st.Untraceable(f"coordinate index {i!r}")


class _ArrStub:
    """an xarray.DataArray as far as resample / compute_spectrogram look at it"""
    dims = ("time", "channel")

    def __init__(self, values, times, step):
        self.values = values
        self.data = values
        self.attrs = {}
        tcoord = _Stub(values=times, data=times, attrs={"step": step}, dims=("time",))
        self.channel = _Stub(values=[0], data=[0], attrs={}, dims=("channel",))
        self.coords = {"time": tcoord, "channel": self.channel}
        self.time = tcoord
        self.sizes = {"time": getattr(times, "size", None), "channel": 1}
        self.shape = values.shape

    def get_axis_num(self, dim):
        return self.dims.index(dim)

    def untouched(self, step):
        """the traced function wrote nothing into its argument: the attrs of the array and of its coordinates
        are the very objects, with the very entries, they were before the call"""
        return (self.attrs == {} and self.channel.attrs == {} and self.coords["time"] is self.time
                and list(self.time.attrs) == ["step"] and self.time.attrs["step"] is step
                and list(self.coords) == ["time", "channel"] and self.data is self.values)


def trace_resample(n, step, target):
    import numpy as np
    import xarray as xr
    from scipy import signal
    from soundevent.audio import operations as OP
    log = []
    values = np.zeros((4, 1))
    times = _Seq(Q.var("t0"), size=n)
    new_times = _Tok("resampled_times")
    out = np.zeros((2, 1))
    arr = _ArrStub(values, times, step)
    patches = _dim_patches() + [
        (OP, "signal", Proxy(signal, resample=_recorder("resample", signal.resample, log,
                                                        ret=lambda r: (out, new_times), method=False))),
        (OP, "xr", Proxy(xr, DataArray=_recorder("DataArray", xr.DataArray.__init__))),
        (OP, "int", sym_int)]
    with patched(*patches):
        res = OP.resample(arr, target)
    _need(isinstance(res, Rec) and res.kind == "DataArray", "resample: result is not built with xr.DataArray")
    _need(len(log) == 1, f"resample: scipy.signal.resample called {len(log)} times")
    call = log[0]
    _need(call["x"] is values and call["t"] is times and call["axis"] == 0 and call["window"] is None
          and call["domain"] == "time", "resample: arguments of scipy.signal.resample")
    _need(res["data"] is out and tuple(res["dims"]) == arr.dims, "resample: data / dims of the result")
    _need(arr.untouched(step), "resample: the input array (its attrs / the attrs of its coordinates) was written to")
    var = res["coords"]["time"]
    _need(isinstance(var, Rec) and var.kind == "Variable" and var["data"] is new_times,
          "resample: the time coordinate is not scipy's resampled times")
    attrs = var["attrs"] or {}
    _need("step" in attrs, "resample: no `step` attribute")
    return Q.of(call["num"]), Q.of(attrs["step"])


class _Vals(_Tok):
    """the audio samples: an opaque array of (symbolically many) frames x 1 channel"""
    ndim = 2

    def __init__(self, n):
        super().__init__("samples")
        self.shape = (n, 1)

    def __len__(self):
        raise st.Untraceable("len() of the symbolic sample array (use .shape / .sizes)")


def trace_spectrogram(step, w, h, t0, n, opts=None):
    """`n`: the (symbolic) number of audio samples, seen by the code as `audio.sizes["time"]`
    (or the shape of the data / the size of the time coordinate): the repaired code clamps `nperseg`
    to it (fix C15-3), which the trace records as the comparison Python's `min` makes"""
    import numpy as np
    import xarray as xr
    from scipy import signal
    from soundevent.audio import spectrograms as SP
    log = []
    values = _Vals(n)
    arr = _ArrStub(values, _Seq(t0, size=n), step)
    freqs, seg_times = _Tok("frequencies"), _Shifted(_Tok("times"), Q.of(0))
    zxx = np.zeros((3, 1, 2), dtype=complex)
    patches = _dim_patches() + [
        (SP, "signal", Proxy(signal, stft=_recorder("stft", signal.stft, log,
                                                    ret=lambda r: (freqs, seg_times, zxx), method=False))),
        (SP, "xr", Proxy(xr, DataArray=_recorder("DataArray", xr.DataArray.__init__))),
        (SP, "int", sym_int)]
    with patched(*patches):
        # `opts` = (window_type, detrend, padded, boundary) handed over *positionally* in the documented order
        res = SP.compute_spectrogram(arr, w, h) if opts is None else SP.compute_spectrogram(arr, w, h, *opts)
    _need(isinstance(res, Rec) and res.kind == "DataArray", "compute_spectrogram: result is not built with xr.DataArray")
    _need(len(log) == 1, f"compute_spectrogram: scipy.signal.stft called {len(log)} times")
    call = log[0]
    _need(call["x"] is values and call["axis"] == 0, "compute_spectrogram: data / axis handed to stft")
    want = ("hann", False, True, "zeros") if opts is None else opts
    _need(call["window"] == want[0] and call["detrend"] == want[1] and call["padded"] is want[2]
          and call["boundary"] == want[3] and call["return_onesided"] is True and call["nfft"] is None,
          "compute_spectrogram: window / detrend / padded / boundary / return_onesided / nfft handed to stft")
    _need(arr.untouched(step), "compute_spectrogram: the input array (its attrs / the attrs of its coordinates) was written to")
    _need(tuple(res["dims"]) == ("frequency", "time", "channel"), f"compute_spectrogram: dims {res['dims']!r}")
    fvar, tvar = res["coords"]["frequency"], res["coords"]["time"]
    for v in (fvar, tvar):
        _need(isinstance(v, Rec) and v.kind == "Variable" and "step" in (v["attrs"] or {}),
              "compute_spectrogram: coordinate without `step`")
    _need(fvar["data"] is freqs, "compute_spectrogram: the frequency coordinate is not scipy's")
    td = tvar["data"]
    _need(isinstance(td, _Shifted) and td.base is seg_times.base, "compute_spectrogram: the time coordinate is not scipy's times plus an offset")
    return (Q.of(call["fs"]), Q.of(call["nperseg"]), Q.of(call["noverlap"]), Q.of(fvar["attrs"]["step"]),
            td.shift, Q.of(tvar["attrs"]["step"]))


# ---------------------------------------------------------------------- registration
_SIMP = ("SE.Audio.rangePlan, SE.Audio.timeRangePlan, SE.Audio.clipPlan, SE.Audio.recordingPlan, "
         "SE.Audio.RangePlan.toTuple, SE.Audio.ClipPlan.toTuple, SE.Audio.rangeCount_cast, "
         "SE.Audio.resamplePlanTuple, SE.Audio.resamplePlan, SE.Audio.stftPlanTuple, "
         "SE.Audio.floor_zero, SE.Audio.ceil_zero, SE.Audio.truncZ_zero")


def _tactic(name):
    return (f"unfold {name}\n  try simp only [{_SIMP}]\n"
            "  all_goals first | rfl | grind | (simp; done) | (simp; grind) | ((repeat' split) <;> simp_all <;> grind)")


IMPORTS = ["Proofs.Lemmas.Audio", "SoundeventModel.Tactics"]


def register(ctx):
    """register the ten ties; each is an obligation `∀ inputs, traced = plan`"""
    V = Q.var
    R4, R6 = "Rat × Rat × Rat × Rat", "Rat × Rat × Rat × Rat × Rat × Rat"
    ties = [
        ("ext_range_dim", lambda: trace_range_dim(V("a"), V("b"), V("st")), ["a", "b", "st"], R4,
         "some (SE.Audio.rangePlan a b st).toTuple", "create_range_dim"),
        ("ext_time_range", lambda: trace_time_range(V("a"), V("b"), V("sr")), ["a", "b", "sr"], R4,
         "some (SE.Audio.timeRangePlan a b sr).toTuple", "create_time_range"),
        ("ext_time_range_step", lambda: trace_time_range(V("a"), V("b"), V("sr"), V("st")), ["a", "b", "sr", "st"], R4,
         "some (SE.Audio.rangePlan a b st).toTuple", "create_time_range"),
        ("ext_load_clip", lambda: trace_load_clip(V("s"), V("e"), V("sr")), ["s", "e", "sr"], R6,
         "some (SE.Audio.clipPlan sr s e).toTuple", "load_clip"),
        ("ext_load_clip_dir", lambda: trace_load_clip(V("s"), V("e"), V("sr"), "/audio/dir"), ["s", "e", "sr"], R6,
         "some (SE.Audio.clipPlan sr s e).toTuple", "load_clip"),
        ("ext_load_recording", lambda: trace_load_recording(V("d"), V("sr")), ["d", "sr"], R4,
         "some (SE.Audio.recordingPlan sr d).toTuple", "load_recording"),
        ("ext_load_recording_dir", lambda: trace_load_recording(V("d"), V("sr"), "/audio/dir"), ["d", "sr"], R4,
         "some (SE.Audio.recordingPlan sr d).toTuple", "load_recording"),
        ("ext_resample", lambda: trace_resample(V("n"), V("st"), V("target")), ["n", "st", "target"], "Rat × Rat",
         "some (SE.Audio.resamplePlanTuple n st target)", "resample"),
        # `n` = number of audio samples: the tie holds for every rational `n`; `C15_stft_plan_tuple` specialises
        # the traced form to the model's plan `stftPlan st w h t0 len` (clamped `nperseg`, fix C15-3)
        ("ext_spectrogram", lambda: trace_spectrogram(V("st"), V("w"), V("h"), V("t0"), V("n")),
         ["st", "w", "h", "t0", "n"], R6,
         "some (SE.Audio.stftPlanTuple st w h t0 n)", "spectrogram"),
        # the options (passed positionally in the documented order) are forwarded to scipy untouched and do not
        # enter the plan: same window, overlap and advertised steps as the default call (C15_stft_options_same_steps)
        ("ext_spectrogram_options",
         lambda: trace_spectrogram(V("st"), V("w"), V("h"), V("t0"), V("n"), ("hamming", "constant", False, None)),
         ["st", "w", "h", "t0", "n"], R6,
         "some (SE.Audio.stftPlanTuple st w h t0 n)", "spectrogram_options"),
    ]
    trees = {}
    for name, thunk, variables, ret, term, op in ties:
        trees[name] = ctx.sym_tie(name, thunk, variables, ret, term, tactic=_tactic(name),
                                  meta={"op": op}, catch=())
    return trees
