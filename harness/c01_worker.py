"""C01 fresh-process loader: `io.load` in a process that never saw the objects that were saved.
stdin: one JSON request per line {"path":…, "audio_dir":…|null, "dir_as": "str"|"path"};
stdout: {"val": model-layout JSON, "gen": declared-field walk of the loaded object} | {"raise": enum}."""
import json
import os
import sys
import warnings

warnings.filterwarnings("ignore")
HERE = os.path.dirname(os.path.dirname(os.path.abspath(__file__)))
sys.path.insert(0, HERE)
sys.path.insert(0, os.environ.get("SOUNDEVENT_SRC", "/repo/src"))


def main():
    from pathlib import Path
    from harness import aoef
    from harness.c01_generic import generic
    from harness.core import canon_exc
    from soundevent import io
    out = sys.stdout
    for line in sys.stdin:
        line = line.strip()
        if not line:
            continue
        rq = json.loads(line)
        try:
            d = rq.get("audio_dir")
            if d is not None and rq.get("dir_as") == "path":
                d = Path(d)
            obj = io.load(rq["path"], audio_dir=d)
            rep = {"val": aoef.dump(obj), "gen": generic(obj)}
        except Exception as e:  # noqa: BLE001
            rep = canon_exc(e)
        out.write(json.dumps(rep) + "\n")
        out.flush()


if __name__ == "__main__":
    main()
