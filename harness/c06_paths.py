"""C06, follow-up 3: unusual but legitimate ways of building and passing the arguments of compute_affinity,
ways of changing a geometry object that was already used, and near-identical copies of a geometry.

Nothing here computes an expected value: these helpers only produce *inputs* (live objects for the real code,
JSON geometries with exact rationals for the model)."""
import copy
import math
import pickle
from fractions import Fraction
from types import SimpleNamespace

from .rat import rat, frac
from . import gen_geom

DEPTH = {"TimeStamp": -1, "TimeInterval": 0, "Point": 0, "BoundingBox": 0, "LineString": 1, "MultiPoint": 1,
         "Polygon": 2, "MultiLineString": 2, "MultiPolygon": 3}

# ------------------------------------------------------------------------------------------ construction paths
BUILDS = ["validate", "ctor", "ctor_tuple", "ctor_np64", "ctor_nparray", "ctor_int", "json", "gv_json", "attrs",
          "model_validate", "roundtrip", "copy", "deepcopy", "model_copy", "model_copy_deep", "copy_update_same",
          "pickle", "subclass"]
_SUBCLASS = {}


def _map_leaves(c, f):
    if isinstance(c, (list, tuple)):
        return [_map_leaves(x, f) for x in c]
    return f(c)


def _tuples(c):
    if isinstance(c, list):
        return tuple(_tuples(x) for x in c)
    return c


def integral(gj):
    """every coordinate is an integer (then the geometry can also be written with ints)"""
    ok = [True]

    def chk(x):
        if frac(x).denominator != 1:
            ok[0] = False
        return x
    _map_leaves(gj["coordinates"], chk)
    return ok[0]


def build_ok(gj, how):
    if how == "ctor_int":
        return integral(gj)
    return how in BUILDS


def build(gj, how="validate"):
    """a live `soundevent.data` geometry with the content of `gj`, obtained along the path `how`"""
    import numpy as np
    from soundevent import data
    ty = gj["type"]
    cls = getattr(data, ty)
    coords = gen_geom.coords_float(gj)
    if how == "validate":
        return data.geometry_validate({"type": ty, "coordinates": coords}, mode="dict")
    if how == "ctor":
        return cls(coordinates=coords)
    if how == "ctor_tuple":
        return cls(coordinates=_tuples(coords))
    if how == "ctor_np64":
        return cls(coordinates=_map_leaves(coords, np.float64))
    if how == "ctor_nparray":
        return cls(coordinates=np.array(coords, dtype=float) if ty not in ("TimeStamp", "Polygon", "MultiPolygon",
                                                                              "MultiLineString") else coords)
    if how == "ctor_int":
        return cls(coordinates=_map_leaves(gj["coordinates"], lambda x: int(frac(x))))
    if how == "json":
        import json
        return cls.model_validate_json(json.dumps({"type": ty, "coordinates": coords}))
    if how == "gv_json":
        import json
        return data.geometry_validate(json.dumps({"type": ty, "coordinates": coords}), mode="json")
    if how == "attrs":
        return data.geometry_validate(SimpleNamespace(type=ty, coordinates=coords), mode="attributes")
    if how == "model_validate":
        return cls.model_validate({"type": ty, "coordinates": coords})
    if how == "roundtrip":
        g = cls(coordinates=coords)
        return cls.model_validate(g.model_dump())
    if how == "copy":
        return copy.copy(cls(coordinates=coords))
    if how == "deepcopy":
        return copy.deepcopy(cls(coordinates=coords))
    if how == "model_copy":
        return cls(coordinates=coords).model_copy()
    if how == "model_copy_deep":
        return cls(coordinates=coords).model_copy(deep=True)
    if how == "copy_update_same":
        return cls(coordinates=coords).model_copy(update={"coordinates": copy.deepcopy(coords)})
    if how == "pickle":
        return pickle.loads(pickle.dumps(cls(coordinates=coords)))
    if how == "subclass":
        sub = _SUBCLASS.get(ty)
        if sub is None or not issubclass(sub, cls):
            sub = _SUBCLASS[ty] = type("My" + ty, (cls,), {})
        return sub(coordinates=coords)
    raise ValueError("unknown construction path " + str(how))


# ------------------------------------------------------------------------------------------ numbers as passed
NUMS = ["float", "int", "np64", "np32", "npint", "bool"]


def num_ok(x, kind):
    q = frac(x)
    if kind == "float" or kind == "np64":
        return True
    if kind in ("int", "npint"):
        return q.denominator == 1
    if kind == "bool":
        return q in (0, 1)
    if kind == "np32":
        # only where float32 arithmetic with it is exact: a power of two (its reciprocal is one too)
        return q > 0 and (q.numerator == 1 or q.denominator == 1) and (q.numerator & (q.numerator - 1)) == 0 \
            and (q.denominator & (q.denominator - 1)) == 0 and Fraction(1, 64) <= q <= 64
    return False


def num(x, kind):
    import numpy as np
    q = frac(x)
    if kind == "float":
        return float(q)
    if kind == "int":
        return int(q)
    if kind == "np64":
        return np.float64(float(q))
    if kind == "np32":
        return np.float32(float(q))
    if kind == "npint":
        return np.int64(int(q))
    if kind == "bool":
        return bool(q)
    raise ValueError(kind)


# ------------------------------------------------------------------------------------------ call styles
PARAM = {"g1": "geometry1", "g2": "geometry2", "tb": "time_buffer", "fb": "freq_buffer"}
# (positional slots, keyword slots): the ways the documented interface can be called
STYLES = {
    "kw": (["g1", "g2"], ["tb", "fb"]),
    "kw_rev": (["g1", "g2"], ["fb", "tb"]),
    "pos": (["g1", "g2", "tb", "fb"], []),
    "pos3": (["g1", "g2", "tb"], ["fb"]),
    "all_kw": ([], ["g2", "fb", "g1", "tb"]),
    "default": (["g1", "g2"], []),
    "default_fb": (["g1", "g2"], ["tb"]),
    "default_tb": (["g1", "g2"], ["fb"]),
    "pos3_default_fb": (["g1", "g2", "tb"], []),
}


def call(fn, vals, pos, kw):
    return fn(*[vals[s] for s in pos], **{PARAM[s]: vals[s] for s in kw})


def extract_signature(fn):
    """[[name, default], ...] of the parameters of `fn` by introspection: default None = required, a number as
    an exact rational string; anything the documented interface does not allow in the first four places is
    made visible in the name (so that `WellFormedSig` fails); optional extras behind them are kept as
    optional"""
    import inspect
    out = []
    for k, (name, p) in enumerate(inspect.signature(fn).parameters.items()):
        if p.kind is not inspect.Parameter.POSITIONAL_OR_KEYWORD:
            if k < 4:
                out.append([name + ":" + p.kind.name, None])
            elif p.kind in (inspect.Parameter.VAR_KEYWORD, inspect.Parameter.VAR_POSITIONAL):
                continue
            else:
                out.append([name, None if p.default is inspect.Parameter.empty else {"num": "0"}])
            continue
        if p.default is inspect.Parameter.empty:
            out.append([name, None])
            continue
        d = p.default
        if isinstance(d, bool) or not isinstance(d, (int, float)) or (isinstance(d, float) and not math.isfinite(d)):
            out.append([name, {"num": "0"}] if k >= 4 else [name + ":non-numeric-default", None])
        else:
            out.append([name, {"num": rat(Fraction(d))}])
    return out


def lean_sig(sig):
    """the signature as a Lean list literal of type `SE.Affinity.Sig`"""
    items = []
    for name, d in sig:
        if d is None:
            items.append(f'("{name}", none)')
        else:
            q = frac(d["num"])
            items.append(f'("{name}", some (.num (({q.numerator} : Rat) / {q.denominator})))')
    return "[" + ", ".join(items) + "]"


# ------------------------------------------------------------------------------------------ object reuse
REUSE = ["assign", "copy_update", "deep_copy_update", "copy_assign", "deepcopy_assign", "same", "swap"]


def prime(obj, tb=0.5, fb=0.5):
    """use the object in everything of the anchored files that looks at a geometry (whatever these calls may
    memoise on the object or elsewhere must not survive a later change of the object)"""
    from soundevent.geometry import buffer_geometry, compute_bounds, geometry_to_shapely
    for f in (compute_bounds, geometry_to_shapely, lambda g: buffer_geometry(g, time_buffer=tb, freq_buffer=fb)):
        try:
            f(obj)
        except Exception:  # noqa: BLE001 - only the use matters
            pass


def change(obj, gj, how):
    """the live object `obj`, already used, turned into one with the content of `gj` (same type): returns the
    object to use from now on, or None if `how` does not apply"""
    if obj is None or obj.type != gj["type"]:
        return None
    coords = gen_geom.coords_float(gj)
    if how == "assign":
        obj.coordinates = coords
        return obj
    if how == "copy_update":
        return obj.model_copy(update={"coordinates": coords})
    if how == "deep_copy_update":
        return obj.model_copy(update={"coordinates": coords}, deep=True)
    if how == "copy_assign":
        new = copy.copy(obj)
        new.coordinates = coords
        return new
    if how == "deepcopy_assign":
        new = copy.deepcopy(obj)
        new.coordinates = coords
        return new
    return None


# ------------------------------------------------------------------------------------------ near-identical copies
PERTURB = ["ulp", "ulp_some", "rel1e-12", "rt1000", "rt3", "rt_mixed"]


def _leaf_perturb(kind, rng):
    def f(x, axis):
        v = float(frac(x))
        if kind == "ulp":
            w = math.nextafter(v, math.inf if rng.random() < 0.5 else -math.inf)
        elif kind == "ulp_some":        # only some of the coordinates differ
            w = math.nextafter(v, math.inf if rng.random() < 0.5 else -math.inf) if rng.random() < 0.3 else v
        elif kind == "rel1e-12":
            w = v * (1.0 + rng.choice([-1, 1]) * 1e-12 * rng.random())
        elif kind == "rt1000":          # s -> ms -> s, Hz -> kHz -> Hz
            w = v * 1000 / 1000 if axis == 0 else v / 1000 * 1000
        elif kind == "rt3":
            w = v / 3 * 3
        elif kind == "rt_mixed":
            w = rng.choice([lambda y: y * 1000 / 1000, lambda y: y / 1000 * 1000, lambda y: y / 3 * 3,
                            lambda y: y * 0.1 / 0.1, lambda y: (y + 1.1) - 1.1])(v)
        else:
            raise ValueError(kind)
        if not (w >= 0.0) or not math.isfinite(w):
            w = v
        return rat(w)
    return f


def perturb(gj, kind, rng):
    """the same geometry with every coordinate moved by about one unit in the last place (a copy that went
    through a unit round trip or was computed by an equivalent formula); closed rings stay closed"""
    f = _leaf_perturb(kind, rng)
    ty, c = gj["type"], gj["coordinates"]

    def pt(p):
        return [f(p[0], 0), f(p[1], 1)]

    def ring(r):
        closed = len(r) > 1 and r[0] == r[-1]
        out = [pt(p) for p in (r[:-1] if closed else r)]
        if closed:
            out.append(list(out[0]))
        return out
    if ty == "TimeStamp":
        c2 = f(c, 0)
    elif ty == "TimeInterval":
        a, b = f(c[0], 0), f(c[1], 0)
        c2 = [a, b] if frac(a) <= frac(b) else [b, a]
    elif ty == "Point":
        c2 = pt(c)
    elif ty == "BoundingBox":
        c2 = [f(c[0], 0), f(c[1], 1), f(c[2], 0), f(c[3], 1)]
        if frac(c2[0]) > frac(c2[2]) or frac(c2[1]) > frac(c2[3]):
            c2 = list(c)
    elif ty in ("LineString", "MultiPoint"):
        c2 = [pt(p) for p in c]
    elif ty == "MultiLineString":
        c2 = [[pt(p) for p in line] for line in c]
    elif ty == "Polygon":
        c2 = [ring(r) for r in c]
    elif ty == "MultiPolygon":
        c2 = [[ring(r) for r in poly] for poly in c]
    else:
        raise ValueError(ty)
    return {"type": ty, "coordinates": c2}


def decimal_round(gj, nt=3, nf=1):
    """coordinates rounded to a few decimals (what annotation tools write): unit round trips change such numbers"""
    def f(x, axis):
        return rat(round(float(frac(x)), nt if axis == 0 else nf))
    ty, c = gj["type"], gj["coordinates"]

    def pt(p):
        return [f(p[0], 0), f(p[1], 1)]
    if ty == "TimeStamp":
        return {"type": ty, "coordinates": f(c, 0)}
    if ty == "TimeInterval":
        return {"type": ty, "coordinates": [f(c[0], 0), f(c[1], 0)]}
    if ty == "Point":
        return {"type": ty, "coordinates": pt(c)}
    if ty == "BoundingBox":
        return {"type": ty, "coordinates": [f(c[0], 0), f(c[1], 1), f(c[2], 0), f(c[3], 1)]}
    if ty in ("LineString", "MultiPoint"):
        return {"type": ty, "coordinates": [pt(p) for p in c]}
    if ty in ("MultiLineString", "Polygon"):
        return {"type": ty, "coordinates": [[pt(p) for p in r] for r in c]}
    return {"type": ty, "coordinates": [[[pt(p) for p in r] for r in poly] for poly in c]}
