"""C17 helpers: how the arrays are constructed and how the public functions are called.

Nothing in this module computes an expected value.  It turns a protocol input (JSON, exact rationals) into
 (a) a live `xarray.DataArray` built along one of several legitimate construction paths, and
 (b) a call of the function under test with the arguments passed the way the input says: by keyword, or with the
     first k optional parameters *positionally in the documented order*.

The documented order is the constant `DOCUMENTED` below (written down from the pinned docstrings / signatures, never
read from the code under test); the model has its own copy (`SE.Axis.sigCropDim` ...) which binds the `posargs` of a
request, and the Tie-1 obligation `signature-order` compares the model's tables with `inspect.signature` of the
current source on every run.
"""
import copy
import math
import pickle

from .rat import rat, frac
from .axis_common import f, fl

SPECIAL = {"nan": math.nan, "inf": math.inf, "-inf": -math.inf}
LAYOUTS = ["1d", "2d-first", "2d-last", "3d-mid"]
OTHER_SHAPE = {"1d": (), "2d-first": (3,), "2d-last": (3,), "3d-mid": (2, 2)}
BUILDS = ["time_dim", "plain", "bare", "pandas", "dataset", "assign", "pickle", "deepcopy", "shallow", "isel_view", "aux"]
DIMS = ["time", "frequency", "x"]
STATS = {}


def _count(key):
    STATS[key] = STATS.get(key, 0) + 1


# ------------------------------------------------------------------ documented signatures (pinned)
_REQ = object()
# function -> (leading parameters that are always there, [(python name, protocol key, documented default)])
DOCUMENTED = {
    "crop_dim": (["arr", "dim"], [("start", "start", None), ("stop", "stop", None), ("right_closed", "rc", False),
                                  ("left_closed", "lc", True), ("eps", "eps", 10e-6)]),
    "extend_dim": (["arr", "dim"], [("start", "start", None), ("stop", "stop", None), ("fill_value", "fill", 0),
                                    ("eps", "eps", 10e-6), ("left_closed", "lc", True), ("right_closed", "rc", False)]),
    "crop_dim_width": (["array", "dim"], [("width", "w", _REQ), ("position", "pos", "start")]),
    "extend_dim_width": (["array", "dim"], [("width", "w", _REQ), ("fill_value", "fill", 0), ("position", "pos", "start")]),
    "adjust_dim_width": (["array", "dim"], [("width", "w", _REQ), ("fill_value", "fill", 0), ("position", "pos", "start")]),
    "get_dim_step": (["arr", "dim"], [("rtol", "rtol", 1e-5), ("atol", "atol", 1e-8), ("check_tolerance", "check_tolerance", True),
                                      ("estimate_step", "estimate_step", True)]),
    "estimate_dim_step": (["data"], [("rtol", "rtol", 1e-5), ("atol", "atol", 1e-8), ("check_tolerance", "check_tolerance", True)]),
}
MODEL_TABLE = {"crop_dim": "sigCropDim", "extend_dim": "sigExtendDim", "crop_dim_width": "sigCropDimWidth",
               "extend_dim_width": "sigExtendDimWidth", "adjust_dim_width": "sigAdjustDimWidth",
               "get_dim_step": "sigGetDimStep", "estimate_dim_step": "sigEstimateDimStep"}
WIDTH_FN = {"adjust": "adjust_dim_width", "crop": "crop_dim_width", "extend": "extend_dim_width"}


def n_optional(fname):
    return len(DOCUMENTED[fname][1])


# ------------------------------------------------------------------ cells
def cell_float(c):
    """cell of the protocol (int | rational string | "nan" | "inf" | "-inf") -> float"""
    if isinstance(c, str):
        return SPECIAL[c] if c in SPECIAL else float(frac(c))
    return float(c)


def cell_of(x):
    x = float(x)
    if x != x:
        return "nan"
    if x in (math.inf, -math.inf):
        return "inf" if x > 0 else "-inf"
    return int(x) if x.is_integer() else rat(x)


def ncols(layout):
    k = 1
    for d in OTHER_SHAPE[layout]:
        k *= d
    return k


def norm_data(data, layout):
    """every datum as the list of its cells over the other dimensions (a scalar is the same cell everywhere)"""
    k = ncols(layout)
    out = []
    for d in data:
        d = list(d) if isinstance(d, (list, tuple)) else [d] * k
        if len(d) != k:
            raise ValueError("datum does not fit the layout")
        out.append(d)
    return out


# ------------------------------------------------------------------ arrays
DATA_DTYPES = ["int16", "int32", "int64", "bool", "float32"]


def fill_fits(data_dtype, fill):
    """a float32 array cannot hold a number that is not a float32 number (the new samples would hold the fill value
    rounded to the data's precision - a representation effect the property does not speak about): such combinations
    are not generated.  Every other combination of data type and fill value is."""
    if data_dtype != "float32" or fill is None:
        return True
    import numpy as np
    v = cell_float(fill)
    return v != v or abs(v) == math.inf or float(np.float32(v)) == v


def _matrix(data, layout, int_data, data_dtype=None):
    """the cells as a (samples x other positions) matrix of the requested data type; the cast must not change a
    value (the model is told the cells): a cell the type cannot hold is a mistake of the generator"""
    import numpy as np
    k = ncols(layout)
    m = np.array([[cell_float(x) for x in row] for row in norm_data(data, layout)], dtype=float).reshape(len(data), k)
    dt = data_dtype or ("int64" if int_data else None)
    if dt is None:
        return m
    with np.errstate(invalid="ignore"):
        t = m.astype(dt)
    if not np.array_equal(t.astype(float), m, equal_nan=True):
        _count("data-dtype-fallback:" + str(dt))      # the type cannot hold these cells: keep them as float64
        return m
    return t


def _coord_variable(c, dim, step_attr, build):
    """the coordinate variable: through the library's constructors where the path says so (object constructors; what
    they produced is verified by `make_array`), otherwise a plain xarray.Variable"""
    import xarray as xr
    from soundevent import arrays
    if build == "time_dim" and dim == "time":
        return arrays.create_time_dim_from_array(c, step=step_attr)
    if build == "time_dim" and dim == "frequency":
        return arrays.create_frequency_dim_from_array(c, step=step_attr)
    return xr.Variable((dim,), c, attrs={} if step_attr is None else {"step": step_attr})


def _assemble(m, var, c, dim, layout, noncontig=False):
    import numpy as np
    import xarray as xr
    n = m.shape[0]
    if layout == "1d":
        return xr.DataArray(m[:, 0].copy(), dims=[dim], coords={dim: var})
    if layout == "2d-first":
        return xr.DataArray(m.copy(), dims=[dim, "other"], coords={dim: var, "other": np.array([10.0, 20.0, 30.0])})
    if layout == "2d-last":
        # non-contiguous: a transposed view of the row-major matrix (Fortran-ordered data)
        return xr.DataArray(m.T if noncontig else m.T.copy(), dims=["other", dim],
                            coords={dim: var, "other": np.array([10.0, 20.0, 30.0])})
    t = m.reshape(n, 2, 2).transpose(1, 0, 2)
    return xr.DataArray(t if noncontig else t.copy(), dims=["a", dim, "b"], coords={dim: var, "b": np.array([7.0, 9.0])})


def make_array(coords, data, step_attr, layout="1d", int_axis=False, int_data=False, dim="time", build="time_dim",
               f32_axis=False, noncontig=False, data_dtype=None):
    """a live DataArray with exactly these coordinates, data and `step` attribute, built along the path `build`"""
    import numpy as np
    import xarray as xr
    c = np.asarray(coords, dtype="int64" if int_axis else "float32" if f32_axis else float)
    m = _matrix(data, layout, int_data, data_dtype)
    n = len(coords)
    attrs = {} if step_attr is None else {"step": step_attr}
    if build == "isel_view" and n >= 1:
        # the array is a positional selection out of a longer one (two more samples at either end)
        d = float(step_attr) if step_attr else (float(c[1] - c[0]) if n >= 2 else 1.0)
        big_c = np.concatenate([[c[0] - 2 * d, c[0] - d], c.astype(float), [c[-1] + d, c[-1] + 2 * d]]).astype(c.dtype)
        junk = np.full((2, m.shape[1]), 9999, dtype=m.dtype)
        big = _assemble(np.concatenate([junk, m, junk]), xr.Variable((dim,), big_c, attrs=attrs), big_c, dim, layout)
        arr = big.isel({dim: slice(2, 2 + n)})
    else:
        var = _coord_variable(c, dim, step_attr, build)
        arr = _assemble(m, var, c, dim, layout, noncontig)
        if build == "bare":
            arr = _assemble(m, c, c, dim, layout, noncontig)
            if step_attr is not None:
                arr.coords[dim].attrs["step"] = step_attr
        elif build == "pandas":
            import pandas as pd
            arr = _assemble(m, pd.Index(c, name=dim), c, dim, layout, noncontig)
            if step_attr is not None:
                arr.coords[dim].attrs["step"] = step_attr
        elif build == "dataset":
            arr = xr.Dataset({"v": arr, "w": arr * 2})["v"]
        elif build == "assign":
            dummy = _assemble(m, xr.Variable((dim,), np.arange(n, dtype=float) * 1000.0 - 7.0, attrs={"step": 1000.0}), c, dim, layout)
            arr = dummy.assign_coords({dim: xr.Variable((dim,), c, attrs=attrs)})
        elif build == "pickle":
            arr = pickle.loads(pickle.dumps(arr))
        elif build == "deepcopy":
            arr = copy.deepcopy(arr)
        elif build == "shallow":
            arr = copy.copy(arr)
        elif build == "aux":
            arr = arr.assign_coords({"label": ((dim,), np.arange(n) + 5)})
            arr.name = "named"
            arr.attrs.update({"units": "dB", "step": 12345.0})       # an array-level `step` is not the axis step
    # whatever path was taken, the argument must be what the model is told (constructors are not under test here)
    got = np.asarray(arr.coords[dim].values)
    ok = got.shape == c.shape and got.astype(float).tobytes() == c.astype(float).tobytes() \
        and arr.coords[dim].attrs.get("step") == step_attr and arr.sizes[dim] == n
    if not ok:
        _count("constructor-fallback:" + build)
        arr = _assemble(m, xr.Variable((dim,), c, attrs=attrs), c, dim, layout)
    return arr


def array_of(inp):
    return make_array(fl(inp["coords"]), inp["data"], f(inp.get("step_attr")), inp.get("layout", "1d"),
                      inp.get("int_axis", False), inp.get("int_data", False), inp.get("dim", "time"),
                      inp.get("build", "time_dim"), inp.get("f32_axis", False), inp.get("noncontig", False),
                      inp.get("data_dtype"))


_DIMS_OF = {"1d": lambda d: [d], "2d-first": lambda d: [d, "other"], "2d-last": lambda d: [d, "other"],
            "3d-mid": lambda d: ["a", d, "b"]}
_ORDER = {"1d": lambda d: (d,), "2d-first": lambda d: (d, "other"), "2d-last": lambda d: (d, "other"),
          "3d-mid": lambda d: (d, "a", "b")}


def out_of(arr, layout="1d", dim="time"):
    """canonical output: the coordinates of the cropped / extended dimension and, per coordinate, the cells over
    all other dimensions"""
    import numpy as np
    if tuple(sorted(arr.dims)) != tuple(sorted(_DIMS_OF[layout](dim))):
        return {"raise": "crash:dimensions-changed"}
    for d, n in zip(("other", "a", "b"), (3, 2, 2)):
        if d in arr.dims and arr.sizes[d] != n:
            return {"raise": "crash:other-dimension-resized"}
    cs = [float(c) for c in np.asarray(arr.coords[dim].values)]
    k = ncols(layout)
    v = np.asarray(arr.transpose(*_ORDER[layout](dim)).values, dtype=float)
    if v.size != len(cs) * k:
        return {"raise": "crash:coords-data-length"}
    v = v.reshape(len(cs), k)
    data = [[cell_of(x) for x in row] for row in v]
    return {"val": {"coords": [rat(c) for c in cs], "data": [row[0] if k == 1 else row for row in data]}}


def snapshot(arr, dim="time"):
    """everything of an argument a call could change: coordinate values, data, dimension order, dtypes, the
    attributes of the array and of every coordinate, the name"""
    import numpy as np
    return [np.asarray(arr.coords[dim].values).tobytes().hex(), np.asarray(arr.values).tobytes().hex(), list(arr.dims),
            str(arr.dtype), str(arr.coords[dim].dtype), repr(sorted((str(k), repr(v)) for k, v in arr.attrs.items())),
            [[str(cn), repr(sorted((str(k), repr(v)) for k, v in arr.coords[cn].attrs.items())),
              np.asarray(arr.coords[cn].values).tobytes().hex()] for cn in sorted(map(str, arr.coords))],
            repr(arr.name)]


# ------------------------------------------------------------------ argument values
def _num(inp, key):
    """a number of the request as the Python object the caller passes: float, int where whole, numpy scalar"""
    import numpy as np
    v = f(inp.get(key))
    if v is None:
        return None
    ty = inp.get("argty")
    if (inp.get("int_axis") or ty == "int") and v == int(v):
        return int(v)
    if ty == "np":
        return np.float64(v)
    if ty == "np32" and float(np.float32(v)) == v:
        return np.float32(v)
    if ty == "npint" and v == int(v):
        return np.int64(int(v))
    return v


def _eps(inp, key):
    """eps as float / numpy.float64 (a float32 eps would make `end - eps` float32 arithmetic: outside the quantifier)"""
    import numpy as np
    v = f(inp.get(key))
    return np.float64(v) if v is not None and inp.get("argty") == "np" else v


def _flag(inp, key):
    import numpy as np
    v = inp.get(key)
    if v is None:
        return None
    return np.bool_(v) if inp.get("argty") == "np" else bool(v)


def _fill(inp, key="fill"):
    import numpy as np
    if inp.get(key) is None:
        return None
    v = cell_float(inp[key])
    ty = inp.get("argty")
    if ty in ("int", "npint") and v == v and abs(v) != math.inf and v == int(v):
        return int(v)
    if ty == "np":
        return np.float64(v)
    if ty == "np32" and (v != v or abs(v) == math.inf or float(np.float32(v)) == v):
        return np.float32(v)      # only where float32 holds the very number the model is told
    return v


def _width(inp, key="w"):
    import numpy as np
    return np.int64(inp[key]) if inp.get("argty") in ("np", "npint") else inp[key]


def _pos(inp, key="pos"):
    import numpy as np
    v = inp.get(key)
    if v is None:
        return None
    return np.str_(v) if inp.get("argty") == "np" else v


def _tol(inp, key):
    return f(inp.get(key))


def _plain(inp, key):
    return inp.get(key)


_CONV = {"start": _num, "stop": _num, "eps": _eps, "lc": _flag, "rc": _flag, "fill": _fill, "w": _width, "pos": _pos,
         "rtol": _tol, "atol": _tol, "check_tolerance": _plain, "estimate_step": _plain}
# parameters that are passed (as keyword) even when the request leaves them None: start=None / stop=None are requests
_ALWAYS = {"start", "stop"}


def _proto_default(key, dflt):
    """the documented default of a parameter as a protocol value (what the model is told was passed)"""
    if key in ("eps", "rtol", "atol"):
        return rat(dflt)
    return dflt


def call_plan(fname, inp):
    """how the request calls `fname`: (positional values, keyword dict, protocol view of the positional values).
    inp["call"]: None = every optional argument by keyword (a required width positionally, as the docstrings do);
    k = the first k optional parameters positionally in the documented order (documented defaults fill parameters
    the request leaves open); "kwall" = even the array and the dimension by keyword."""
    lead, opts = DOCUMENTED[fname]
    style = inp.get("call")
    k = style if isinstance(style, int) and not isinstance(style, bool) else 0
    k = max(0, min(k, len(opts)))
    pos, proto, kw = [], [], {}
    for i, (pyname, key, dflt) in enumerate(opts):
        given = inp.get(key) is not None
        if i < k:
            if given:
                pos.append(_CONV[key](inp, key))
                proto.append(inp[key])
            else:
                if dflt is _REQ:
                    raise ValueError("a required argument is missing in the request")
                pos.append(dflt)
                proto.append(_proto_default(key, dflt))
        elif dflt is _REQ:
            if style is None:
                pos.append(_CONV[key](inp, key))      # the docstrings' way: fn(array, dim, width, ...)
            else:
                kw[pyname] = _CONV[key](inp, key)
        elif given or key in _ALWAYS and key in inp:
            kw[pyname] = _CONV[key](inp, key)
    return pos, kw, (proto if k > 0 else None)


def invoke(fname, fn, arr, inp):
    """call the function under test the way the request says"""
    pos, kw, _ = call_plan(fname, inp)
    lead = DOCUMENTED[fname][0]
    dim = inp.get("dim", "time")
    if inp.get("call") == "kwall":
        first = {lead[0]: arr}
        if len(lead) > 1:
            first[lead[1]] = dim
        return fn(**first, **kw)
    if len(lead) > 1:
        return fn(arr, dim, *pos, **kw)
    return fn(arr, *pos, **kw)


HARNESS_KEYS = {"layout", "int_axis", "int_data", "data_dtype", "argty", "dim", "build", "f32_axis", "noncontig", "call"}


def to_model(fname, inp, drop=()):
    """the request as the model sees it: harness-only keys removed, every datum as the list of its cells, and the
    positionally passed arguments as `posargs` (bound to parameter names by the model's own signature table)"""
    out = {k: v for k, v in inp.items() if k not in HARNESS_KEYS and k not in drop}
    if "data" in out:
        out["data"] = norm_data(out["data"], inp.get("layout", "1d"))
    _pos, _kw, proto = call_plan(fname, inp)
    if proto is not None:
        for _pyname, key, _d in DOCUMENTED[fname][1][:len(proto)]:
            out.pop(key, None)
        out["posargs"] = proto
    return out
