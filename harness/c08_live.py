"""C08: live objects for histories and unusual construction paths (HISTORIES.md sections 1 and 2).

`evalgen.build` turns an abstract detection input into fresh objects built with the constructors, keyword
arguments, lists and Python floats.  This module builds the *same content* in the other legitimate ways a caller
has, and turns the live objects of an earlier call into the objects of a later one:

    inp["style"] = {"call": "kw" | "pos" | "pos2",      keyword / positional / first two positional
                    "seq":  "list" | "tuple",           containers (clips, vocabulary, sound events of a prediction)
                    "num":  "float" | "int" | "np",     coordinates and scores as ints where integral / numpy scalars
                    "via":  "ctor" | "validate" | "json" | "copy" | "deepcopy",   how a clip object came to be
                    "sub":  bool,                       subclass instances (geometries, clips, sound events)
                    "share": bool,                      one object per distinct geometry / pool tag
                    "xuuid": bool,                      the k-th prediction of a clip carries the uuid of its k-th annotation
                    "uuids": "random" | "stable"}       stable: uuid5 of (side, clip id, event id)
    inp["tagstyle"]: how the Tag / Term objects of the vocabulary, the annotations and the predictions are made
                     (harness/c08_tagvariants.py: subclass instances, model_validate, model_copy, shared / borrowed Term objects)

The content (what the Lean model is told) never depends on the style: numbers are converted from the same exact
rationals, uuids are never compared.

`retarget(args, inp, how)` is the `modify` of `harness/history.py`: the clip / sound-event / geometry / tag objects
of the previous call are revised to carry `inp` — in place (assignment, in-place list edits), by
`model_copy(update=...)` (shallow or deep) or by `copy.copy` + assignment.  Geometry objects are documented as
immutable: a geometry is only ever *derived* (`model_copy(update={"coordinates": ...})`), never assigned to.
"""
import copy
import uuid as _uuid

from . import evalgen as G
from . import tagpool as TP
from . import c08_tagvariants as TV
from .core import jkey
from .rat import frac

NS = _uuid.UUID("c08c08c0-8c08-4c08-8c08-c08c08c08c08")
HOWS = ("inplace", "copy_update", "deep_copy_update", "copy_assign")
_SUB = {}


def _uid(*parts):
    return _uuid.uuid5(NS, "/".join(str(p) for p in parts))


def _subclass(cls):
    """a trivial subclass (what a downstream package does to add a method)"""
    if cls not in _SUB:
        _SUB[cls] = type("My" + cls.__name__, (cls,), {"__module__": __name__})
    return _SUB[cls]


def _number(q, num):
    """the exact rational `q` as the caller's number type (same value in every style)"""
    q = frac(q)
    if num == "int" and q.denominator == 1:
        return int(q)
    if num == "np":
        import numpy as np
        if q.denominator == 1:
            return np.int64(int(q))
        return np.float64(float(q))
    return float(q)


def _nest(x, num, seq):
    if isinstance(x, (list, tuple)):
        out = [_nest(v, num, seq) for v in x]
        return tuple(out) if seq == "tuple" else out
    return _number(x, num)


class Builder:
    def __init__(self, inp, style=None, geoms=None, tags=None):
        from soundevent import data
        self.data = data
        self.inp = inp
        self.style = dict(style if style is not None else (inp.get("style") or {}))
        self.num = self.style.get("num", "float")
        self.seq = self.style.get("seq", "list")
        self.sub = bool(self.style.get("sub"))
        self.share = bool(self.style.get("share"))
        self.stable = self.style.get("uuids") == "stable"
        self.rec = G._base()["rec"]
        self.descs = TP.descriptors(inp) if inp.get("tagpool") is not None else None
        self._geoms = dict(geoms or {})       # gkey -> live geometry object (objects of an earlier call: reused)
        self._tags = dict(tags or {})         # pool position -> live Tag
        self._events = {}
        # construction variants of the Tag / Term objects, per role (harness/c08_tagvariants.py)
        self.tagstyle = TV.normalise(inp.get("tagstyle"))
        if self.style.get("via") == "json" or self.stable:
            # tags that come out of JSON text are plain Tag / Term objects whatever the style says, and in a history
            # live Tag objects of earlier calls are kept: the Term class must be the same for all tags of a call
            # (c08_tagvariants: `termcls`), so it stays the plain one in both situations
            self.tagstyle.pop("termcls", None)
        self.maker = TV.Maker(TP.descriptors(inp), self.tagstyle, inp.get("vocab") or ()) if self.tagstyle else None

    # ---- leaves
    def cls(self, c):
        return _subclass(c) if self.sub else c

    def container(self, xs):
        return tuple(xs) if self.seq == "tuple" else list(xs)

    def geom(self, g):
        if g is None:
            return None
        k = G.gkey(g)
        if k in self._geoms:
            return self._geoms[k]
        if isinstance(g, dict):
            obj = self.cls(getattr(self.data, g["type"]))(coordinates=_nest(g["coordinates"], self.num, self.seq))
        else:
            obj = self.cls(self.data.BoundingBox)(coordinates=_nest(list(g), self.num, self.seq))
        if self.share:
            self._geoms[k] = obj
        return obj

    def tag(self, t, role="ann"):
        if t in self._tags:
            return self._tags[t]
        if self.maker is not None:
            obj = self.maker.make(role, t)
        else:
            obj = TP.fresh(self.descs[t]) if self.descs is not None else G.tag(t)
        if self.share:
            self._tags[t] = obj
        return obj

    def ptags(self, ts):
        return [self.data.PredictedTag(tag=self.tag(t, "pred"), score=_number(s, self.num)) for t, s in ts]

    def atags(self, ts):
        return [self.tag(t, "ann") for t in ts]

    def sound_event(self, side, cid, e):
        kw = {}
        if self.stable:
            kw["uuid"] = _uid("se", side, cid, e["id"])
        return self.data.SoundEvent(recording=self.rec, geometry=self.geom(e["geom"]), **kw)

    # ---- sound events
    def sep(self, cid, e, uuid=None, sound_event=None):
        kw = {}
        if uuid is not None:
            kw["uuid"] = uuid
        elif self.stable:
            kw["uuid"] = _uid("p", cid, e["id"])
        return self.cls(self.data.SoundEventPrediction)(
            sound_event=sound_event if sound_event is not None else self.sound_event("p", cid, e),
            tags=self.container(self.ptags(e["tags"])), score=_number(e.get("conf", "1"), self.num), **kw)

    def sea(self, cid, e):
        kw = {"uuid": _uid("a", cid, e["id"])} if self.stable else {}
        return self.cls(self.data.SoundEventAnnotation)(
            sound_event=self.sound_event("a", cid, e), tags=self.container(self.atags(e["tags"])), **kw)

    # ---- clips
    def via(self, obj):
        v = self.style.get("via", "ctor")
        if v == "copy":
            return obj.model_copy()
        if v == "deepcopy":
            return obj.model_copy(deep=True)
        return obj

    # plain data for `model_validate` (nested dicts; tags, recording and clip as instances) and for
    # `model_validate_json` (text only: what a caller loading its own JSON file hands over)
    def _json(self):
        return self.style.get("via") == "json"

    def geom_spec(self, g):
        if g is None:
            return None
        if isinstance(g, dict):
            return {"type": g["type"], "coordinates": _plain(_nest(g["coordinates"], self.num, "list"))}
        return {"type": "BoundingBox", "coordinates": _plain(_nest(list(g), self.num, "list"))}

    def tag_spec(self, t, role="ann"):
        if not self._json():
            return self.tag(t, role)
        if self.descs is None:
            return {"key": TP.LEGACY[t]["key"], "value": TP.LEGACY[t]["value"]}
        d = self.descs[t]
        if "key" in d:
            return {"key": d["key"], "value": d["value"]}
        term = {}
        for f, v in d["term"].items():
            if f == "extra":
                continue
            fi = self.data.Term.model_fields.get(f)
            term[(fi.alias if fi is not None and fi.alias else f)] = v
        for k, v in d["term"].get("extra", []):
            term[k] = v
        return {"term": term, "value": d["value"]}

    def _inst(self, obj):
        import json
        return json.loads(obj.model_dump_json()) if self._json() else obj

    def se_spec(self, side, cid, e):
        d = {"recording": self._inst(self.rec), "geometry": self.geom_spec(e["geom"])}
        if self.stable:
            d["uuid"] = str(_uid("se", side, cid, e["id"]))
        return d

    def clip_spec(self, c, pred):
        evs = []
        for e in c.get("events", []):
            d = {"sound_event": self.se_spec("p" if pred else "a", c["clip"], e)}
            if pred:
                d["tags"] = [{"tag": self.tag_spec(t, "pred"), "score": _plain(_number(s, self.num))} for t, s in e["tags"]]
                d["score"] = _plain(_number(e.get("conf", "1"), self.num))
            else:
                d["tags"] = [self.tag_spec(t) for t in e["tags"]]
            if self.stable:
                d["uuid"] = str(_uid("p" if pred else "a", c["clip"], e["id"]))
            evs.append(d)
        out = {"clip": self._inst(G.clip(c["clip"])), "sound_events": evs}
        if pred:
            out["tags"] = [{"tag": self.tag_spec(t, "pred"), "score": _plain(_number(s, self.num))} for t, s in c.get("tags", [])]
        else:
            out["tags"] = [self.tag_spec(t) for t in c.get("tags", [])]
        if self.stable:
            out["uuid"] = str(_uid("cp" if pred else "ca", c["clip"]))
        return out

    def from_spec(self, c, pred):
        import json
        cls = self.cls(self.data.ClipPrediction if pred else self.data.ClipAnnotation)
        spec = self.clip_spec(c, pred)
        return cls.model_validate_json(json.dumps(spec)) if self._json() else cls.model_validate(spec)

    def clip_annotation(self, c):
        if self.style.get("via") in ("validate", "json"):
            return self.from_spec(c, False)
        kw = {"uuid": _uid("ca", c["clip"])} if self.stable else {}
        return self.via(self.cls(self.data.ClipAnnotation)(
            clip=G.clip(c["clip"]), tags=self.container(self.atags(c.get("tags", []))),
            sound_events=self.container([self.sea(c["clip"], e) for e in c.get("events", [])]), **kw))

    def clip_prediction(self, c, partner=None):
        """`partner`: the live annotation of the same clip (style xuuid: the k-th prediction carries the uuid of the
        k-th annotation and, when their geometries are equal, they share the SoundEvent object)"""
        if self.style.get("via") in ("validate", "json"):
            return self.from_spec(c, True)
        kw = {"uuid": _uid("cp", c["clip"])} if self.stable else {}
        evs = []
        for k, e in enumerate(c.get("events", [])):
            u, se = None, None
            if self.style.get("xuuid") and partner is not None and k < len(partner[1].sound_events):
                a_obj, a_e = partner[1].sound_events[k], partner[0].get("events", [])[k]
                u = a_obj.uuid
                if G.gkey(a_e["geom"]) == G.gkey(e["geom"]):
                    se = a_obj.sound_event
            evs.append(self.sep(c["clip"], e, uuid=u, sound_event=se))
        return self.via(self.cls(self.data.ClipPrediction)(
            clip=G.clip(c["clip"]), tags=self.container(self.ptags(c.get("tags", []))),
            sound_events=self.container(evs), **kw))


def _plain(x):
    """numpy scalars are not JSON / plain data: the caller's file holds Python numbers"""
    if isinstance(x, (list, tuple)):
        return [_plain(v) for v in x]
    if isinstance(x, (int, float)) and type(x) in (int, float):
        return x
    return x.item() if hasattr(x, "item") else x


def positions(inp, preds, anns):
    """uuid -> position of every sound event in the clips that are handed in, frozen now (a later in-place edit of
    the same objects must not change how an earlier result is read)"""
    out = {"p": {}, "a": {}}
    for side, specs, objs in (("p", inp["predictions"], preds), ("a", inp["annotations"], anns)):
        for c, o in zip(specs, objs):
            m = {}
            for i, e in enumerate(o.sound_events):
                m.setdefault(e.uuid, i)
            out[side].setdefault(c["clip"], m)
    return out


def build(inp, style=None, geoms=None, tags=None):
    """abstract detection input -> live arguments of one call"""
    b = Builder(inp, style, geoms, tags)
    anns = [b.clip_annotation(c) for c in inp["annotations"]]
    by = {}
    for c, o in zip(inp["annotations"], anns):
        by[c["clip"]] = (c, o)
    preds = [b.clip_prediction(c, by.get(c["clip"])) for c in inp["predictions"]]
    vocab = [b.tag(t, "vocab") for t in inp["vocab"]]
    return {"kind": "detection", "inp": inp, "style": b.style, "preds": b.container(preds), "anns": b.container(anns),
            "tags": b.container(vocab), "pos": positions(inp, preds, anns), "tagobjs": dict(b._tags)}


def call_detection(args):
    import warnings
    fn = G.task_fn("sound_event_detection")
    how = args["style"].get("call", "kw")
    with warnings.catch_warnings():
        warnings.simplefilter("ignore")
        if how == "pos":
            return fn(args["preds"], args["anns"], args["tags"])
        if how == "pos2":
            return fn(args["preds"], args["anns"], tags=args["tags"])
        return fn(clip_predictions=args["preds"], clip_annotations=args["anns"], tags=args["tags"])


def snapshot(args):
    """everything the call was handed, as JSON text (content) plus the shape of the containers"""
    if args["kind"] == "match":
        return [[g.model_dump_json() for g in args["src"]], [g.model_dump_json() for g in args["tgt"]],
                type(args["src"]).__name__, type(args["tgt"]).__name__]
    return [[p.model_dump_json() for p in args["preds"]], [a.model_dump_json() for a in args["anns"]],
            [t.model_dump_json() for t in args["tags"]],
            [type(args[k]).__name__ for k in ("preds", "anns", "tags")],
            [type(p.sound_events).__name__ for p in args["preds"]], [type(a.sound_events).__name__ for a in args["anns"]]]


# ------------------------------------------------------------------ reuse after change
def derive(obj, how, **upd):
    """the object carrying the updates, derived from `obj` the way `how` says"""
    if how == "inplace":
        for k, v in upd.items():
            cur = getattr(obj, k)
            if isinstance(cur, list) and isinstance(v, (list, tuple)):
                cur[:] = list(v)                      # the same list object, edited in place
            else:
                setattr(obj, k, v)
        return obj
    if how == "copy_update":
        return obj.model_copy(update=upd)
    if how == "deep_copy_update":
        return obj.model_copy(update=upd, deep=True)
    o = copy.copy(obj)                                # copy_assign
    for k, v in upd.items():
        setattr(o, k, v)
    return o


def _revise_geometry(old, g_old, g_new, b):
    """a geometry object carrying `g_new`, derived from the live object that carried `g_old`"""
    if g_new is None:
        return None
    if old is None or g_old is None:
        return b.geom(g_new)
    if G.gkey(g_old) == G.gkey(g_new):
        return old
    t_old = g_old["type"] if isinstance(g_old, dict) else "BoundingBox"
    t_new = g_new["type"] if isinstance(g_new, dict) else "BoundingBox"
    if t_old != t_new:
        return b.geom(g_new)
    coords = G._fl_nest(g_new["coordinates"]) if isinstance(g_new, dict) else [float(frac(x)) for x in g_new]
    # geometries are documented as immutable: always a derived object, never an assignment
    return old.model_copy(update={"coordinates": coords})


def _revise_event(obj, e_old, e_new, how, b, pred):
    upd = {}
    if jkey(e_old["tags"]) != jkey(e_new["tags"]):
        upd["tags"] = b.ptags(e_new["tags"]) if pred else b.atags(e_new["tags"])
    if pred and e_old.get("conf", "1") != e_new.get("conf", "1"):
        upd["score"] = float(frac(e_new.get("conf", "1")))
    if G.gkey(e_old["geom"]) != G.gkey(e_new["geom"]):
        se = obj.sound_event
        upd["sound_event"] = derive(se, how, geometry=_revise_geometry(se.geometry, e_old["geom"], e_new["geom"], b))
    if not upd and how == "inplace":
        return obj
    return derive(obj, how, **upd)


def _revise_clip(obj, c_old, c_new, how, b, pred):
    old_by = {}
    for e, o in zip(c_old.get("events", []), obj.sound_events):
        old_by.setdefault(e["id"], (e, o))
    evs = []
    for e in c_new.get("events", []):
        if e["id"] in old_by:
            evs.append(_revise_event(old_by[e["id"]][1], old_by[e["id"]][0], e, how, b, pred))
        else:
            evs.append(b.sep(c_new["clip"], e) if pred else b.sea(c_new["clip"], e))
    upd = {"sound_events": evs if isinstance(obj.sound_events, list) else tuple(evs)}
    if jkey(c_old.get("tags", [])) != jkey(c_new.get("tags", [])):
        upd["tags"] = b.ptags(c_new.get("tags", [])) if pred else b.atags(c_new.get("tags", []))
    return derive(obj, how, **upd)


def _live_geoms(args):
    """content -> live geometry object of an earlier call"""
    out = {}
    if args["kind"] == "match":
        for gs, objs in ((args["inp"]["src"], args["src"]), (args["inp"]["tgt"], args["tgt"])):
            for g, o in zip(gs, objs):
                out.setdefault(G.gkey(g), o)
        return out
    for specs, objs in ((args["inp"]["predictions"], args["preds"]), (args["inp"]["annotations"], args["anns"])):
        for c, o in zip(specs, objs):
            for e, x in zip(c.get("events", []), o.sound_events):
                if e["geom"] is not None and x.sound_event.geometry is not None:
                    out.setdefault(G.gkey(e["geom"]), x.sound_event.geometry)
    return out


def retarget(args, inp, how):
    """the live arguments of the previous call revised to carry `inp` (history.py: `modify`)"""
    if how not in HOWS:
        return None
    if inp.get("kind") == "match":
        return build_match(inp, geoms=_live_geoms(args))
    if args["kind"] != "detection":
        # after a direct call of the matcher: the same geometry objects now sit in sound events
        return build(inp, style={**(inp.get("style") or {}), "uuids": "stable"}, geoms=_live_geoms(args))
    old = args["inp"]
    same_pool = jkey(old.get("tagpool")) == jkey(inp.get("tagpool"))
    b = Builder(inp, {**args["style"], "share": False}, tags=args.get("tagobjs") if same_pool else None)
    out = {"kind": "detection", "inp": inp, "style": args["style"]}
    for side, key, pred in (("predictions", "preds", True), ("annotations", "anns", False)):
        old_by = {}
        for c, o in zip(old[side], args[key]):
            old_by.setdefault(c["clip"], (c, o))
        objs = []
        for c in inp[side]:
            if c["clip"] in old_by:
                objs.append(_revise_clip(old_by[c["clip"]][1], old_by[c["clip"]][0], c, how, b, pred))
            elif pred:
                objs.append(b.clip_prediction(c))
            else:
                objs.append(b.clip_annotation(c))
        cont = args[key]
        if how == "inplace" and isinstance(cont, list):
            cont[:] = objs
            out[key] = cont
        else:
            out[key] = tuple(objs) if isinstance(cont, tuple) else objs
    # the vocabulary: the same Tag objects where a pool position stays (same pool), the same list object in place
    old_tags = {}
    if same_pool:
        for t, o in zip(old["vocab"], args["tags"]):
            old_tags.setdefault(t, o)
    new_tags = [old_tags[t] if t in old_tags else b.tag(t, "vocab") for t in inp["vocab"]]
    cont = args["tags"]
    if how == "inplace" and isinstance(cont, list):
        cont[:] = new_tags
        out["tags"] = cont
    else:
        out["tags"] = tuple(new_tags) if isinstance(cont, tuple) else new_tags
    out["tagobjs"] = {**(args.get("tagobjs") or {}), **b._tags} if same_pool else dict(b._tags)
    out["pos"] = positions(inp, out["preds"], out["anns"])
    return out


def poison(res):
    """the caller edits what it got back (an Evaluation is the caller's): nothing may be shared with later calls.
    Only objects the call created are touched — never the clips / sound events that were handed in."""
    try:
        ces = res.clip_evaluations
        for ce in list(ces)[:2]:
            ms = ce.matches
            for m in list(ms)[:2]:
                m.affinity = 0.123
                m.score = 0.987
                if isinstance(m.metrics, list):
                    m.metrics.clear()
            if isinstance(ms, list) and ms:
                ms.append(ms[0])
                ms.reverse()
            ce.score = 0.4321
            if isinstance(ce.metrics, list):
                ce.metrics.clear()
        if isinstance(ces, list) and ces:
            ces.append(ces[0])
        res.score = 0.5678
        if isinstance(res.metrics, list):
            res.metrics.clear()
    except Exception:  # noqa: BLE001 - a result that cannot be edited is simply not poisoned
        return False
    return True


# ------------------------------------------------------------------ direct calls of the matcher
def build_match(inp, geoms=None):
    b = Builder({"vocab": []}, inp.get("style") or {}, geoms=geoms)
    return {"kind": "match", "inp": inp, "style": b.style,
            "src": b.container([b.geom(g) for g in inp["src"]]), "tgt": b.container([b.geom(g) for g in inp["tgt"]]),
            "tb": _number(inp["tb"], b.num) if inp.get("tb") is not None else None,
            "fb": _number(inp["fb"], b.num) if inp.get("fb") is not None else None}


def _compute_affinity():
    import importlib
    return getattr(importlib.import_module("soundevent.evaluation.affinity"), "compute_affinity", None)


def call_match(args):
    """`match_geometries` on the two lists; with style entry=compute_affinity (one geometry on each side) the
    sibling entry point `compute_affinity` is called instead and its value is read as the 1 x 1 answer of the
    matcher (paired iff the affinity is positive)"""
    how = args["style"].get("call", "kw")
    tb, fb = args["tb"], args["fb"]
    ca = _compute_affinity() if args["style"].get("entry") == "compute_affinity" else None
    if ca is not None and len(args["src"]) == 1 and len(args["tgt"]) == 1:
        g1, g2 = args["src"][0], args["tgt"][0]
        kw = {}
        if tb is not None:
            kw["time_buffer"] = tb
        if fb is not None:
            kw["freq_buffer"] = fb
        if how == "pos" and tb is not None and fb is not None:
            a = ca(g1, g2, tb, fb)
        elif how in ("pos", "pos2"):
            a = ca(g1, g2, **kw)
        else:
            a = ca(geometry1=g1, geometry2=g2, **kw)
        return [(0, 0, float(a))] if a > 0 else [(0, None, 0.0), (None, 0, 0.0)]
    fn = G._matcher()
    if how == "pos" and tb is not None and fb is not None:
        return list(fn(args["src"], args["tgt"], tb, fb))
    kw = {}
    if tb is not None:
        kw["time_buffer"] = tb
    if fb is not None:
        kw["freq_buffer"] = fb
    if how in ("pos", "pos2"):
        return list(fn(args["src"], args["tgt"], **kw))
    return list(fn(source=args["src"], target=args["tgt"], **kw))


def canon_match(res):
    out = []
    for s, t, a in res:
        out.append([None if s is None else int(s), None if t is None else int(t), G._num(a)])
    return {"val": out}
