"""C01 — comparison of two real `soundevent.data` object graphs over the *declared fields* of their classes.

`generic(obj)` walks an object through `type(obj).model_fields` (read from the imported /repo classes on every call, so
a field that is added to a data class is compared from the moment it exists, without anybody listing it here).
This is the property's own notion of equality — "equals the original in every declared field of every nested
object" — and it is independent of the hand-written field lists of `harness/aoef.py` (`dump`), which it double-checks.

Canonical atoms (what the property pins and nothing else):
  * a `Term` is its label (the one reduction the property permits),
  * a number is `repr(float(x))` (1 and 1.0 are the same number, and so are -0.0 and 0.0),
  * datetimes / dates / times are `isoformat()`, uuids and paths are `str`, an enum member is its value,
  * undeclared (`extra="allow"`) attributes are not looked at.
"""
import datetime
import enum
import uuid as _uuid
from pathlib import PurePath

MISSING = "<attribute missing>"


def _num(x):
    if isinstance(x, int) and abs(x) >= 2 ** 53:
        return "int:%d" % x
    x = float(x)
    return "0.0" if x == 0 else repr(x)          # -0.0 == 0.0: the sign of a zero is not pinned


def generic(x, memo=None):
    """`memo` (id -> result) makes a shared object be walked once; the result is then a DAG of shared dicts"""
    from pydantic import BaseModel
    if memo is None:
        memo = {}
    if isinstance(x, BaseModel):
        if id(x) in memo:
            return memo[id(x)][1]
        cls = type(x)
        if cls.__name__ == "Term":
            out = {"~term": getattr(x, "label", MISSING)}
        else:
            out = {"~class": cls.__name__}
            for f in cls.model_fields:
                out[f] = generic(getattr(x, f, MISSING), memo)
        memo[id(x)] = (x, out)          # keep `x` alive so that its id is not reused during the walk
        return out
    if isinstance(x, enum.Enum):
        return generic(x.value, memo)
    if x is None or isinstance(x, bool):
        return x
    if isinstance(x, str):
        return str(x)
    if isinstance(x, (int, float)):
        return _num(x)
    if isinstance(x, (list, tuple)):
        return [generic(v, memo) for v in x]
    if isinstance(x, dict):
        return {str(k): generic(v, memo) for k, v in x.items()}
    if isinstance(x, (datetime.datetime, datetime.date, datetime.time)):
        return x.isoformat()
    if isinstance(x, (_uuid.UUID, PurePath)):
        return str(x)
    if isinstance(x, (set, frozenset)):
        return sorted((generic(v, memo) for v in x), key=repr)
    try:                                   # numpy scalars and the like
        return _num(x)
    except Exception:  # noqa: BLE001
        return repr(x)


def gdiff(a, b, path="obj", same=None):
    """first difference between two `generic` values: None | message `path: original … , after the round trip …`
    (`same` remembers pairs of shared sub-values already found equal)"""
    if same is None:
        same = set()
    if isinstance(a, (dict, list)):
        if (id(a), id(b)) in same:
            return None
        r = _gdiff(a, b, path, same)
        if r is None:
            same.add((id(a), id(b)))
        return r
    return _gdiff(a, b, path, same)


def _gdiff(a, b, path, same):
    if isinstance(a, dict) and isinstance(b, dict):
        if a.get("~class") != b.get("~class"):
            return f"{path}: an object of class {b.get('~class')} where the original has {a.get('~class')}"
        for k in a:
            if k not in b:
                return f"{path}.{k}: missing after the round trip"
            r = gdiff(a[k], b[k], f"{path}.{k}", same)
            if r:
                return r
        for k in b:
            if k not in a:
                return f"{path}.{k}: not in the original"
        return None
    if isinstance(a, list) and isinstance(b, list):
        if len(a) != len(b):
            return f"{path}: {len(a)} element(s) in the original, {len(b)} after the round trip"
        for i, (x, y) in enumerate(zip(a, b)):
            r = gdiff(x, y, f"{path}[{i}]", same)
            if r:
                return r
        return None
    if type(a) is type(b) and a == b:
        return None
    return f"{path}: original {str(a)[:100]!r}, after the round trip {str(b)[:100]!r}"


def walk_models(x, seen=None):
    """every pydantic object reachable from `x` through declared fields, each once (by identity)"""
    from pydantic import BaseModel
    seen = {} if seen is None else seen
    stack = [x]
    while stack:
        o = stack.pop()
        if isinstance(o, BaseModel):
            if id(o) in seen:
                continue
            seen[id(o)] = o
            for f in type(o).model_fields:
                stack.append(getattr(o, f, None))
        elif isinstance(o, (list, tuple)):
            stack.extend(o)
        elif isinstance(o, dict):
            stack.extend(o.values())
    return list(seen.values())
