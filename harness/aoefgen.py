"""Seeded generator of collections (model-layout JSON, see harness/aoef.py) for C01 / C02 / C18.

Pool based: users, tags, recordings, clips, sound events, sequences (with parent chains), annotations,
predictions, matches, tasks are drawn from small pools so that objects are *shared* between several parents;
every optional field is independently present / absent and, when present, drawn from pools that contain the
falsy-but-meaningful values (score 0, affinity 0, latitude 0.0, empty description, is_issue False,
time_expansion 1.0 and != 1.0).  Objects with one uuid are one dict (coherence); `twin` makes an equal-content
object with a fresh uuid.  The collection's own member list has distinct members.
"""
import copy
import datetime
import uuid as _uuid

from . import gen_geom
from .aoef import num, geom_token
from .rat import frac

TYPES = ["recording_set", "dataset", "annotation_set", "annotation_project", "evaluation_set", "prediction_set",
         "model_run", "evaluation"]
# decomposed (NFD) spellings on purpose: a string must come back as the same code points, not a normalised form
TEXTS = ["", "x", "Some text", "ñandú çà", "line\nbreak", "  spaced  ", "0", "null", "None", "quote\"s",
         "estacio\u0301n n\u0303u", "\u1112\u1161\u11ab"]
NAMES = ["a", "rec 1", "ünï", "b.c", "x-y", "Z", "A\u030a"]
KEYS = ["species", "sex", "k", "soundevent:x", "Duration", "snr", "", "a b"]
VALUES = ["Myotis", "f", "", "0", "x y", "ñ"]
STATES = ["assigned", "completed", "verified", "rejected"]
FLOATS = [0.0, 1.0, 0.5, 0.25, 1e-9, 123456.789, -3.5, 1 / 3, 2.0 ** -30, 5e6]
UNIT = [0.0, 1.0, 0.5, 0.125, 0.999, 1e-12, 1 / 3]


class Gen:
    def __init__(self, rng, rich=False, base="/data/audio", size=1.0):
        self.rng = rng
        self.rich = rich           # every optional field present, every list non-empty
        self.base = base           # every recording lies under this directory (or is relative when base is None)
        self.size = size
        r = rng
        self.users = [self.user() for _ in range(self.n(1, 4))]
        self.tags = []
        while len(self.tags) < self.n(2, 6):
            t = {"key": r.choice(KEYS), "value": r.choice(VALUES)}
            if t not in self.tags:
                self.tags.append(t)
        self.recordings = [self.recording(i) for i in range(self.n(1, 3))]
        self.clips = [self.clip() for _ in range(self.n(1, 4))]
        self.ses = [self.sound_event(i) for i in range(self.n(1, 7))]
        self.seqs = []
        for _ in range(self.n(1, 5)):
            self.seqs.append(self.sequence())
        self.seas = [self.sea() for _ in range(self.n(1, 6))]
        self.sqas = [self.sqa() for _ in range(self.n(1, 3))]
        self.seps = [self.sep() for _ in range(self.n(1, 6))]
        self.sqps = [self.sqp() for _ in range(self.n(1, 3))]

    # ------------------------------------------------------------------ atoms
    def n(self, lo, hi):
        hi = max(lo, int(round(hi * self.size)))
        return self.rng.randint(lo, hi)

    def uid(self):
        return str(_uuid.UUID(int=self.rng.getrandbits(128), version=4))

    def opt(self, f, p=0.5):
        if self.rich or self.rng.random() < p:
            return f()
        return None

    def some(self, pool, lo=0, hi=3, distinct=False):
        """a list drawn from a pool (shared objects are *copies of the same dict*, i.e. equal values)"""
        if self.rich:
            lo = max(lo, 1)
        k = self.rng.randint(lo, max(lo, hi))
        if distinct:
            k = min(k, len(pool))
            return [copy.deepcopy(x) for x in self.rng.sample(pool, k)]
        return [copy.deepcopy(self.rng.choice(pool)) for _ in range(k)] if pool else []

    def text(self):
        return self.rng.choice(TEXTS)

    def stamp(self):
        r = self.rng
        d = datetime.datetime(r.randint(1990, 2030), r.randint(1, 12), r.randint(1, 28), r.randint(0, 23),
                              r.randint(0, 59), r.randint(0, 59), r.choice([0, 0, 1, 123456, 999999, 500000]))
        z = r.random()
        if z < 0.15:
            d = d.replace(tzinfo=datetime.timezone.utc)
        elif z < 0.25:
            d = d.replace(tzinfo=datetime.timezone(datetime.timedelta(hours=r.choice([-5, 2, 9]), minutes=r.choice([0, 30]))))
        return d.isoformat()

    def fl(self, pool=FLOATS):
        r = self.rng
        return num(r.choice(pool) if r.random() < 0.6 else r.uniform(0, 1) * r.choice([1, 1, 10, 1000]))

    def unit(self):
        r = self.rng
        return num(r.choice(UNIT) if r.random() < 0.6 else r.random())

    def features(self, hi=3):
        keys = self.rng.sample(KEYS, self.rng.randint(1 if self.rich else 0, hi))
        return [{"key": k, "value": self.fl()} for k in keys]

    def tag(self):
        return copy.deepcopy(self.rng.choice(self.tags))

    def taglist(self, hi=3):
        return [self.tag() for _ in range(self.rng.randint(1 if self.rich else 0, hi))]

    def ptags(self, hi=3):
        return [{"tag": self.tag(), "score": self.unit()} for _ in range(self.rng.randint(1 if self.rich else 0, hi))]

    def user_ref(self):
        return self.opt(lambda: copy.deepcopy(self.rng.choice(self.users)), 0.6)

    def notes(self, hi=2):
        return [{"uuid": self.uid(), "message": self.text(), "created_by": self.user_ref(),
                 "is_issue": self.rng.random() < 0.5, "created_on": self.stamp()}
                for _ in range(self.rng.randint(1 if self.rich else 0, hi))]

    # ------------------------------------------------------------------ objects
    def user(self):
        r = self.rng
        return {"uuid": self.uid(), "username": self.opt(lambda: r.choice(NAMES)),
                "email": self.opt(lambda: r.choice(["a@b.org", "x.y@example.com", "u+tag@uni.edu"])),
                "name": self.opt(self.text), "institution": self.opt(self.text)}

    def path(self, i):
        r = self.rng
        depth = r.randint(0, 3)
        parts = [r.choice(["sub", "a b", "ünï", "2024", "x.y", ".hidden", "...", "estacio\u0301n"]) for _ in range(depth)]
        parts.append(r.choice(["rec.wav", "ñandú 1.WAV", "a.b.c.flac", "rec", " ", "grabacio\u0301n n\u0303u.wav",
                               "\u1112\u1161\u11ab.wav"]) if r.random() < 0.8 else f"r{i}.wav")
        rel = "/".join(parts)
        if self.base is None:
            return rel
        return self.base.rstrip("/") + "/" + rel if self.base != "/" else "/" + rel

    def recording(self, i=0):
        r = self.rng
        return {"uuid": self.uid(), "path": self.path(i), "duration": self.fl([1.0, 10.0, 0.5, 3600.0, 0.001]),
                "channels": num(r.choice([1, 2, 4])), "samplerate": num(r.choice([8000, 44100, 48000, 256000, 1])),
                "time_expansion": num(r.choice([1.0, 1.0, 10.0, 2.0, 0.5, 1.0000000000000002])),
                "hash": self.opt(lambda: r.choice(["abc123", "", "0"])),
                "date": self.opt(lambda: datetime.date(r.randint(1990, 2030), r.randint(1, 12), r.randint(1, 28)).isoformat()),
                "time": self.opt(lambda: datetime.time(r.randint(0, 23), r.randint(0, 59), r.randint(0, 59),
                                                       r.choice([0, 0, 250000])).isoformat()),
                "latitude": self.opt(lambda: num(r.choice([0.0, -33.45, 89.999, 12.5]))),
                "longitude": self.opt(lambda: num(r.choice([0.0, -70.66, 179.9, -0.0001]))),
                "license": self.opt(lambda: r.choice(["CC-BY-4.0", "CC0", ""])),
                "owners": self.some(self.users, 0, 2, distinct=True), "rights": self.opt(self.text),
                "tags": self.taglist(), "features": self.features(), "notes": self.notes()}

    def rec_ref(self):
        return copy.deepcopy(self.rng.choice(self.recordings))

    def clip(self):
        r = self.rng
        s = r.choice([0.0, 0.5, 1.0, 2.25])
        e = s + r.choice([0.0, 0.5, 1.0, 10.0])
        return {"uuid": self.uid(), "recording": self.rec_ref(), "start_time": num(s), "end_time": num(e),
                "features": self.features(2)}

    def geometry(self, i):
        r = self.rng
        if not self.rich and r.random() < 0.15:
            return None
        ty = gen_geom.TYPES[i % len(gen_geom.TYPES)] if r.random() < 0.7 else r.choice(gen_geom.TYPES)
        gj = gen_geom.gen_geometry(r, ty, tmax=8.0, fmax=8000.0, k=3)

        def fl(c):
            return [fl(x) for x in c] if isinstance(c, list) else float(frac(c))
        return geom_token({"type": gj["type"], "coordinates": fl(gj["coordinates"])})

    def sound_event(self, i=0):
        return {"uuid": self.uid(), "geometry": self.geometry(i), "recording": self.rec_ref(),
                "features": self.features(2)}

    def sequence(self):
        r = self.rng
        parent = None
        if self.seqs and (self.rich or r.random() < 0.6):
            parent = copy.deepcopy(r.choice(self.seqs))
        return {"uuid": self.uid(), "sound_events": self.some(self.ses, 0, 3), "features": self.features(2),
                "parent": parent}

    def sea(self):
        return {"uuid": self.uid(), "sound_event": copy.deepcopy(self.rng.choice(self.ses)), "notes": self.notes(),
                "tags": self.taglist(), "created_by": self.user_ref(), "created_on": self.stamp()}

    def sqa(self):
        return {"uuid": self.uid(), "sequence": copy.deepcopy(self.rng.choice(self.seqs)), "notes": self.notes(),
                "tags": self.taglist(), "created_by": self.user_ref(), "created_on": self.stamp()}

    def sep(self):
        return {"uuid": self.uid(), "sound_event": copy.deepcopy(self.rng.choice(self.ses)), "score": self.unit(),
                "tags": self.ptags()}

    def sqp(self):
        return {"uuid": self.uid(), "sequence": copy.deepcopy(self.rng.choice(self.seqs)), "score": self.unit(),
                "tags": self.ptags()}

    def ca(self, clip=None):
        return {"uuid": self.uid(), "clip": clip or copy.deepcopy(self.rng.choice(self.clips)),
                "sound_events": self.some(self.seas, 0, 3, distinct=True), "sequences": self.some(self.sqas, 0, 2, distinct=True),
                "tags": self.taglist(), "notes": self.notes(), "created_on": self.stamp()}

    def cp(self, clip=None):
        return {"uuid": self.uid(), "clip": clip or copy.deepcopy(self.rng.choice(self.clips)),
                "sound_events": self.some(self.seps, 0, 3, distinct=True), "sequences": self.some(self.sqps, 0, 2, distinct=True),
                "tags": self.ptags(), "features": self.features(2)}

    def task(self, clip=None):
        r = self.rng
        return {"uuid": self.uid(), "clip": copy.deepcopy(clip or r.choice(self.clips)),
                "status_badges": [{"state": r.choice(STATES), "owner": self.user_ref(), "created_on": self.stamp()}
                                  for _ in range(r.randint(1 if self.rich else 0, 3))],
                "created_on": self.stamp()}

    def ce(self):
        """a clip evaluation that satisfies the schema validator: same clip, every sound event mentioned once"""
        r = self.rng
        clip = copy.deepcopy(r.choice(self.clips))
        a, p = self.ca(clip), self.cp(copy.deepcopy(clip))
        anns, preds = list(a["sound_events"]), list(p["sound_events"])
        r.shuffle(anns)
        r.shuffle(preds)
        ms = []
        while anns and preds and r.random() < 0.6:
            ms.append(self.match(preds.pop(), anns.pop()))
        ms += [self.match(None, x) for x in anns] + [self.match(x, None) for x in preds]
        r.shuffle(ms)
        return {"uuid": self.uid(), "annotations": a, "predictions": p, "matches": ms, "metrics": self.features(2),
                "score": self.opt(self.unit)}

    def match(self, source, target):
        return {"uuid": self.uid(), "source": copy.deepcopy(source), "target": copy.deepcopy(target),
                "affinity": self.unit(), "score": self.opt(self.unit), "metrics": self.features(2)}

    def twin(self, obj):
        """equal content, fresh uuid"""
        o = copy.deepcopy(obj)
        o["uuid"] = self.uid()
        return o

    # ------------------------------------------------------------------ collections
    def collection(self, ty):
        r = self.rng
        v = {"uuid": self.uid(), "created_on": self.stamp()}
        k = lambda hi: r.randint(1 if self.rich else 0, hi)
        if ty in ("recording_set", "dataset"):
            recs = self.some(self.recordings, 0, len(self.recordings), distinct=True)
            if recs and r.random() < 0.3:
                recs.append(self.twin(recs[0]))
            v["recordings"] = recs
        if ty in ("annotation_set", "annotation_project", "evaluation_set"):
            v["clip_annotations"] = [self.ca() for _ in range(k(3))]
        if ty in ("prediction_set", "model_run"):
            v["clip_predictions"] = [self.cp() for _ in range(k(3))]
        if ty in ("dataset", "annotation_project", "evaluation_set", "model_run"):
            v["name"] = r.choice(NAMES + [""])
            v["description"] = self.opt(self.text)
        if ty == "annotation_project":
            v["instructions"] = self.opt(self.text)
            v["annotation_tags"] = self.taglist(4)
            # the schema requires every annotated clip to be the clip of some task
            seen, tasks = set(), []
            for a in v["clip_annotations"]:
                if a["clip"]["uuid"] not in seen:
                    seen.add(a["clip"]["uuid"])
                    tasks.append(self.task(a["clip"]))
            tasks += [self.task() for _ in range(r.randint(0, 2))]
            r.shuffle(tasks)
            v["tasks"] = tasks
        if ty == "evaluation_set":
            v["evaluation_tags"] = self.taglist(4)
        if ty == "model_run":
            v["version"] = self.opt(lambda: r.choice(["1.0", "", "v2-beta"]))
        if ty == "evaluation":
            v["evaluation_task"] = r.choice(["sound_event_detection", "clip_classification", ""])
            v["clip_evaluations"] = [self.ce() for _ in range(k(3))]
            v["metrics"] = self.features(3)
            v["score"] = self.opt(self.unit)
        return {"type": ty, "value": v}


def gen_collection(rng, ty, rich=False, base="/data/audio", size=1.0):
    return Gen(rng, rich=rich, base=base, size=size).collection(ty)


# ----------------------------------------------------------------------------- histories
_TEXT_FIELDS = ("username", "name", "institution", "message", "hash", "rights", "license", "description", "instructions",
                "version")


def _bump(tok):
    """another float token, still in [0, 1] when the old one was"""
    x = float(tok)
    y = (x + 0.25) % 1.0 if 0.0 <= x <= 1.0 else x + 1.0
    return num(y)


def revise(cj):
    """The same object graph (same uuids, same sharing) with changed *content*: every change is a pure function of the
    old value, so copies of one object stay equal (coherence is preserved).  Used for histories: a later save/load
    of the revised collection must not see anything remembered from the earlier one."""
    def walk(x, key=None):
        if isinstance(x, dict):
            y = {k: walk(v, k) for k, v in x.items()}
            if "uuid" in y:
                for f in _TEXT_FIELDS:
                    if f in y and isinstance(y[f], str):
                        y[f] = y[f] + "\u2032"
                if isinstance(y.get("email"), str):
                    y["email"] = "rev." + y["email"]
                if "is_issue" in y:
                    y["is_issue"] = not y["is_issue"]
                for f in ("score", "affinity"):
                    if isinstance(y.get(f), str):
                        y[f] = _bump(y[f])
                if "duration" in y:
                    y["duration"] = num(float(y["duration"]) + 1.0)
                if "end_time" in y:
                    y["end_time"] = num(float(y["end_time"]) + 1.0)
            if set(y) == {"tag", "score"}:
                y["score"] = _bump(y["score"])
            if set(y) == {"key", "value"} and key in ("features", "metrics") :
                pass
            return y
        if isinstance(x, list):
            if key in ("features", "metrics"):
                return [dict(f, value=num(float(f["value"]) + 1.0)) for f in x]
            return [walk(v, key) for v in x]
        return x
    return walk(cj)
