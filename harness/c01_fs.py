"""C01 — histories of `io.save` / `io.load` calls over one file system (HISTORIES.md section 1).

The property says "saving … and loading that file with a fresh call returns an object … equal to the original":
the state carried between calls is the *file system*.  A history is a list of steps over symbolic file names
(mapped below one fresh directory per history):

  {"cmd": "save", "path": "A.json", "collection": cj, "save_dir": d, "dir_as": "str"|"path",
   "via": how the object is constructed (see `c01_impl.build_via`), "call": "kw"|"pos", "path_as": "str"|"path",
   "source": "build" | "loaded" (the live object the last in-process load of `from` returned, after `edit`),
   "from": file name, "edit": {...}}
  {"cmd": "load", "path": "A.json", "load_dir": d, "dir_as": …, "fresh": load in the persistent fresh-loader
   process, "call": "kw"|"pos", "poison": mutate the returned object in place afterwards}
  {"cmd": "put", "path": "A.json", "doc": <model-layout Doc> | "text": kind}     somebody else wrote the file
  {"cmd": "rm", "path": "A.json"}

Judgement (the property on the real I/O, done here because the live objects are here): after a successful save of
object O to a path, every load of that path — until something else writes it — under the same directory must
return an object equal to O *as it was when it was saved*, over the declared fields of the real classes
(`c01_generic.generic`) and in the model layout (`aoef.dump`); and `save` must not change its argument.
Every step's canonical output is also compared with the Lean file-system model (`SE.Aoef.FS.exec`, op `fs_history`).
What a path holds after a *failed* save is not pinned by the property: loads of it are run but not compared.
"""
import copy
import json
import os
import shutil
from pathlib import Path

from . import aoef, aoef_impl, aoefgen, c01_cases, c01_impl, leanio
from .c01_generic import generic, gdiff, walk_models
from .core import canon_exc

_N = [0]

TEXTS = {
    "junk-long": "this is not an AOEF document\n" * 40000,
    "junk-short": "{",
    "empty": "",
    "spaces": " " * 400000,
    "braces": "}" * 200000,
    "json-other": json.dumps({"version": "1.1.0", "created_on": "2020-01-01T00:00:00", "payload": list(range(20000))}),
    "null": "null",
    "nested-tail": "]}" * 100000,
}

MEMBER_KEY = {"recording_set": "recordings", "dataset": "recordings", "annotation_set": "clip_annotations",
              "annotation_project": "clip_annotations", "evaluation_set": "clip_annotations",
              "prediction_set": "clip_predictions", "model_run": "clip_predictions", "evaluation": "clip_evaluations"}


# ----------------------------------------------------------------------------- edits (on the JSON and on live objects)
def edit_json(cj, ed):
    """the collection JSON after the edit (pure; applied to every copy of the edited object: coherence is kept)"""
    if ed["op"] == "drop_member":
        v = dict(cj["value"])
        k = MEMBER_KEY[cj["type"]]
        v[k] = [x for i, x in enumerate(v[k]) if i != ed["index"] % max(1, len(v[k]))] if v[k] else []
        return {"type": cj["type"], "value": v}
    if ed["op"] == "drop_item":
        def fn(d):
            if d.get("uuid") == ed["uuid"] and d.get(ed["field"]):
                xs = list(d[ed["field"]])
                del xs[ed["index"] % len(xs)]
                return dict(d, **{ed["field"]: xs})
            return d
        return c01_cases.map_kind(cj, ed["kind"], fn)
    if ed["op"] == "bump":
        def fn(d):
            if d.get("uuid") == ed["uuid"] and isinstance(d.get(ed["field"]), str):
                v = d[ed["field"]]
                return dict(d, **{ed["field"]: (v + "\u2032") if ed["field"] == "message" else aoef.num(float(v) + 1.0)})
            return d
        return c01_cases.map_kind(cj, ed["kind"], fn)
    raise ValueError(ed["op"])


def edit_live(obj, ty, ed):
    """the same edit on a live object graph -> the object to save"""
    if ed["op"] == "drop_member":
        k = MEMBER_KEY[ty]
        xs = getattr(obj, k)
        if not xs:
            return obj
        i = ed["index"] % len(xs)
        if ed.get("how") == "inplace":
            del xs[i]
            return obj
        return obj.model_copy(update={k: [x for j, x in enumerate(xs) if j != i]})
    if ed["op"] == "drop_item":
        for o in walk_models(obj):
            if type(o).__name__ == ed["kind"] and str(getattr(o, "uuid", "")) == ed["uuid"]:
                xs = getattr(o, ed["field"], None)
                if xs:
                    i = ed["index"] % len(xs)
                    if ed.get("how") == "inplace":
                        del xs[i]
                    else:
                        setattr(o, ed["field"], [x for j, x in enumerate(xs) if j != i])
        return obj
    if ed["op"] == "bump":
        for o in walk_models(obj):
            if type(o).__name__ == ed["kind"] and str(getattr(o, "uuid", "")) == ed["uuid"]:
                v = getattr(o, ed["field"])
                setattr(o, ed["field"], (v + "\u2032") if ed["field"] == "message" else v + 1.0)
        return obj
    raise ValueError(ed["op"])


def _poison(obj, ty):
    """mutate a loaded object in place (its member list and a nested field)"""
    xs = getattr(obj, MEMBER_KEY[ty], None)
    if xs:
        del xs[0]
    for o in walk_models(obj):
        if type(o).__name__ == "Recording":
            o.duration = o.duration + 17.0
            o.tags.clear()
        elif type(o).__name__ == "User":
            o.name = "poisoned"
        elif type(o).__name__ == "Note":
            o.message = "poisoned"


# ----------------------------------------------------------------------------- the real calls
def _call_save(io, obj, path, adir, step):
    if step.get("call") == "pos":
        fmt = step.get("format", "aoef")
        return io.save(obj, path, adir, fmt)
    kw = {}
    if "format" in step:
        kw["format"] = step["format"]
    return io.save(obj, path, audio_dir=adir, **kw)


def _call_load(io, path, adir, step, ty=None):
    if step.get("call") == "pos":
        return io.load(path, adir, step.get("format", "aoef"), ty if step.get("with_type") else None)
    kw = {}
    if "format" in step:
        kw["format"] = step["format"]
    if step.get("with_type") and ty is not None:
        kw["type"] = ty
    return io.load(path, audio_dir=adir, **kw)


def run(inp):
    """-> {"steps": [canonical output per step], "property": first violation of the property | absent}"""
    from soundevent import io
    _N[0] += 1
    root = os.path.join(leanio.run_dir(), f"fs_{_N[0]}")
    shutil.rmtree(root, ignore_errors=True)
    os.makedirs(root)
    outs, prop = [], None
    pinned = {}          # file name -> (generic of the saved object, its dump, save_dir, type)  | None (not pinned)
    live = {}            # file name -> live object of the last in-process load
    saved = {}           # file name -> live object last saved there (used again after a change: source "saved")
    try:
        for k, st in enumerate(inp["steps"]):
            name = st["path"]
            path = os.path.join(root, name)
            p_arg = Path(path) if st.get("path_as") == "path" else path
            cmd = st["cmd"]
            if cmd == "put":
                os.makedirs(os.path.dirname(path), exist_ok=True)
                if "doc" in st:
                    text = json.dumps(aoef.aoef_file(aoef.model_to_doc(st["doc"])))
                    if st.get("pad"):
                        text = text + " " * int(st["pad"])
                else:
                    text = TEXTS[st.get("text", "junk-long")]
                with open(path, "w") as f:
                    f.write(text)
                pinned.pop(name, None)
                live.pop(name, None)
                outs.append({"ok": True})
                continue
            if cmd == "rm":
                aoef_impl.cleanup(path)
                pinned.pop(name, None)
                live.pop(name, None)
                outs.append({"ok": True})
                continue
            if cmd == "save":
                cj = st["collection"]
                ty = cj["type"]
                out = {}
                try:
                    if st.get("source") in ("loaded", "saved"):
                        src = (live if st["source"] == "loaded" else saved).get(st.get("from", name))
                        if src is None:
                            obj = c01_impl.build_via(cj, "build")
                            out["source_missing"] = True
                        else:
                            obj = edit_live(src, ty, st["edit"]) if st.get("edit") else src
                    else:
                        obj = c01_impl.build_via(cj, st.get("via", "build"))
                except Exception as e:  # noqa: BLE001  (generator fault, not a verdict)
                    outs.append({"unbuildable": repr(e)[:300]})
                    pinned.pop(name, None)
                    continue
                g0, d0 = generic(obj), aoef.dump(obj)
                if d0 != cj:
                    out["built_differs"] = aoef.diff(d0, cj)      # the model was told something else: not compared
                try:
                    _call_save(io, obj, p_arg, aoef_impl.adir(st.get("save_dir"), st.get("dir_as", "str")), st)
                    out["ok"] = True
                    pinned[name] = (g0, d0, st.get("save_dir"), ty)
                    saved[name] = obj
                except leanio.InfraError:
                    raise
                except Exception as e:  # noqa: BLE001
                    out.update(canon_exc(e))
                    pinned[name] = None                              # what the file holds now is not pinned
                g1 = generic(obj)
                if prop is None and g1 != g0:
                    prop = f"step {k + 1} (save to {name}): `save` changed its argument at {gdiff(g0, g1)}"
                outs.append(out)
                continue
            if cmd == "load":
                pin = pinned.get(name, "absent")
                ty = pin[3] if isinstance(pin, tuple) else None
                out = {}
                try:
                    how = st.get("dir_as", "str")
                    if st.get("fresh"):
                        rep = c01_impl.FRESH.load(path, st.get("load_dir"), how)
                        if "val" not in rep:
                            raise _Remote(rep)
                        cur_d, cur_g = rep["val"], rep["gen"]
                    else:
                        obj = _call_load(io, p_arg, aoef_impl.adir(st.get("load_dir"), how), st, ty)
                        cur_d, cur_g = aoef.dump(obj), generic(obj)
                        live[name] = obj
                    out["val"] = cur_d
                    if isinstance(pin, tuple) and c01_impl.same_dir(pin[2], st.get("load_dir")) and prop is None:
                        msg = None if pin[0] == cur_g else gdiff(pin[0], cur_g)
                        if msg is None and cur_d != pin[1]:
                            d = aoef.diff(cur_d, pin[1])
                            msg = None if d is None else "model layout: " + d
                        if msg:
                            prop = (f"step {k + 1} (load of {name} after {_trail(inp['steps'][:k + 1])}): the loaded object "
                                    f"differs from the one last saved to that file at {msg}")
                    if st.get("poison") and not st.get("fresh"):
                        _poison(obj, cur_d["type"])
                        live.pop(name, None)
                except leanio.InfraError:
                    raise
                except _Remote as e:
                    out.update(e.rep)
                except Exception as e:  # noqa: BLE001
                    out.update(canon_exc(e))
                if "raise" in out and isinstance(pin, tuple) and c01_impl.same_dir(pin[2], st.get("load_dir")) and prop is None:
                    prop = (f"step {k + 1} (load of {name} after {_trail(inp['steps'][:k + 1])}): loading the file that was "
                            f"just saved raised {out['raise']}")
                if pin is None:
                    out["unpinned"] = True
                outs.append(out)
                continue
            outs.append({"raise": "crash:unknown-step"})
        res = {"steps": outs}
        if prop:
            res["property"] = prop
        return res
    finally:
        shutil.rmtree(root, ignore_errors=True)


class _Remote(Exception):
    def __init__(self, rep):
        super().__init__(str(rep))
        self.rep = {k: v for k, v in rep.items() if k == "raise"} or {"raise": "crash:fresh-loader"}


def _trail(steps):
    def one(s):
        t = s["cmd"]
        if t == "save":
            return "save(%s%s)->%s" % (s["collection"]["type"], ", edited" if s.get("edit") else "", s["path"])
        if t == "put":
            return "put(%s)->%s" % ("doc" if "doc" in s else s.get("text", "junk"), s["path"])
        return "%s(%s)" % (t, s["path"])
    return " ; ".join(one(s) for s in steps[-6:])


# ----------------------------------------------------------------------------- model side
def to_model(inp):
    steps = []
    for st in inp["steps"]:
        c = st["cmd"]
        if c == "save":
            steps.append({"cmd": "save", "path": st["path"], "collection": st["collection"], "save_dir": st.get("save_dir")})
        elif c == "load":
            steps.append({"cmd": "load", "path": st["path"], "load_dir": st.get("load_dir")})
        elif c == "put":
            steps.append({"cmd": "put", "path": st["path"], **({"doc": st["doc"]} if "doc" in st else {})})
        else:
            steps.append({"cmd": "rm", "path": st["path"]})
    return {"steps": steps}


def holds(ctx, inp, out):
    if not isinstance(out, dict) or "steps" not in out:
        return None
    for o in out["steps"]:
        if "unbuildable" in o:
            ctx.tally("generator:unbuildable")
    return out.get("property")


def compare(inp, io, mo):
    if not isinstance(io, dict) or "steps" not in io:
        return "the history driver raised " + str(io)
    if not isinstance(mo, list) or len(mo) != len(io["steps"]):
        return "the model did not answer the history: " + str(mo)[:200]
    skip = set()          # files whose content the model was not told (constructors normalised the input) or is not pinned
    for k, (st, a, b) in enumerate(zip(inp["steps"], io["steps"], mo)):
        name = st["path"]
        if st["cmd"] == "save":
            if "unbuildable" in a or "built_differs" in a or "source_missing" in a:
                skip.add(name)
                continue
            if "raise" in a or "raise" in b:
                if a.get("raise") != b.get("raise"):
                    return f"step {k + 1} (save to {name}): the code {_short(a)}, the model {_short(b)}"
                skip.add(name)           # after a failed save the content is not pinned
                continue
            skip.discard(name)
        elif st["cmd"] in ("put", "rm"):
            skip.discard(name)
        elif st["cmd"] == "load":
            if name in skip:
                continue
            x = {kk: v for kk, v in a.items() if kk in ("val", "raise")}
            if x != b:
                if "val" in x and "val" in b:
                    return f"step {k + 1} (load of {name}): implementation and model disagree at " + str(aoef.diff(x["val"], b["val"]))
                return f"step {k + 1} (load of {name}): the code {_short(x)}, the model {_short(b)}"
    return None


def _short(o):
    return "raised " + o["raise"] if "raise" in o else ("returned" if ("val" in o or "ok" in o) else str(o)[:80])


# ----------------------------------------------------------------------------- generators
VIAS = ["build", "build", "validate", "validate_json", "copy", "deepcopy", "shallow", "tuples", "assign_np"]


def _save(name, cj, d=None, **kw):
    return dict({"cmd": "save", "path": name, "collection": cj, "save_dir": d, "dir_as": "str"}, **kw)


def _load(name, d=None, **kw):
    return dict({"cmd": "load", "path": name, "load_dir": d, "dir_as": "str"}, **kw)


def _sized(rng, ty, size, base, gen=None):
    g = (gen or aoefgen.Gen)(rng, base=base, size=size)
    return g.collection(ty)


def _variants(rng, steps):
    """sprinkle the other spellings of the calls over a history"""
    for st in steps:
        if st["cmd"] == "save":
            if "via" not in st and st.get("source") not in ("loaded", "saved"):
                st["via"] = rng.choice(VIAS)
            st["call"] = rng.choice(["kw", "kw", "pos"])
            st["path_as"] = rng.choice(["str", "path"])
            st["dir_as"] = rng.choice(["str", "path"])
            if st["call"] == "kw" and rng.random() < 0.3:
                st["format"] = rng.choice([None, "aoef"])
        elif st["cmd"] == "load":
            st["call"] = rng.choice(["kw", "kw", "pos"])
            st["path_as"] = rng.choice(["str", "path"])
            st["dir_as"] = rng.choice(["str", "path"])
            st["with_type"] = rng.random() < 0.3
            if st["call"] == "kw" and rng.random() < 0.3:
                st["format"] = rng.choice([None, "aoef"])
    return steps


def _nested_edit(rng, cj):
    """an edit that removes one element of a list inside a nested object (None when there is nothing to remove)"""
    cands = []

    def walk(x, key=None):
        if isinstance(x, dict):
            kind = c01_cases.kind_of(x, key)
            if kind and "uuid" in x:
                for f in ("tags", "notes", "features", "owners", "sound_events", "sequences", "status_badges", "matches"):
                    if isinstance(x.get(f), list) and x[f]:
                        cands.append((kind, x["uuid"], f))
            for k, v in x.items():
                walk(v, k)
        elif isinstance(x, list):
            for v in x:
                walk(v, key)
    walk(cj["value"], "~collection")
    # a sequence's sound events take part in the chain of its descendants (embedded copies): leave those alone
    cands = [c for c in cands if not (c[0] == "Sequence")]
    if not cands:
        return None
    kind, u, f = rng.choice(cands)
    return {"op": "drop_item", "kind": kind, "uuid": u, "field": f, "index": rng.choice([0, -1]),
            "how": rng.choice(["inplace", "assign"])}


def _bump_edit(rng, cj):
    """an assignment to a scalar field of a nested object (a recording's duration, a clip's end, a note's text)"""
    cands = []

    def walk(x, key=None):
        if isinstance(x, dict):
            kind = c01_cases.kind_of(x, key)
            if "uuid" in x:
                for kd, f in (("Recording", "duration"), ("Clip", "end_time"), ("Note", "message")):
                    if kind == kd and isinstance(x.get(f), str):
                        cands.append((kd, x["uuid"], f))
            for k, v in x.items():
                walk(v, k)
        elif isinstance(x, list):
            for v in x:
                walk(v, key)
    walk(cj["value"], "~collection")
    if not cands:
        return None
    kind, u, f = rng.choice(cands)
    return {"op": "bump", "kind": kind, "uuid": u, "field": f}


def histories(rng, n, types=None):
    """n histories of every kind; `put` steps that need a document carry "doc_of": collection (filled in by the
    property module from the model's `save`)"""
    out = []
    types = types or aoefgen.TYPES
    NAMES = ["A.json", "B.json", "new dir/ünï/C.json"]
    for i in range(n):
        kind = KINDS[i % len(KINDS)]
        ty = types[(i // len(KINDS) + i) % len(types)]
        base = rng.choice(["/data/audio", "/data/audio", "audio", None])
        d = base if (base is not None and rng.random() < 0.5) else None
        A = rng.choice(NAMES)
        B = rng.choice([x for x in NAMES if x != A])
        big = _sized(rng, ty, 2.5, base)
        for _ in range(20):
            if len(big["value"][MEMBER_KEY[ty]]) >= 2:
                break
            big = _sized(rng, ty, 2.5, base)
        small = _sized(rng, ty, 0.3, base)
        small["value"][MEMBER_KEY[ty]] = small["value"][MEMBER_KEY[ty]][:1]
        steps = []
        if kind == "shrink":
            steps = [_save(A, big, d), _load(A, d), _save(A, small, d), _load(A, d), _load(A, d, fresh=True)]
        elif kind == "grow":
            steps = [_save(A, small, d), _load(A, d, fresh=True), _save(A, big, d), _load(A, d), _save(A, small, d),
                     _load(A, d, fresh=True)]
        elif kind == "edit-back":
            steps = [_save(A, big, d), _load(A, d)]
            cur = big
            for _ in range(rng.randint(1, 3)):
                z = rng.random()
                ed = _nested_edit(rng, cur) if z < 0.35 else (_bump_edit(rng, cur) if z < 0.6 else None)
                if ed is None:
                    ed = {"op": "drop_member", "index": rng.choice([0, -1, 1]), "how": rng.choice(["copy", "inplace"])}
                cur = edit_json(cur, ed)
                steps += [_save(A, cur, d, source="loaded", edit=ed), _load(A, d)]
            steps.append(_load(A, d, fresh=True))
        elif kind == "alternate":
            ty2 = rng.choice([t for t in aoefgen.TYPES if t != ty])
            other = _sized(rng, ty2, rng.choice([0.3, 1.0, 2.5]), base)
            steps = [_save(A, big, d), _load(A, d), _save(A, other, d), _load(A, d), _save(A, big, d), _load(A, d, fresh=True),
                     _save(A, other, d), _load(A, d, fresh=True), _save(A, small, d), _load(A, d)]
        elif kind == "dirs":
            base2 = rng.choice(["/data/audio", "audio/site a"])
            c = _sized(rng, ty, 1.0, base2)
            dirs = {"/data/audio": ["/data/audio", "/data", "/", None, "/data/audio/"],
                    "audio/site a": ["audio/site a", "audio", ".", None, "./audio/"]}[base2]
            for dd in rng.sample(dirs, len(dirs)):
                steps += [_save(A, c, dd), _load(A, dd, fresh=rng.random() < 0.3)]
        elif kind == "pre-existing":
            what = rng.choice(["doc-longer", "doc-shorter", "doc-padded"] + sorted(TEXTS))
            if what.startswith("doc"):
                other = _sized(rng, rng.choice(aoefgen.TYPES), 2.5 if what != "doc-shorter" else 0.3, None)
                put = {"cmd": "put", "path": A, "doc_of": other}
                if what == "doc-padded":
                    put["pad"] = 300000
            else:
                put = {"cmd": "put", "path": A, "text": what}
            c = rng.choice([small, big])
            steps = [put, _load(A, None), _save(A, c, d), _load(A, d), _load(A, d, fresh=True)]
        elif kind == "interleaved":
            ty2 = rng.choice(aoefgen.TYPES)
            other = _sized(rng, ty2, 1.0, base)
            steps = [_save(A, big, d), _save(B, other, d), _load(A, d), _load(B, d), {"cmd": "rm", "path": A}, _load(A, d),
                     _save(A, other, d), _save(B, small, d), _load(A, d), _load(B, d, fresh=True), _load(A, d, fresh=True)]
        elif kind == "failed-save":
            c = _sized(rng, ty, 1.0, "/data/audio")
            steps = [_save(A, big if base == "/data/audio" else c, "/data/audio" if base == "/data/audio" else None),
                     _save(A, c, "/somewhere/else"), _load(A, None), _save(A, small, d), _load(A, d),
                     _save(B, c, "/data/audio/deeper"), _load(B, None), _save(B, c, "/data"), _load(B, "/data", fresh=True)]
        elif kind == "poison":
            steps = [_save(A, big, d), _load(A, d, poison=True), _load(A, d), _load(A, d, poison=True), _save(B, small, d),
                     _load(A, d, fresh=True), _load(B, d, poison=True), _load(B, d), _save(A, big, d), _load(A, d)]
        elif kind == "revise":
            rev = aoefgen.revise(big)
            steps = [_save(A, big, d), _load(A, d), _save(A, rev, d), _load(A, d), _load(A, d, fresh=True), _save(A, big, d),
                     _save(A, big, d), _load(A, d), _save(B, rev, d), _load(A, d), _load(B, d)]
        elif kind == "edit-saved":
            # an object that was saved is changed (a member removed, a list shortened, a field assigned) and saved again
            steps = [_save(A, big, d), _load(A, d)]
            cur = big
            for j in range(rng.randint(2, 4)):
                z = rng.random()
                ed = _bump_edit(rng, cur) if z < 0.4 else (_nested_edit(rng, cur) if z < 0.7 else None)
                if ed is None:
                    ed = {"op": "drop_member", "index": rng.choice([0, -1, 1]), "how": rng.choice(["copy", "inplace"])}
                cur = edit_json(cur, ed)
                to = A if j % 2 == 0 else B
                steps += [_save(to, cur, d, source="saved", edit=ed, **{"from": A if j == 0 else (B if j % 2 == 0 else A)}),
                          _load(to, d, fresh=rng.random() < 0.4)]
            steps += [_load(A, d), _load(B, d)]
        elif kind == "same-length":
            # documents of exactly the same length on one path: two members swapped, one hex digit of the uuid changed
            v = big["value"]
            k = MEMBER_KEY[ty]
            swapped = {"type": ty, "value": dict(v, **{k: v[k][1:] + v[k][:1]})}
            u = v["uuid"]
            other = {"type": ty, "value": dict(v, uuid=u[:-1] + ("a" if u[-1] != "a" else "b"))}
            steps = [_save(A, big, d), _load(A, d), _save(A, swapped, d), _load(A, d), _save(A, other, d), _load(A, d),
                     _save(A, big, d), _load(A, d, fresh=True)]
        out.append({"steps": _variants(rng, steps), "_kind": kind})
    return out


KINDS = ["shrink", "grow", "edit-back", "alternate", "dirs", "pre-existing", "interleaved", "failed-save", "poison", "revise",
         "same-length", "edit-saved"]
