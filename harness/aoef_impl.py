"""Running the real `soundevent.io.save` / `load` for C01 / C02 / C18 (in-process and in a fresh process)."""
import json
import os
import subprocess
import sys
from pathlib import Path

from . import aoef, leanio
from .core import canon_exc

_N = [0]


def tmp_path(name="doc"):
    _N[0] += 1
    return os.path.join(leanio.run_dir(), f"{name}_{_N[0]}.json")


def adir(d, how="str"):
    """the audio directory as the caller would pass it: a string or a `Path`"""
    if d is None:
        return None
    return Path(d) if how == "path" else d


def save_real(cj, audio_dir, how="str", path=None):
    """build the real objects, `io.save` them -> (object, file path); exceptions propagate"""
    from soundevent import io
    obj = aoef.build(cj)
    path = path or tmp_path()
    if os.path.exists(path):
        os.remove(path)
    io.save(obj, path, audio_dir=adir(audio_dir, how))
    return obj, path


def read_doc(path):
    """`data` of the written file, in model layout, plus the keys the model does not know"""
    real = json.load(open(path))
    data = real["data"]
    unknown = sorted(set(data) - aoef.KNOWN_DOC_KEYS)
    return aoef.doc_to_model(data), unknown


def cleanup(path):
    try:
        os.remove(path)
    except OSError:
        pass


class FreshLoader:
    """`io.load` in a separate interpreter (started lazily, one per check run): the loading side never saw
    the objects that were saved, so nothing can be 'recovered' from memory."""

    def __init__(self):
        self.p = None

    def start(self):
        env = dict(os.environ)
        env["SOUNDEVENT_SRC"] = os.environ.get("SOUNDEVENT_SRC", "/repo/src")
        self.p = subprocess.Popen([sys.executable, "-m", "harness.aoef_worker"], cwd=leanio.VERIF, env=env,
                                  stdin=subprocess.PIPE, stdout=subprocess.PIPE, stderr=subprocess.DEVNULL, text=True)

    def load(self, path, audio_dir):
        if self.p is None or self.p.poll() is not None:
            self.start()
        self.p.stdin.write(json.dumps({"path": path, "audio_dir": audio_dir}) + "\n")
        self.p.stdin.flush()
        line = self.p.stdout.readline()
        if not line:
            raise leanio.InfraError("fresh loader process died")
        return json.loads(line)

    def close(self):
        if self.p is not None:
            try:
                self.p.stdin.close()
                self.p.wait(timeout=10)
            except Exception:  # noqa: BLE001
                self.p.kill()
            self.p = None


FRESH = FreshLoader()


def roundtrip(cj, save_dir, load_dir, n=1, how="str", fresh=False):
    """n consecutive save/load cycles -> {"val": model JSON of the final object} | {"raise": …}"""
    from soundevent import io
    try:
        obj = aoef.build(cj)
    except Exception as e:  # noqa: BLE001  (the input is not constructible: generator fault, not a verdict)
        return {"unbuildable": repr(e)[:300]}
    path = tmp_path("rt")
    try:
        for _ in range(n):
            if os.path.exists(path):
                os.remove(path)
            io.save(obj, path, audio_dir=adir(save_dir, how))
            if fresh:
                rep = FRESH.load(path, load_dir)
                if "val" not in rep:
                    return rep
                if n == 1:
                    return rep
                obj = aoef.build(rep["val"])
            else:
                obj = io.load(path, audio_dir=adir(load_dir, how))
        return {"val": aoef.dump(obj)}
    except leanio.InfraError:
        raise
    except Exception as e:  # noqa: BLE001
        return canon_exc(e)
    finally:
        cleanup(path)


def load_doc(doc_model_json, audio_dir):
    """write a document (model layout) as an AOEF file and `io.load` it"""
    from soundevent import io
    path = tmp_path("ld")
    try:
        json.dump(aoef.aoef_file(aoef.model_to_doc(doc_model_json)), open(path, "w"))
        obj = io.load(path, audio_dir=audio_dir)
        return {"val": aoef.dump(obj)}
    except leanio.InfraError:
        raise
    except Exception as e:  # noqa: BLE001
        return canon_exc(e)
    finally:
        cleanup(path)
