"""Building the Lean project, talking to the model driver, elaborating obligation files."""
import fcntl
import json
import os
import re
import subprocess
import threading
import time

VERIF = os.path.dirname(os.path.dirname(os.path.abspath(__file__)))
LEAN_DIR = os.path.join(VERIF, "lean")
RUN_DIR = os.path.join(VERIF, ".run")
DRIVER_BIN = os.path.join(LEAN_DIR, ".lake", "build", "bin", "driver")


class InfraError(Exception):
    """machinery failure (exit 2), never a verdict"""


def _env():
    env = dict(os.environ)
    env.setdefault("LEAN_NUM_THREADS", "8")
    return env


def build(clean=False, targets=()):
    """`lake build` under a file lock (no-op in 0.2 s when up to date)."""
    os.makedirs(RUN_DIR, exist_ok=True)
    lock = open(os.path.join(LEAN_DIR, ".build.lock"), "w")
    fcntl.flock(lock, fcntl.LOCK_EX)
    try:
        t0 = time.time()
        if clean:
            subprocess.run(["rm", "-rf", os.path.join(LEAN_DIR, ".lake", "build")], check=False)
        p = subprocess.run(["lake", "build", *targets], cwd=LEAN_DIR, env=_env(),
                           stdout=subprocess.PIPE, stderr=subprocess.STDOUT, text=True)
        if p.returncode != 0:
            raise InfraError("lake build failed:\n" + p.stdout[-6000:])
        return time.time() - t0
    finally:
        fcntl.flock(lock, fcntl.LOCK_UN)
        lock.close()


def elaborate(path, timeout=900):
    """`lake env lean file` against the built library -> (returncode, output)."""
    p = subprocess.run(["lake", "env", "lean", path], cwd=LEAN_DIR, env=_env(),
                       stdout=subprocess.PIPE, stderr=subprocess.STDOUT, text=True, timeout=timeout)
    return p.returncode, p.stdout


def leanchecker(modules, timeout=1800):
    p = subprocess.run(["lake", "env", "leanchecker", *modules], cwd=LEAN_DIR, env=_env(),
                       stdout=subprocess.PIPE, stderr=subprocess.STDOUT, text=True, timeout=timeout)
    return p.returncode, p.stdout


def run_dir():
    d = os.path.join(RUN_DIR, str(os.getpid()))
    os.makedirs(d, exist_ok=True)
    return d


class Driver:
    """The model driver process (compiled `lean_exe`, else `lean --run`)."""

    def __init__(self):
        if os.path.exists(DRIVER_BIN):
            cmd = [DRIVER_BIN]
        else:
            cmd = ["lake", "env", "lean", "--run", "Driver.lean"]
        self.cmd = cmd
        self.p = subprocess.Popen(cmd, cwd=LEAN_DIR, stdin=subprocess.PIPE, stdout=subprocess.PIPE,
                                  text=True, bufsize=1 << 20, env=_env())
        self.lock = threading.Lock()
        self.requests = 0

    def call_many(self, prop, op, args_list, chunk=400):
        """send many requests, return the replies in order (values of "ok")."""
        out = []
        with self.lock:
            for i in range(0, len(args_list), chunk):
                part = args_list[i:i + chunk]
                buf = "".join(json.dumps({"p": prop, "op": op, "a": a}, separators=(",", ":")) + "\n"
                              for a in part)
                # writer thread avoids pipe deadlock on large chunks
                w = threading.Thread(target=self._write, args=(buf,))
                w.start()
                for a in part:
                    line = self.p.stdout.readline()
                    if not line:
                        raise InfraError("model driver died (request %s.%s %r)" % (prop, op, a))
                    r = json.loads(line)
                    if "err" in r:
                        raise InfraError("model driver protocol error on %s.%s: %s ; args=%s"
                                         % (prop, op, r["err"], json.dumps(a)[:2000]))
                    out.append(r["ok"])
                w.join()
                self.requests += len(part)
        return out

    def _write(self, buf):
        self.p.stdin.write(buf)
        self.p.stdin.flush()

    def call(self, prop, op, args):
        return self.call_many(prop, op, [args])[0]

    def close(self):
        try:
            self.p.stdin.close()
            self.p.wait(timeout=10)
        except Exception:
            self.p.kill()


_AX_RE = re.compile(r"'([^']+)' depends on axioms: \[([^\]]*)\]", re.S)
_NOAX_RE = re.compile(r"'([^']+)' does not depend on any axioms")
ALLOWED_AXIOMS = {"propext", "Classical.choice", "Quot.sound"}
_FORBIDDEN = re.compile(r"\b(sorry|admit|native_decide|bv_decide|implemented_by|unsafe)\b|^\s*axiom\s|maxHeartbeats\s+0\b", re.M)


def strip_comments(src):
    # remove block comments (nested not needed here) and line comments
    src = re.sub(r"/-.*?-/", lambda m: "\n" * m.group(0).count("\n"), src, flags=re.S)
    src = re.sub(r"--[^\n]*", "", src)
    return src


def grep_forbidden(paths):
    hits = []
    for p in paths:
        src = strip_comments(open(p, encoding="utf-8").read())
        for m in _FORBIDDEN.finditer(src):
            line = src.count("\n", 0, m.start()) + 1
            hits.append(f"{os.path.relpath(p, VERIF)}:{line}: {m.group(0).strip()}")
    return hits


def lean_sources():
    out = []
    for root, _dirs, files in os.walk(LEAN_DIR):
        if ".lake" in root:
            continue
        for f in files:
            if f.endswith(".lean"):
                out.append(os.path.join(root, f))
    return sorted(out)


def audit(module, theorems):
    """#print axioms / #check for every property theorem.

    returns (ok_theorems: dict name -> {"axioms": [...], "statement": str}, problems: list[str])
    """
    d = run_dir()
    path = os.path.join(d, "Audit_%s.lean" % module.replace(".", "_"))
    lines = ["import %s" % module, "set_option format.width 200"]
    for t in theorems:
        lines.append(f"#check @{t}")
        lines.append(f"#print axioms {t}")
    open(path, "w").write("\n".join(lines) + "\n")
    rc, out = elaborate(path)
    problems = []
    found = {}
    for m in _AX_RE.finditer(out):
        axs = [a.strip() for a in m.group(2).replace("\n", " ").split(",") if a.strip()]
        found[m.group(1)] = axs
    for m in _NOAX_RE.finditer(out):
        found[m.group(1)] = []
    # statements
    stmts = {}
    for m in re.finditer(r"^@?([\w\.']+) : (.*?)(?=^\S|\Z)", out, flags=re.S | re.M):
        stmts[m.group(1)] = " ".join(m.group(2).split())
    ok = {}
    for t in theorems:
        if t not in found:
            problems.append(f"theorem {t} missing or failed to elaborate")
            continue
        bad = [a for a in found[t] if a not in ALLOWED_AXIOMS]
        if bad:
            problems.append(f"theorem {t} depends on non-standard axioms {bad}")
            continue
        ok[t] = {"axioms": found[t], "statement": stmts.get(t, "")[:600]}
    if rc != 0 and not problems:
        problems.append("audit file failed to elaborate: " + out[-1500:])
    try:
        os.remove(path)
    except OSError:
        pass
    return ok, problems
