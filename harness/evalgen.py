"""Shared by C08 and C09: abstract evaluation inputs <-> real soundevent objects <-> model requests.

Abstract input (JSON, numbers as exact rational strings):

    {"task": "clip_classification" | "clip_multilabel_classification" |
             "sound_event_classification" | "sound_event_detection",
     "vocab": [tag id, ...],                       # pairwise distinct ids from the tag pool
     "predictions": [{"clip": id, "tags": [[tag id, "score"], ...],
                      "events": [{"id": n, "geom": ["t0","f0","t1","f1"] | null,
                                  "tags": [[tag id, "score"], ...]}, ...]}, ...],
     "annotations": [{"clip": id, "tags": [tag id, ...],
                      "events": [{"id": n, "geom": ... | null, "tags": [tag id, ...]}, ...]}, ...]}

`to_model` / `enc` / `multilabel_clip_score` below are the first-generation model request (a tag resolved to its
position in the vocabulary by the harness, the multilabel clip score recomputed with the library's own encoder
functions): they are kept for old replays only.  C08 and C09 send tags as *content* (`tagpool.model_pool`) and let
the Lean model of the encoder (C19) compute the class indices; the float32 value `prediction_encoding` stores for
every score is still computed here (`f32`).
"""
import copy
import os
import warnings
from fractions import Fraction

import numpy as np

from .rat import rat, frac

TASKS = ["clip_classification", "clip_multilabel_classification",
         "sound_event_classification", "sound_event_detection"]
SINGLE_LABEL = {"clip_classification", "sound_event_classification", "sound_event_detection"}
POOL = 8   # tag ids 0..7

_CACHE = {}


def _base():
    if not _CACHE:
        from soundevent import data
        _CACHE["rec"] = data.Recording(path="rec.wav", duration=1000.0, channels=1, samplerate=8000)
        _CACHE["tags"] = [data.Tag(key=("species", "call", "site")[i % 3], value=f"v{i}") for i in range(POOL)]
        _CACHE["clips"] = {}
    return _CACHE


def tag(i):
    return _base()["tags"][i]


def clip(i):
    """clip `i` covers [10 i, 10 i + 10) of the recording; ids from 100 on are *twins*: clip 100 + i is another
    clip (its own uuid) over the same recording and the same time window as clip i"""
    from soundevent import data
    b = _base()
    if i not in b["clips"]:
        w = i - 100 if i >= 100 else i
        b["clips"][i] = data.Clip(recording=b["rec"], start_time=10.0 * w, end_time=10.0 * w + 10.0)
    return b["clips"][i]


def _fl_nest(x):
    if isinstance(x, (list, tuple)):
        return [_fl_nest(v) for v in x]
    return float(frac(x))


def _geometry(g):
    """a list of four rationals is a BoundingBox; a dict {"type", "coordinates"} is any geometry type"""
    from soundevent import data
    if g is None:
        return None
    if isinstance(g, dict):
        return getattr(data, g["type"])(coordinates=_fl_nest(g["coordinates"]))
    return data.BoundingBox(coordinates=[float(frac(x)) for x in g])


def gkey(g):
    """hashable key of an abstract geometry"""
    if g is None:
        return None
    if isinstance(g, dict):
        import json
        return json.dumps(g, sort_keys=True)
    return tuple(g)


def geom_json(g):
    """abstract geometry -> the model's JSON value ({"type", "coordinates"} with rational strings)"""
    if g is None:
        return None
    if isinstance(g, dict):
        return {"type": g["type"], "coordinates": g["coordinates"]}
    return {"type": "BoundingBox", "coordinates": list(g)}


TAG_FORM_KEYS = ("vocab", "ann", "pred", "vocab_term", "ann_term", "pred_term")


def build(inp):
    """abstract input -> (clip_predictions, clip_annotations, vocabulary tags)

    With `inp["tagpool"]` (a list of tag descriptors, see `harness/tagpool.py`) a tag id is a position in
    that pool and every use builds a new Tag object; without it the eight tags above are used.

    `inp["opts"]` (optional, C09) varies how the same content is handed over: {"tags": "shared"} one Tag object
    per pool position within this call instead of a new one per use; {"score": "np64" | "np32" | "int"} the
    predicted scores as numpy scalars / Python ints where integral ("np32": the float32 value of the score);
    {"seq": "tuple"} tag / sound event sequences as tuples; {"vocab" | "ann" | "pred": form, "vocab_term" |
    "ann_term" | "pred_term": mode} how the Tag objects of the vocabulary / annotations / predictions are made and
    where their Term objects come from (`tagpool.Maker`: Tag subclasses, model_validate / model_copy, shared Term
    objects, the Term object of a vocabulary tag under another value)."""
    from soundevent import data
    rec = _base()["rec"]
    ses = {}
    opts = inp.get("opts") or {}
    forms = {k: opts[k] for k in TAG_FORM_KEYS if opts.get(k) is not None}
    if forms:
        from . import tagpool
        maker = tagpool.Maker(tagpool.descriptors(inp), forms)
        vocab_tags = maker.vocab(inp["vocab"])           # first: "cross" hands its Term objects to the other tags
        tag = tag_p = None
    elif inp.get("tagpool") is not None:
        from . import tagpool
        descs = inp["tagpool"]
        if opts.get("tags") == "shared":
            memo = {}

            def tag(t):
                if t not in memo:
                    memo[t] = tagpool.fresh(descs[t])
                return memo[t]
        else:
            def tag(t):
                return tagpool.fresh(descs[t])
    else:
        tag = globals()["tag"]
    seq = tuple if opts.get("seq") == "tuple" else list
    how = opts.get("score")

    def score(s):
        v = float(frac(s))
        if how == "np64":
            return np.float64(v)
        if how == "np32":
            return np.float32(v)
        if how == "int" and v == int(v):
            return int(v)
        return v

    def sound_event(ev):
        key = (ev["id"], gkey(ev["geom"]))
        if key not in ses:
            ses[key] = data.SoundEvent(recording=rec, geometry=_geometry(ev["geom"]))
        return ses[key]

    if forms:
        def tag(t):
            return maker.make("ann", t)

        def tag_p(t):
            return maker.make("pred", t)
    else:
        tag_p = tag

    def ptags(ts):
        return seq(data.PredictedTag(tag=tag_p(t), score=score(s)) for t, s in ts)

    preds, anns = [], []
    for c in inp["predictions"]:
        preds.append(data.ClipPrediction(
            clip=clip(c["clip"]), tags=ptags(c.get("tags", [])),
            sound_events=seq(data.SoundEventPrediction(sound_event=sound_event(e), tags=ptags(e["tags"]),
                                                       score=float(frac(e["conf"])) if "conf" in e else 1.0)
                             for e in c.get("events", []))))
    for c in inp["annotations"]:
        anns.append(data.ClipAnnotation(
            clip=clip(c["clip"]), tags=seq(tag(t) for t in c.get("tags", [])),
            sound_events=seq(data.SoundEventAnnotation(sound_event=sound_event(e), tags=seq(tag(t) for t in e["tags"]))
                             for e in c.get("events", []))))
    return preds, anns, (vocab_tags if forms else [tag(t) for t in inp["vocab"]])


def task_fn(name):
    from soundevent import evaluation
    return getattr(evaluation, name)


def call_task(task, preds, anns, tags, opts=None):
    """the task function on live objects; {"call": "positional"}: arguments in the documented order;
    {"seq": "tuple"}: the three sequences as tuples"""
    opts = opts or {}
    if opts.get("seq") == "tuple":
        preds, anns, tags = tuple(preds), tuple(anns), tuple(tags)
    with warnings.catch_warnings():
        warnings.simplefilter("ignore")
        if opts.get("call") == "positional":
            return task_fn(task)(preds, anns, tags)
        return task_fn(task)(clip_predictions=preds, clip_annotations=anns, tags=tags)


def run_task(inp):
    preds, anns, tags = build(inp)
    return call_task(inp["task"], preds, anns, tags, inp.get("opts"))


def _num(x):
    """a float of the result -> exact rational string; NaN / inf -> marker (never equals a model value)"""
    if x is None:
        return None
    x = float(x)
    if x != x or x in (float("inf"), float("-inf")):
        return "nan"
    return rat(x)


def _features(fs):
    return [[f.term.label, _num(f.value)] for f in fs]


def canon_evaluation(ev):
    """Evaluation -> what C08/C09 compare: labels and values of every metric list, every
    score, matches as (source position, target position, affinity, score)."""
    clip_ids = {c.uuid: i for i, c in _base()["clips"].items()}
    clips = []
    for ce in ev.clip_evaluations:
        pidx = {p.uuid: i for i, p in enumerate(ce.predictions.sound_events)}
        aidx = {a.uuid: i for i, a in enumerate(ce.annotations.sound_events)}
        ms = []
        for m in ce.matches:
            ms.append({"src": None if m.source is None else pidx[m.source.uuid],
                       "tgt": None if m.target is None else aidx[m.target.uuid],
                       "affinity": _num(m.affinity), "score": _num(m.score), "metrics": _features(m.metrics)})
        clips.append({"clip": clip_ids[ce.annotations.clip.uuid],
                      "pclip": clip_ids[ce.predictions.clip.uuid],
                      "metrics": _features(ce.metrics), "score": _num(ce.score), "matches": ms})
    return {"task": ev.evaluation_task, "metrics": _features(ev.metrics), "score": _num(ev.score), "clips": clips}


# ------------------------------------------------------------------ model request
_F32 = {}


def f32(s):
    """the value a float32 array stores for the score (exact rational string)"""
    v = _F32.get(s)
    if v is None:
        with np.errstate(all="ignore"):
            v = rat(float(np.float32(float(frac(s)))))
        if len(_F32) > 50000:
            _F32.clear()
        _F32[s] = v
    return v


def enc(vocab, t):
    return vocab.index(t) if t in vocab else None


_MATCH_CACHE = {}


def _matcher():
    """the geometry matcher the detection task uses (found by introspection, so that a rename of the
    function does not stop the check)"""
    import importlib
    det = importlib.import_module("soundevent.evaluation.tasks.sound_event_detection")
    mod = importlib.import_module("soundevent.evaluation.match")
    f = getattr(det, "match_geometries", None) or getattr(mod, "match_geometries", None)
    if f is None:
        cands = [v for v in vars(det).values() if callable(v) and getattr(v, "__module__", None) == mod.__name__]
        if len(cands) != 1:
            raise AttributeError("cannot identify the geometry matcher used by sound_event_detection")
        f = cands[0]
    return f


def matcher_answer(pred_events, ann_events):
    """the real matcher on the filtered geometry lists, as the code calls it"""
    match_geometries = _matcher()
    sg = [e["geom"] for e in pred_events if e["geom"] is not None]
    tg = [e["geom"] for e in ann_events if e["geom"] is not None]
    key = (tuple(gkey(g) for g in sg), tuple(gkey(g) for g in tg))
    if key in _MATCH_CACHE:
        return copy.deepcopy(_MATCH_CACHE[key])
    src = [_geometry(g) for g in sg]
    tgt = [_geometry(g) for g in tg]
    out = []
    for s, t, a in match_geometries(source=src, target=tgt):
        out.append([None if s is None else int(s), None if t is None else int(t), _num(a)])
    if len(_MATCH_CACHE) > 20000:
        _MATCH_CACHE.clear()
    _MATCH_CACHE[key] = out
    return copy.deepcopy(out)


def affinity(g1, g2):
    """the geometric affinity of two boxes as the library computes it (exact rational of the float)"""
    from soundevent.evaluation.affinity import compute_affinity
    return Fraction(float(compute_affinity(_geometry(g1), _geometry(g2))))


def multilabel_clip_score(vocab, ann_tags, pred_tags):
    """exp(-log_loss) has no rational value: recomputed with the same public functions"""
    from soundevent.evaluation import metrics as M
    from soundevent.evaluation.encoding import create_tag_encoder, multilabel_encoding, prediction_encoding
    from soundevent import data
    encoder = create_tag_encoder([tag(t) for t in vocab])
    y = multilabel_encoding([tag(t) for t in ann_tags], encoder)
    p = prediction_encoding([data.PredictedTag(tag=tag(t), score=float(frac(s))) for t, s in pred_tags], encoder)
    with warnings.catch_warnings():
        warnings.simplefilter("ignore")
        return float(M.multilabel_example_score(y, p))


def to_model(inp):
    vocab = inp["vocab"]
    task = inp["task"]
    ann_by_clip = {}
    for c in inp["annotations"]:
        ann_by_clip[c["clip"]] = c       # a dictionary: the last one wins
    preds = []
    clip_scores = []
    for c in inp["predictions"]:
        pc = {"clip": c["clip"],
              "tags": [[enc(vocab, t), f32(s)] for t, s in c.get("tags", [])],
              "events": [{"id": e["id"], "geom": e["geom"] is not None,
                          "tags": [[enc(vocab, t), f32(s)] for t, s in e["tags"]]} for e in c.get("events", [])]}
        a = ann_by_clip.get(c["clip"])
        if a is not None and task == "sound_event_detection":
            pc["matcher"] = matcher_answer(c.get("events", []), a.get("events", []))
        if a is not None and task == "clip_multilabel_classification" and len(vocab) >= 2:
            clip_scores.append(rat(multilabel_clip_score(vocab, a.get("tags", []), c.get("tags", []))))
        preds.append(pc)
    anns = [{"clip": c["clip"], "tags": [enc(vocab, t) for t in c.get("tags", [])],
             "events": [{"id": e["id"], "geom": e["geom"] is not None, "tags": [enc(vocab, t) for t in e["tags"]]}
                        for e in c.get("events", [])]} for c in inp["annotations"]]
    req = {"task": task, "C": len(vocab), "predictions": preds, "annotations": anns}
    if task == "clip_multilabel_classification":
        req["clip_scores"] = clip_scores
    return req


# ------------------------------------------------------------------ comparison
TOL_LABELS = {"Balanced Accuracy", "Mean Average Precision", "Average Precision"}   # several roundings / sklearn sums
ROUND_ONCE_LABELS = {"Accuracy", "Top 3 Accuracy", "Jaccard Index"}                  # one ratio of two counts
EXACT_LABELS = {"True Class Probability"}


def num_eq(impl, model, mode):
    """impl: exact rational string of the float the code returned; model: rational string"""
    if impl is None or model is None:
        return impl is None and model is None
    if impl == "nan":
        return False
    a, q = frac(impl), frac(model)
    if mode == "exact":
        return a == q
    if mode == "round-once":
        return float(q) == float(a)
    if mode == "loose":      # behind float32 logarithms / exp (the multilabel clip score)
        return abs(float(a) - float(q)) <= 2.0 ** -18
    return abs(float(a) - float(q)) <= 2.0 ** -40 * max(1.0, abs(float(q)))


def label_mode(label):
    if label in EXACT_LABELS:
        return "exact"
    if label in ROUND_ONCE_LABELS:
        return "round-once"
    return "tolerance"


def _fl(v):
    return v if v in (None, "nan") else float(frac(v))


def features_diff(where, impl, model):
    """metric lists are compared as multisets of (label, value)"""
    lvl = where.split(" ")[0] if not where.startswith("clip") else ("match" if "match" in where else "clip")
    if sorted(l for l, _ in impl) != sorted(l for l, _ in model):
        return (f"{lvl} metrics carry the wrong terms: {sorted(l for l, _ in impl)} instead of "
                f"{sorted(l for l, _ in model)} ({where})")
    ia = sorted(impl, key=lambda p: p[0])
    ma = sorted(model, key=lambda p: p[0])
    for (l, v), (_l2, w) in zip(ia, ma):
        if not num_eq(v, w, label_mode(l)):
            return f"{lvl} metric {l} is not the metric its term names: {_fl(v)} instead of {_fl(w)} ({where})"
    return None


def match_key(m):
    return (-1 if m["src"] is None else m["src"], -1 if m["tgt"] is None else m["tgt"])


def evaluation_diff(impl, model, score_mode="round-once", clip_score_mode="round-once", clip_order=True,
                    affinity=True, metrics=True, affinity_mode="exact", affinity_what="the one the matcher reported"):
    """None when the two canonical evaluations agree on everything C08/C09 pin"""
    d = features_diff("evaluation", impl["metrics"], model["metrics"]) if metrics else None
    if d:
        return d
    if not num_eq(impl["score"], model["score"], score_mode):
        return f"evaluation score is not the mean of the clip scores: {_fl(impl['score'])} instead of {_fl(model['score'])}"
    ic, mc = impl["clips"], model["clips"]
    if not clip_order:
        ic = sorted(ic, key=lambda c: c["clip"])
        mc = sorted(mc, key=lambda c: c["clip"])
    if [c["clip"] for c in ic] != [c["clip"] for c in mc]:
        return f"evaluated clips are not the predicted clips that are annotated: {[c['clip'] for c in ic]} instead of {[c['clip'] for c in mc]}"
    for a, b in zip(ic, mc):
        w = f"clip {a['clip']}"
        if a.get("pclip", a["clip"]) != a["clip"]:
            return f"clip evaluation pairs annotations and predictions of different clips ({w})"
        d = features_diff(w, a["metrics"], b["metrics"]) if metrics else None
        if d:
            return d
        if not num_eq(a["score"], b["score"], clip_score_mode):
            return f"clip score is not the mean of its match scores / the item's score: {_fl(a['score'])} instead of {_fl(b['score'])} ({w})"
        am = sorted(a["matches"], key=match_key)
        bm = sorted(b["matches"], key=match_key)
        if [match_key(m) for m in am] != [match_key(m) for m in bm]:
            return f"matches do not pair the sound events as expected: {[match_key(m) for m in am]} instead of {[match_key(m) for m in bm]} ({w})"
        for x, y in zip(am, bm):
            wm = f"{w} match {match_key(x)}"
            if affinity and not num_eq(x["affinity"], y["affinity"], affinity_mode):
                return f"match affinity is not {affinity_what}: {_fl(x['affinity'])} instead of {_fl(y['affinity'])} ({wm})"
            if not num_eq(x["score"], y["score"], "exact"):
                return f"match score is not the probability of the true class: {_fl(x['score'])} instead of {_fl(y['score'])} ({wm})"
            d = features_diff(wm, x["metrics"], y["metrics"]) if metrics else None
            if d:
                return d
    return None


def all_values(ev):
    """every (where, label, value) of a canonical evaluation, scores included"""
    for l, v in ev["metrics"]:
        yield "evaluation", l, v
    yield "evaluation", "score", ev["score"]
    for c in ev["clips"]:
        for l, v in c["metrics"]:
            yield f"clip {c['clip']}", l, v
        yield f"clip {c['clip']}", "score", c["score"]
        for m in c["matches"]:
            for l, v in m["metrics"]:
                yield f"clip {c['clip']} match {match_key(m)}", l, v
            yield f"clip {c['clip']} match {match_key(m)}", "score", m["score"]
            yield f"clip {c['clip']} match {match_key(m)}", "affinity", m["affinity"]


def metric_lists(ev):
    yield "evaluation", ev["metrics"]
    for c in ev["clips"]:
        yield f"clip {c['clip']}", c["metrics"]
        for m in c["matches"]:
            yield f"clip {c['clip']} match {match_key(m)}", m["metrics"]


# ------------------------------------------------------------------ AOEF
def aoef_roundtrip(ev, directory):
    from soundevent import io
    path = os.path.join(directory, "evaluation.json")
    try:
        io.save(ev, path)
        return io.load(path)
    finally:
        try:
            os.remove(path)
        except OSError:
            pass


# ------------------------------------------------------------------ score vectors
NON_DYADIC = [0.1, 0.2, 0.3, 0.4, 0.6, 0.7, 0.8, 0.9, 0.05, 0.95, 1.0 / 3, 0.51, 0.49]
ML_BOUNDARY = [0.5, 0.5000000001, 0.50000001, 0.4999999999, 0.49999999, 0.0, 1.0, 0.75, 0.25]


def dyadic_scores(rng, tags, k=None, exact_one=None):
    """scores on the grid 2^-k for the given tags, summing to at most 1 (boundary biased)"""
    if not tags:
        return []
    k = k or rng.choice([2, 3, 4])
    units = 1 << k
    total = units if (exact_one if exact_one is not None else rng.random() < 0.3) else rng.randint(0, units)
    cuts = sorted(rng.randint(0, total) for _ in range(len(tags) - 1))
    parts = [b - a for a, b in zip([0] + cuts, cuts + [total])]
    if rng.random() < 0.3 and len(parts) >= 2:      # force a tie
        i, j = rng.sample(range(len(parts)), 2)
        m = min(parts[i], parts[j])
        parts[i] = parts[j] = m
    rng.shuffle(parts)
    return [[t, rat(Fraction(p, units))] for t, p in zip(tags, parts)]


def single_label_scores(rng, pool_tags):
    """predicted tags of one item of a single-label task: scores sum to at most 1"""
    r = rng.random()
    if r < 0.08:
        return []
    if r < 0.2:                                      # one non-dyadic score, all others absent
        return [[rng.choice(pool_tags), rat(rng.choice(NON_DYADIC))]]
    n = rng.randint(1, min(len(pool_tags), 5))
    tags = rng.sample(pool_tags, n)
    out = dyadic_scores(rng, tags)
    if rng.random() < 0.5:
        out = [p for p in out if p[1] != "0"] or out   # explicit zero scores stay sometimes
    return out


def multilabel_scores(rng, pool_tags):
    n = rng.randint(0, min(len(pool_tags), 6))
    tags = rng.sample(pool_tags, n)
    out = []
    for t in tags:
        r = rng.random()
        if r < 0.3:
            s = rng.choice(ML_BOUNDARY)
        elif r < 0.6:
            s = rng.randint(0, 16) / 16
        else:
            s = round(rng.random(), rng.choice([1, 2, 7]))
        out.append([t, rat(s)])
    return out


def true_tags(rng, pool_tags, multilabel=False):
    r = rng.random()
    if r < 0.15:
        return []
    n = 1 if (r < 0.6 and not multilabel) else rng.randint(1, 3)
    return [rng.choice(pool_tags) for _ in range(n)] if not multilabel else rng.sample(pool_tags, min(n, len(pool_tags)))


def gen_vocab(rng, lo=1, hi=6):
    n = rng.randint(lo, hi)
    return rng.sample(range(POOL), n)


def clip_ids(rng, n_both, n_only_pred, n_only_ann):
    ids = rng.sample(range(40), n_both + n_only_pred + n_only_ann)
    both = ids[:n_both]
    p = both + ids[n_both:n_both + n_only_pred]
    a = both + ids[n_both + n_only_pred:]
    rng.shuffle(p)
    rng.shuffle(a)
    return p, a


# ------------------------------------------------------------------ detection inputs
def gen_boxes(rng):
    """a bounding box on a coarse grid: overlapping / touching / disjoint / far apart placements"""
    t0 = Fraction(rng.randint(0, 12), 2)
    w = Fraction(rng.choice([1, 2, 2, 4]), 2)
    f0 = rng.choice([1000, 1000, 1500, 3000])
    h = rng.choice([500, 1000, 1000])
    return [rat(t0), str(f0), rat(t0 + w), str(f0 + h)]


def gen_detection(rng, n_clips=None, vocab=None):
    vocab = vocab if vocab is not None else gen_vocab(rng, 1, 6)
    pool = list(range(POOL))
    nb = n_clips if n_clips is not None else rng.choice([1, 1, 2, 3, 4])
    p_ids, a_ids = clip_ids(rng, nb, rng.choice([0, 0, 1]), rng.choice([0, 0, 1]))
    def dp():
        return vocab if rng.random() < 0.7 else pool
    nid = [0]
    def evs(pred):
        out = []
        for _ in range(rng.choice([0, 1, 1, 2, 2, 3, 4])):
            nid[0] += 1
            g = gen_boxes(rng) if rng.random() < 0.8 else None
            out.append({"id": nid[0], "geom": g,
                        "tags": single_label_scores(rng, dp()) if pred else true_tags(rng, dp())})
        return out
    preds = [{"clip": c, "events": evs(True)} for c in p_ids]
    anns = [{"clip": c, "events": evs(False)} for c in a_ids]
    # copy some annotation boxes into predictions so that exact and partial overlaps are common
    ann_by = {c["clip"]: c for c in anns}
    for c in preds:
        a = ann_by.get(c["clip"])
        if a:
            boxes = [e["geom"] for e in a["events"] if e["geom"]]
            for e in c["events"]:
                if e["geom"] and boxes and rng.random() < 0.5:
                    b = list(rng.choice(boxes))
                    if rng.random() < 0.5:
                        b[2] = rat(frac(b[2]) + Fraction(1, 2))
                    e["geom"] = b
    return {"task": "sound_event_detection", "vocab": vocab, "predictions": preds, "annotations": anns}


