"""Fresh-process loader: `io.load` in a process that never saw the objects that were saved.
stdin: one JSON request per line {"path":…, "audio_dir":…|null}; stdout: {"val": model JSON} | {"raise": enum}."""
import json
import os
import sys
import warnings

warnings.filterwarnings("ignore")
HERE = os.path.dirname(os.path.dirname(os.path.abspath(__file__)))
sys.path.insert(0, HERE)
sys.path.insert(0, os.environ.get("SOUNDEVENT_SRC", "/repo/src"))


def main():
    from harness import aoef
    from harness.core import canon_exc
    from soundevent import io
    out = sys.stdout
    for line in sys.stdin:
        line = line.strip()
        if not line:
            continue
        rq = json.loads(line)
        try:
            obj = io.load(rq["path"], audio_dir=rq.get("audio_dir"))
            rep = {"val": aoef.dump(obj)}
        except Exception as e:  # noqa: BLE001
            rep = canon_exc(e)
        out.write(json.dumps(rep) + "\n")
        out.flush()


if __name__ == "__main__":
    main()
