"""C07: a pristine-process probe for histories (HISTORIES.md section 1).

`python -m harness.c07_fresh` is a small server that imports the library *and never calls it*; for every request (one
JSON line: a history {"seq": [{"inp": ...}, ...]} of `match` (or `match_matrix`) inputs) it forks, the child runs the calls one after the
other and writes the canonical outputs, the parent relays them.  Every request therefore runs in a process in which
no call was made before: whatever the long-lived check process has accumulated (module-level caches, memoised
attributes, leaked options) is absent.  Used (a) as a purity monitor - the answer to a call must not depend on the
calls made earlier in the process - and (b) to turn a state-dependent failure into a replay that reproduces on its
own (a short history found by trying recent calls in front of the failing one).

Nothing here is an oracle for values: outputs are judged by the Lean model / the independent affinities in the
parent; the probe only says whether the same call gives the same answer in a fresh process.
"""
import json
import os
import select
import subprocess
import sys

HERE = os.path.dirname(os.path.dirname(os.path.abspath(__file__)))


def _serve():
    repo_src = os.environ["SOUNDEVENT_SRC_FRESH"]
    sys.path.insert(0, HERE)
    sys.path.insert(0, repo_src)
    import warnings
    warnings.filterwarnings("ignore")
    import soundevent
    assert os.path.realpath(soundevent.__file__).startswith(os.path.realpath(repo_src)), soundevent.__file__
    import soundevent.evaluation  # noqa: F401
    from harness.props import c07
    sys.stdout.write("ready\n")
    sys.stdout.flush()
    for line in sys.stdin:
        req = json.loads(line)
        r, w = os.pipe()
        pid = os.fork()
        if pid == 0:
            os.close(r)
            outs = []
            try:
                if req.get("op") in ("match_history", "match_interleaved", "stub_history"):
                    out = c07.OPS[req["op"]].impl(req["h"])
                    libs = {}
                    for step in ([] if req["op"] == "stub_history" else req["h"]["seq"]):
                        # as the judge of a replay would see the library afterwards
                        k = c07._core_key(step["inp"])
                        if k not in libs:
                            try:
                                libs[k] = c07._observe_lib(step["inp"])
                            except Exception:  # noqa: BLE001
                                pass
                    data = json.dumps({"out": out, "libs": libs})
                else:
                    for step in req["h"]["seq"]:
                        outs.append(c07._observe_op(req.get("base", "match"), step["inp"]))
                    data = json.dumps({"steps": outs})
            except BaseException as e:  # noqa: BLE001
                data = json.dumps({"error": repr(e)[:300]})
            with os.fdopen(w, "w") as f:
                f.write(data)
            os._exit(0)
        os.close(w)
        with os.fdopen(r) as f:
            data = f.read()
        os.waitpid(pid, 0)
        sys.stdout.write((data or json.dumps({"error": "no answer"})) + "\n")
        sys.stdout.flush()


class Fresh:
    """client side; every failure of the probe itself makes it unavailable (never an error of the check)"""

    def __init__(self, repo_src):
        self.ok = False
        self.proc = None
        try:
            env = dict(os.environ, SOUNDEVENT_SRC_FRESH=repo_src, PYTHONWARNINGS="ignore")
            self.proc = subprocess.Popen([sys.executable, "-m", "harness.c07_fresh"], cwd=HERE, env=env, stdin=subprocess.PIPE,
                                         stdout=subprocess.PIPE, stderr=subprocess.DEVNULL, text=True, bufsize=1)
            self.ok = self._readline(60) == "ready"
        except Exception:  # noqa: BLE001
            self.ok = False

    def _readline(self, timeout):
        r, _, _ = select.select([self.proc.stdout], [], [], timeout)
        if not r:
            raise TimeoutError
        return self.proc.stdout.readline().strip()

    def run(self, hist, op="plain", base="match", timeout=30):
        """the history in a fresh process: with op="plain" every step is a fresh call (canonical outputs of the
        steps), with op="match_history" / "match_interleaved" / "stub_history" that operation itself (reuse / poison honoured; its
        whole output and the library's matrices as a judge would see them afterwards).
        None when the probe is unavailable."""
        if not self.ok:
            return None
        try:
            self.proc.stdin.write(json.dumps({"op": op, "base": base, "h": hist}) + "\n")
            self.proc.stdin.flush()
            ans = json.loads(self._readline(timeout))
            if "error" in ans:
                return None
            return ans.get("steps") if op == "plain" else ans
        except Exception:  # noqa: BLE001
            self.ok = False
            self.close()
            return None

    def close(self):
        if self.proc is not None:
            try:
                self.proc.kill()
            except Exception:  # noqa: BLE001
                pass
            self.proc = None


if __name__ == "__main__":
    _serve()
