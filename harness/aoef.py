"""AOEF glue shared by C01 / C02 / C18.

* `build(cjson)`       model-layout JSON of a collection  ->  real `soundevent.data` objects
                        (objects with one (kind, uuid) are built once and shared by reference)
* `dump(obj)`          real collection object            ->  model-layout JSON (what Lean's `Collection` parses)
* `doc_to_model(d)`    the `data` member of a written AOEF file -> model-layout JSON of Lean's `Doc`
* `canon_doc(d)`       canonical form of a `Doc` JSON: nulls dropped, tag ids renumbered by (key, value),
                        definition lists sorted by uuid (member lists keep their order)

Atoms: every number is the token `repr(float(x))`, datetimes / dates / times are `isoformat()` strings,
uuids are `str(UUID)`, a geometry is the compact JSON text of `{type, coordinates}` with float coordinates,
a path is `str(Path)`.
"""
import datetime
import json
import uuid as _uuid
from pathlib import Path


def num(x):
    return repr(float(x))


def _f(tok):
    return float(tok)


def _dt(tok):
    return datetime.datetime.fromisoformat(tok)


def geom_token(g):
    """canonical text of a geometry object / dict"""
    if g is None:
        return None
    if not isinstance(g, dict):
        g = g.model_dump()

    def fl(c):
        return [fl(x) for x in c] if isinstance(c, (list, tuple)) else float(c)
    return json.dumps({"type": g["type"], "coordinates": fl(g["coordinates"])}, separators=(",", ":"))


# ----------------------------------------------------------------------------- model JSON -> real objects
class Builder:
    def __init__(self):
        self.cache = {}

    def shared(self, kind, j, mk):
        k = (kind, j["uuid"])
        if k not in self.cache:
            self.cache[k] = mk(j)
        return self.cache[k]

    def user(self, j):
        from soundevent import data
        if j is None:
            return None
        return self.shared("user", j, lambda j: data.User(
            uuid=_uuid.UUID(j["uuid"]), username=j.get("username"), email=j.get("email"),
            name=j.get("name"), institution=j.get("institution")))

    def tag(self, j):
        from soundevent import data
        return data.Tag(term=data.term_from_key(j["key"]), value=j["value"])

    def feature(self, j):
        from soundevent import data
        return data.Feature(term=data.term_from_key(j["key"]), value=_f(j["value"]))

    def note(self, j):
        from soundevent import data
        return data.Note(uuid=_uuid.UUID(j["uuid"]), message=j["message"], created_by=self.user(j.get("created_by")),
                         is_issue=j["is_issue"], created_on=_dt(j["created_on"]))

    def recording(self, j):
        from soundevent import data

        def mk(j):
            return data.Recording(
                uuid=_uuid.UUID(j["uuid"]), path=Path(j["path"]), duration=_f(j["duration"]),
                channels=int(_f(j["channels"])), samplerate=int(_f(j["samplerate"])),
                time_expansion=_f(j["time_expansion"]), hash=j.get("hash"),
                date=None if j.get("date") is None else datetime.date.fromisoformat(j["date"]),
                time=None if j.get("time") is None else datetime.time.fromisoformat(j["time"]),
                latitude=None if j.get("latitude") is None else _f(j["latitude"]),
                longitude=None if j.get("longitude") is None else _f(j["longitude"]),
                license=j.get("license"), owners=[self.user(u) for u in j["owners"]], rights=j.get("rights"),
                tags=[self.tag(t) for t in j["tags"]], features=[self.feature(f) for f in j["features"]],
                notes=[self.note(n) for n in j["notes"]])
        return self.shared("recording", j, mk)

    def clip(self, j):
        from soundevent import data
        return self.shared("clip", j, lambda j: data.Clip(
            uuid=_uuid.UUID(j["uuid"]), recording=self.recording(j["recording"]), start_time=_f(j["start_time"]),
            end_time=_f(j["end_time"]), features=[self.feature(f) for f in j["features"]]))

    def sound_event(self, j):
        from soundevent import data

        def mk(j):
            g = None
            if j.get("geometry") is not None:
                g = data.geometry_validate(json.loads(j["geometry"]), mode="dict")
            return data.SoundEvent(uuid=_uuid.UUID(j["uuid"]), geometry=g, recording=self.recording(j["recording"]),
                                   features=[self.feature(f) for f in j["features"]])
        return self.shared("sound_event", j, mk)

    def sequence(self, j):
        from soundevent import data
        if j is None:
            return None
        return self.shared("sequence", j, lambda j: data.Sequence(
            uuid=_uuid.UUID(j["uuid"]), sound_events=[self.sound_event(s) for s in j["sound_events"]],
            features=[self.feature(f) for f in j["features"]], parent=self.sequence(j.get("parent"))))

    def sea(self, j):
        from soundevent import data
        if j is None:
            return None
        return self.shared("sea", j, lambda j: data.SoundEventAnnotation(
            uuid=_uuid.UUID(j["uuid"]), sound_event=self.sound_event(j["sound_event"]),
            notes=[self.note(n) for n in j["notes"]], tags=[self.tag(t) for t in j["tags"]],
            created_by=self.user(j.get("created_by")), created_on=_dt(j["created_on"])))

    def sqa(self, j):
        from soundevent import data
        return self.shared("sqa", j, lambda j: data.SequenceAnnotation(
            uuid=_uuid.UUID(j["uuid"]), sequence=self.sequence(j["sequence"]),
            notes=[self.note(n) for n in j["notes"]], tags=[self.tag(t) for t in j["tags"]],
            created_by=self.user(j.get("created_by")), created_on=_dt(j["created_on"])))

    def ca(self, j):
        from soundevent import data
        return self.shared("ca", j, lambda j: data.ClipAnnotation(
            uuid=_uuid.UUID(j["uuid"]), clip=self.clip(j["clip"]), sound_events=[self.sea(a) for a in j["sound_events"]],
            sequences=[self.sqa(a) for a in j["sequences"]], tags=[self.tag(t) for t in j["tags"]],
            notes=[self.note(n) for n in j["notes"]], created_on=_dt(j["created_on"])))

    def ptag(self, j):
        from soundevent import data
        return data.PredictedTag(tag=self.tag(j["tag"]), score=_f(j["score"]))

    def sep(self, j):
        from soundevent import data
        if j is None:
            return None
        return self.shared("sep", j, lambda j: data.SoundEventPrediction(
            uuid=_uuid.UUID(j["uuid"]), sound_event=self.sound_event(j["sound_event"]), score=_f(j["score"]),
            tags=[self.ptag(t) for t in j["tags"]]))

    def sqp(self, j):
        from soundevent import data
        return self.shared("sqp", j, lambda j: data.SequencePrediction(
            uuid=_uuid.UUID(j["uuid"]), sequence=self.sequence(j["sequence"]), score=_f(j["score"]),
            tags=[self.ptag(t) for t in j["tags"]]))

    def cp(self, j):
        from soundevent import data
        return self.shared("cp", j, lambda j: data.ClipPrediction(
            uuid=_uuid.UUID(j["uuid"]), clip=self.clip(j["clip"]), sound_events=[self.sep(p) for p in j["sound_events"]],
            sequences=[self.sqp(p) for p in j["sequences"]], tags=[self.ptag(t) for t in j["tags"]],
            features=[self.feature(f) for f in j["features"]]))

    def task(self, j):
        from soundevent import data
        return self.shared("task", j, lambda j: data.AnnotationTask(
            uuid=_uuid.UUID(j["uuid"]), clip=self.clip(j["clip"]),
            status_badges=[data.StatusBadge(state=data.AnnotationState(b["state"]), owner=self.user(b.get("owner")),
                                            created_on=_dt(b["created_on"])) for b in j["status_badges"]],
            created_on=_dt(j["created_on"])))

    def match(self, j):
        from soundevent import data
        return self.shared("match", j, lambda j: data.Match(
            uuid=_uuid.UUID(j["uuid"]), source=self.sep(j.get("source")), target=self.sea(j.get("target")),
            affinity=_f(j["affinity"]), score=None if j.get("score") is None else _f(j["score"]),
            metrics=[self.feature(f) for f in j["metrics"]]))

    def ce(self, j):
        from soundevent import data
        return self.shared("ce", j, lambda j: data.ClipEvaluation(
            uuid=_uuid.UUID(j["uuid"]), annotations=self.ca(j["annotations"]), predictions=self.cp(j["predictions"]),
            matches=[self.match(m) for m in j["matches"]], metrics=[self.feature(f) for f in j["metrics"]],
            score=None if j.get("score") is None else _f(j["score"])))

    def collection(self, cj):
        from soundevent import data
        ty, v = cj["type"], cj["value"]
        u = _uuid.UUID(v["uuid"])
        co = _dt(v["created_on"])
        if ty in ("recording_set", "dataset"):
            recs = [self.recording(r) for r in v["recordings"]]
            if ty == "recording_set":
                return data.RecordingSet(uuid=u, recordings=recs, created_on=co)
            return data.Dataset(uuid=u, recordings=recs, created_on=co, name=v["name"], description=v.get("description"))
        if ty in ("annotation_set", "annotation_project", "evaluation_set"):
            cas = [self.ca(a) for a in v["clip_annotations"]]
            if ty == "annotation_set":
                return data.AnnotationSet(uuid=u, clip_annotations=cas, created_on=co)
            if ty == "annotation_project":
                return data.AnnotationProject(
                    uuid=u, clip_annotations=cas, created_on=co, name=v["name"], description=v.get("description"),
                    instructions=v.get("instructions"), annotation_tags=[self.tag(t) for t in v["annotation_tags"]],
                    tasks=[self.task(t) for t in v["tasks"]])
            return data.EvaluationSet(uuid=u, clip_annotations=cas, created_on=co, name=v["name"],
                                      description=v.get("description"),
                                      evaluation_tags=[self.tag(t) for t in v["evaluation_tags"]])
        if ty in ("prediction_set", "model_run"):
            cps = [self.cp(p) for p in v["clip_predictions"]]
            if ty == "prediction_set":
                return data.PredictionSet(uuid=u, clip_predictions=cps, created_on=co)
            return data.ModelRun(uuid=u, clip_predictions=cps, created_on=co, name=v["name"], version=v.get("version"),
                                 description=v.get("description"))
        if ty == "evaluation":
            return data.Evaluation(uuid=u, created_on=co, evaluation_task=v["evaluation_task"],
                                   clip_evaluations=[self.ce(e) for e in v["clip_evaluations"]],
                                   metrics=[self.feature(f) for f in v["metrics"]],
                                   score=None if v.get("score") is None else _f(v["score"]))
        raise ValueError(ty)


def build(cjson):
    return Builder().collection(cjson)


# ----------------------------------------------------------------------------- real objects -> model JSON
def _opt(x, f=lambda v: v):
    return None if x is None else f(x)


def _iso(x):
    return None if x is None else x.isoformat()


def d_user(u):
    if u is None:
        return None
    return {"uuid": str(u.uuid), "username": u.username, "email": _opt(u.email, str), "name": u.name,
            "institution": u.institution}


def d_tag(t):
    return {"key": t.term.label, "value": t.value}


def d_feature(f):
    return {"key": f.term.label, "value": num(f.value)}


def d_note(n):
    return {"uuid": str(n.uuid), "message": n.message, "created_by": d_user(n.created_by), "is_issue": bool(n.is_issue),
            "created_on": _iso(n.created_on)}


def d_recording(r):
    return {"uuid": str(r.uuid), "path": str(Path(r.path)), "duration": num(r.duration), "channels": num(r.channels),
            "samplerate": num(r.samplerate), "time_expansion": num(r.time_expansion), "hash": r.hash,
            "date": _iso(r.date), "time": _iso(r.time), "latitude": _opt(r.latitude, num),
            "longitude": _opt(r.longitude, num), "license": r.license, "owners": [d_user(u) for u in r.owners],
            "rights": r.rights, "tags": [d_tag(t) for t in r.tags], "features": [d_feature(f) for f in r.features],
            "notes": [d_note(n) for n in r.notes]}


def d_clip(c):
    return {"uuid": str(c.uuid), "recording": d_recording(c.recording), "start_time": num(c.start_time),
            "end_time": num(c.end_time), "features": [d_feature(f) for f in c.features]}


def d_se(s):
    return {"uuid": str(s.uuid), "geometry": geom_token(s.geometry), "recording": d_recording(s.recording),
            "features": [d_feature(f) for f in s.features]}


def d_seq(s):
    if s is None:
        return None
    return {"uuid": str(s.uuid), "sound_events": [d_se(x) for x in s.sound_events],
            "features": [d_feature(f) for f in s.features], "parent": d_seq(s.parent)}


def d_sea(a):
    if a is None:
        return None
    return {"uuid": str(a.uuid), "sound_event": d_se(a.sound_event), "notes": [d_note(n) for n in a.notes],
            "tags": [d_tag(t) for t in a.tags], "created_by": d_user(a.created_by), "created_on": _iso(a.created_on)}


def d_sqa(a):
    return {"uuid": str(a.uuid), "sequence": d_seq(a.sequence), "notes": [d_note(n) for n in a.notes],
            "tags": [d_tag(t) for t in a.tags], "created_by": d_user(a.created_by), "created_on": _iso(a.created_on)}


def d_ca(a):
    return {"uuid": str(a.uuid), "clip": d_clip(a.clip), "sound_events": [d_sea(x) for x in a.sound_events],
            "sequences": [d_sqa(x) for x in a.sequences], "tags": [d_tag(t) for t in a.tags],
            "notes": [d_note(n) for n in a.notes], "created_on": _iso(a.created_on)}


def d_ptag(p):
    return {"tag": d_tag(p.tag), "score": num(p.score)}


def d_sep(p):
    if p is None:
        return None
    return {"uuid": str(p.uuid), "sound_event": d_se(p.sound_event), "score": num(p.score),
            "tags": [d_ptag(t) for t in p.tags]}


def d_sqp(p):
    return {"uuid": str(p.uuid), "sequence": d_seq(p.sequence), "score": num(p.score),
            "tags": [d_ptag(t) for t in p.tags]}


def d_cp(p):
    return {"uuid": str(p.uuid), "clip": d_clip(p.clip), "sound_events": [d_sep(x) for x in p.sound_events],
            "sequences": [d_sqp(x) for x in p.sequences], "tags": [d_ptag(t) for t in p.tags],
            "features": [d_feature(f) for f in p.features]}


def d_task(t):
    return {"uuid": str(t.uuid), "clip": d_clip(t.clip),
            "status_badges": [{"state": b.state.value if hasattr(b.state, "value") else str(b.state),
                               "owner": d_user(b.owner), "created_on": _iso(b.created_on)} for b in t.status_badges],
            "created_on": _iso(t.created_on)}


def d_match(m):
    return {"uuid": str(m.uuid), "source": d_sep(m.source), "target": d_sea(m.target), "affinity": num(m.affinity),
            "score": _opt(m.score, num), "metrics": [d_feature(f) for f in m.metrics]}


def d_ce(e):
    return {"uuid": str(e.uuid), "annotations": d_ca(e.annotations), "predictions": d_cp(e.predictions),
            "matches": [d_match(m) for m in e.matches], "metrics": [d_feature(f) for f in e.metrics],
            "score": _opt(e.score, num)}


TYPE_OF_CLASS = [("Evaluation", "evaluation"), ("Dataset", "dataset"), ("AnnotationProject", "annotation_project"),
                 ("EvaluationSet", "evaluation_set"), ("ModelRun", "model_run"), ("AnnotationSet", "annotation_set"),
                 ("PredictionSet", "prediction_set"), ("RecordingSet", "recording_set")]


def dump(obj):
    """real collection object -> model JSON; the type is the object's *exact* class"""
    ty = dict(TYPE_OF_CLASS).get(type(obj).__name__)
    if ty is None:
        raise TypeError("not a collection: %r" % type(obj))
    v = {"uuid": str(obj.uuid), "created_on": _iso(obj.created_on)}
    if ty in ("recording_set", "dataset"):
        v["recordings"] = [d_recording(r) for r in obj.recordings]
    if ty in ("annotation_set", "annotation_project", "evaluation_set"):
        v["clip_annotations"] = [d_ca(a) for a in obj.clip_annotations]
    if ty in ("prediction_set", "model_run"):
        v["clip_predictions"] = [d_cp(p) for p in obj.clip_predictions]
    if ty in ("dataset", "annotation_project", "evaluation_set", "model_run"):
        v["name"] = obj.name
        v["description"] = obj.description
    if ty == "annotation_project":
        v["instructions"] = obj.instructions
        v["annotation_tags"] = [d_tag(t) for t in obj.annotation_tags]
        v["tasks"] = [d_task(t) for t in obj.tasks]
    if ty == "evaluation_set":
        v["evaluation_tags"] = [d_tag(t) for t in obj.evaluation_tags]
    if ty == "model_run":
        v["version"] = obj.version
    if ty == "evaluation":
        v["evaluation_task"] = obj.evaluation_task
        v["clip_evaluations"] = [d_ce(e) for e in obj.clip_evaluations]
        v["metrics"] = [d_feature(f) for f in obj.metrics]
        v["score"] = _opt(obj.score, num)
    return {"type": ty, "value": v}


# ----------------------------------------------------------------------------- written document -> Doc JSON
def _n(x):
    return None if x is None else num(x)


def _ts(x):
    if x is None:
        return None
    return datetime.datetime.fromisoformat(x.replace("Z", "+00:00")).isoformat()


def _dict(d):
    return None if d is None else [{"key": k, "value": num(v)} for k, v in d.items()]


def _notes(ns):
    if ns is None:
        return None
    return [{"uuid": n["uuid"], "message": n["message"], "created_by": n.get("created_by"),
             "is_issue": n.get("is_issue", False), "created_on": _ts(n.get("created_on"))} for n in ns]


def _stags(ts):
    return None if ts is None else [{"id": t[0], "score": num(t[1])} for t in ts]


def _time(x):
    return None if x is None else datetime.time.fromisoformat(x).isoformat()


def doc_to_model(d):
    """`data` of a written AOEF file (parsed JSON) -> Lean `Doc` JSON"""
    g = d.get
    out = {"collection_type": d["collection_type"], "uuid": d["uuid"], "created_on": _ts(g("created_on"))}

    def each(key, f):
        out[key] = None if g(key) is None else [f(x) for x in d[key]]
    each("users", lambda u: {k: u.get(k) for k in ("uuid", "username", "email", "name", "institution")})
    each("tags", lambda t: {"id": t["id"], "key": t["key"], "value": t["value"]})
    each("recordings", lambda r: {
        "uuid": r["uuid"], "path": str(Path(r["path"])), "duration": num(r["duration"]), "channels": num(r["channels"]),
        "samplerate": num(r["samplerate"]), "time_expansion": _n(r.get("time_expansion")), "hash": r.get("hash"),
        "date": r.get("date"), "time": _time(r.get("time")), "latitude": _n(r.get("latitude")),
        "longitude": _n(r.get("longitude")), "tags": r.get("tags"), "features": _dict(r.get("features")),
        "notes": _notes(r.get("notes")), "owners": r.get("owners"), "rights": r.get("rights"),
        "license": r.get("license")})
    each("clips", lambda c: {"uuid": c["uuid"], "recording": c["recording"], "start_time": num(c["start_time"]),
                             "end_time": num(c["end_time"]), "features": _dict(c.get("features"))})
    each("sound_events", lambda s: {"uuid": s["uuid"], "recording": s["recording"],
                                    "geometry": geom_token(s.get("geometry")), "features": _dict(s.get("features"))})
    each("sequences", lambda s: {"uuid": s["uuid"], "sound_events": s["sound_events"],
                                 "features": _dict(s.get("features")), "parent": s.get("parent")})
    ann = lambda ref: (lambda a: {"uuid": a["uuid"], ref: a[ref], "notes": _notes(a.get("notes")), "tags": a.get("tags"),
                                  "created_by": a.get("created_by"), "created_on": _ts(a.get("created_on"))})
    each("sound_event_annotations", ann("sound_event"))
    each("sequence_annotations", ann("sequence"))
    each("clip_annotations", lambda a: {"uuid": a["uuid"], "clip": a["clip"], "tags": a.get("tags"),
                                        "sound_events": a.get("sound_events"), "sequences": a.get("sequences"),
                                        "notes": _notes(a.get("notes")), "created_on": _ts(a.get("created_on"))})
    pred = lambda ref: (lambda p: {"uuid": p["uuid"], ref: p[ref], "score": num(p["score"]), "tags": _stags(p.get("tags"))})
    each("sound_event_predictions", pred("sound_event"))
    each("sequence_predictions", pred("sequence"))
    each("clip_predictions", lambda p: {"uuid": p["uuid"], "clip": p["clip"], "sound_events": p.get("sound_events"),
                                        "sequences": p.get("sequences"), "tags": _stags(p.get("tags")),
                                        "features": _dict(p.get("features"))})
    each("clip_evaluations", lambda e: {"uuid": e["uuid"], "annotations": e["annotations"], "predictions": e["predictions"],
                                        "matches": e.get("matches"), "metrics": _dict(e.get("metrics")),
                                        "score": _n(e.get("score"))})
    each("matches", lambda m: {"uuid": m["uuid"], "source": m.get("source"), "target": m.get("target"),
                               "affinity": num(m["affinity"]), "score": _n(m.get("score")),
                               "metrics": _dict(m.get("metrics"))})
    each("tasks", lambda t: {"uuid": t["uuid"], "clip": t["clip"],
                             "status_badges": None if t.get("status_badges") is None else [
                                 {"state": b["state"], "owner": b.get("owner"), "created_on": _ts(b.get("created_on"))}
                                 for b in t["status_badges"]],
                             "created_on": _ts(t.get("created_on"))})
    out["project_tags"] = g("project_tags")
    out["evaluation_tags"] = g("evaluation_tags")
    for k in ("name", "description", "instructions", "version", "evaluation_task"):
        out[k] = g(k)
    out["metrics"] = _dict(g("metrics"))
    out["score"] = _n(g("score"))
    return out


DOC_LISTS = ["users", "tags", "recordings", "clips", "sound_events", "sequences", "sound_event_annotations",
             "sequence_annotations", "clip_annotations", "sound_event_predictions", "sequence_predictions",
             "clip_predictions", "clip_evaluations", "matches", "tasks"]
# lists whose order is the order of the collection's own member list (kept), per collection type
MEMBER_LISTS = {"recording_set": ["recordings"], "dataset": ["recordings"], "annotation_set": ["clip_annotations"],
                "annotation_project": ["clip_annotations", "tasks"], "evaluation_set": ["clip_annotations"],
                "prediction_set": ["clip_predictions"], "model_run": ["clip_predictions"], "evaluation": []}
KNOWN_DOC_KEYS = set(DOC_LISTS) | {"collection_type", "uuid", "created_on", "project_tags", "evaluation_tags", "name",
                                   "description", "instructions", "version", "evaluation_task", "metrics", "score"}


def _strip_nulls(x):
    if isinstance(x, dict):
        return {k: _strip_nulls(v) for k, v in x.items() if v is not None}
    if isinstance(x, list):
        return [_strip_nulls(v) for v in x]
    return x


def _strip_empty(x):
    if isinstance(x, dict):
        y = {k: _strip_empty(v) for k, v in x.items()}
        return {k: v for k, v in y.items() if v is not None and v != [] and v != {}}
    if isinstance(x, list):
        return [_strip_empty(v) for v in x]
    return x


def canon_doc(doc):
    """canonical form of a Doc JSON (model layout): what the property pins and nothing else
    (absent and empty optional lists are not distinguished: representation, not content)"""
    d = _strip_empty(doc)
    tags = d.get("tags") or []
    order = sorted(range(len(tags)), key=lambda i: (tags[i]["key"], tags[i]["value"], i))
    remap = {}
    for new, i in enumerate(order):
        remap.setdefault(tags[i]["id"], new)

    def rid(i):
        return remap.get(i, "dangling:%s" % i)
    if "tags" in d:
        d["tags"] = [{"id": rid(tags[i]["id"]), "key": tags[i]["key"], "value": tags[i]["value"]} for i in order]
    for key in ("recordings", "sound_event_annotations", "sequence_annotations", "clip_annotations"):
        for o in d.get(key, []):
            if "tags" in o:
                o["tags"] = [rid(i) for i in o["tags"]]
    for key in ("sound_event_predictions", "sequence_predictions", "clip_predictions"):
        for o in d.get(key, []):
            if "tags" in o:
                o["tags"] = [{"id": rid(t["id"]), "score": t["score"]} for t in o["tags"]]
    for key in ("project_tags", "evaluation_tags"):
        if key in d:
            d[key] = [rid(i) for i in d[key]]
    keep = MEMBER_LISTS.get(d.get("collection_type"), [])
    for key in DOC_LISTS:
        if key in d and key != "tags" and key not in keep:
            d[key] = sorted(d[key], key=lambda o: o["uuid"])
    return d


def diff(a, b, path=""):
    """first difference between two JSON values, as a short message"""
    if type(a) != type(b):
        return f"{path}: {json.dumps(a)[:120]} != {json.dumps(b)[:120]}"
    if isinstance(a, dict):
        for k in sorted(set(a) | set(b)):
            if k not in a:
                return f"{path}.{k}: missing in first (second has {json.dumps(b[k])[:100]})"
            if k not in b:
                return f"{path}.{k}: missing in second (first has {json.dumps(a[k])[:100]})"
            r = diff(a[k], b[k], f"{path}.{k}")
            if r:
                return r
        return None
    if isinstance(a, list):
        if len(a) != len(b):
            return f"{path}: lengths {len(a)} != {len(b)}"
        for i, (x, y) in enumerate(zip(a, b)):
            r = diff(x, y, f"{path}[{i}]")
            if r:
                return r
        return None
    return None if a == b else f"{path}: {json.dumps(a)[:120]} != {json.dumps(b)[:120]}"


# ----------------------------------------------------------------------------- Doc JSON (model layout) -> AOEF file
def _undict(d):
    return None if d is None else {e["key"]: float(e["value"]) for e in d}


def _fl(x):
    return None if x is None else float(x)


def model_to_doc(m):
    """inverse of `doc_to_model`: the `data` member of an AOEF file (plain JSON, nulls dropped)"""
    g = m.get
    out = {"collection_type": m["collection_type"], "uuid": m["uuid"], "created_on": g("created_on")}

    def each(key, f):
        if g(key) is not None:
            out[key] = [f(x) for x in m[key]]
    notes = lambda ns: None if ns is None else [dict(n) for n in ns]
    each("users", dict)
    each("tags", dict)
    each("recordings", lambda r: {**r, "duration": _fl(r["duration"]), "channels": int(float(r["channels"])),
                                  "samplerate": int(float(r["samplerate"])), "time_expansion": _fl(r.get("time_expansion")),
                                  "latitude": _fl(r.get("latitude")), "longitude": _fl(r.get("longitude")),
                                  "features": _undict(r.get("features")), "notes": notes(r.get("notes"))})
    each("clips", lambda c: {**c, "start_time": _fl(c["start_time"]), "end_time": _fl(c["end_time"]),
                             "features": _undict(c.get("features"))})
    each("sound_events", lambda s: {**s, "geometry": None if s.get("geometry") is None else json.loads(s["geometry"]),
                                    "features": _undict(s.get("features"))})
    each("sequences", lambda s: {**s, "features": _undict(s.get("features"))})
    each("sound_event_annotations", lambda a: {**a, "notes": notes(a.get("notes"))})
    each("sequence_annotations", lambda a: {**a, "notes": notes(a.get("notes"))})
    each("clip_annotations", lambda a: {**a, "notes": notes(a.get("notes"))})
    stags = lambda ts: None if ts is None else [[t["id"], float(t["score"])] for t in ts]
    each("sound_event_predictions", lambda p: {**p, "score": _fl(p["score"]), "tags": stags(p.get("tags"))})
    each("sequence_predictions", lambda p: {**p, "score": _fl(p["score"]), "tags": stags(p.get("tags"))})
    each("clip_predictions", lambda p: {**p, "tags": stags(p.get("tags")), "features": _undict(p.get("features"))})
    each("clip_evaluations", lambda e: {**e, "metrics": _undict(e.get("metrics")), "score": _fl(e.get("score"))})
    each("matches", lambda x: {**x, "affinity": _fl(x["affinity"]), "score": _fl(x.get("score")),
                               "metrics": _undict(x.get("metrics"))})
    each("tasks", lambda t: {**t, "status_badges": None if t.get("status_badges") is None
                             else [dict(b) for b in t["status_badges"]]})
    for k in ("project_tags", "evaluation_tags", "name", "description", "instructions", "version", "evaluation_task"):
        out[k] = g(k)
    out["metrics"] = _undict(g("metrics"))
    out["score"] = _fl(g("score"))
    return _strip_nulls(out)


def aoef_file(data):
    return {"version": "1.1.0", "created_on": "2024-01-01T00:00:00", "data": data}
