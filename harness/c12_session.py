"""C12 — histories and construction paths (HISTORIES.md): the live side.

A *session* is a sequence of steps in one process on numbered slots holding geometry objects and clips:

  {"do": "set",    "slot": k, "g": <geometry JSON>, "how": HOW, "build": BUILD}
        the slot carries `g` from now on.  HOW = "new" (a fresh object, constructed through BUILD) or one of
        GEOM_CHANGES: the object the slot holds is *changed* to carry `g` (same geometry type) - attribute
        assignment, model_copy(update=...), copy + assignment, in-place edit of the coordinate list ...
  {"do": "derive", "slot": dst, "src": k, "g": ..., "how": HOW}
        a new object is derived from the one in slot `src` (model_copy(update=...) / copy + assignment) and put in
        slot `dst`; slot `src` keeps its object and content.
  {"do": "clip",   "slot": k, "start": s, "end": e, "how": HOW, "num": NUM, "uuid": n}
  {"do": "touch",  "slot": k, "what": WHAT}      the object is used without being changed (compute_bounds, repr ...);
                                                 nothing is judged, the step only makes history
  {"do": "intervals", "i1", "i2", "abs", "rel", "box": BOX, "form": FORM}
  {"do": "temporal" | "frequency", "a": i, "b": j, "abs", "rel", "form": FORM}
  {"do": "in_clip", "a": i, "clip": c, "min": m | null, "form": FORM}

The Lean model (`SE.Intervals.runSession`) maps every "set" / "derive" / "clip" to a write of the slot and answers
every call with the base predicate on the content the slots carry at that moment (C12_session_answer,
C12_session_reads_transparent, C12_session_fresh): HOW, BUILD, WHAT, FORM do not exist on the model side.
The expected content of a slot is the JSON of the step, never read back from the object.

If the library refuses a way of changing an object (e.g. geometries become frozen), the change is carried out by
constructing a fresh object instead: forbidding mutation does not violate the property.
"""
import copy
import json
from types import SimpleNamespace

from . import gen_geom
from .core import canon_exc
from .rat import frac

GEOM_BUILDS = ["validate", "class", "json", "model_validate", "model_validate_json", "attributes", "attributes_nt", "int",
               "numpy", "tuple", "copy", "deepcopy", "roundtrip", "subclass"]
GEOM_CHANGES = ["assign", "assign_tuple", "assign_int", "copy_update", "deep_copy_update", "deepcopy_assign",
                "copy_assign", "model_copy_assign", "inplace", "revalidate"]
GEOM_DERIVES = ["copy_update", "deep_copy_update", "deepcopy_assign", "copy_assign", "model_copy_assign"]
CLIP_HOWS = ["new", "same_uuid", "assign", "copy_update", "deep_copy_update", "copy_assign", "validate", "json", "subclass"]
CLIP_NUMS = ["float", "int", "numpy"]
TOUCHES = ["compute_bounds", "compute_bounds_poison", "shapely", "repr", "dump", "dump_json", "eq", "deepcopy",
           "model_copy", "temporal_self", "in_clip_self"]
FORMS = ["kw", "pos", "kw_rev", "mixed", "explicit_none"]
BOXES = ["tuple", "list", "ndarray", "namedtuple"]
FALLBACKS = {}      # construction / change paths the data model refused (tallied by the check, never a verdict)


def _conv(c, f):
    return [_conv(x, f) for x in c] if isinstance(c, list) else f(c)


def _tuples(c):
    return tuple(_tuples(x) for x in c) if isinstance(c, list) else c


def _intish(x):
    return int(x) if float(x).is_integer() else x


_SUB = {}


def _subclass(cls):
    if cls not in _SUB:
        from typing import ClassVar
        _SUB[cls] = type(cls.__name__, (cls,), {"__module__": __name__, "__annotations__": {"note": ClassVar[str]},
                                                "note": "class-level attribute"})
    return _SUB[cls]


def build_geom(gj, how="validate"):
    """a geometry object carrying `gj`, through one of the construction paths of the data model; a path the data
    model does not (any longer) offer is not C12's business: the plain validated object is used instead"""
    if how != "validate":
        try:
            return _build_geom(gj, how)
        except Exception:  # noqa: BLE001
            FALLBACKS["geometry:" + how] = FALLBACKS.get("geometry:" + how, 0) + 1
    return gen_geom.to_data(gj)


def _build_geom(gj, how):
    from soundevent import data
    cls = getattr(data, gj["type"])
    c = gen_geom.coords_float(gj)
    if how == "class":
        return cls(coordinates=c)
    if how == "json":
        return data.geometry_validate(json.dumps({"type": gj["type"], "coordinates": c}), mode="json")
    if how == "model_validate":
        return cls.model_validate({"type": gj["type"], "coordinates": c})
    if how == "model_validate_json":
        return cls.model_validate_json(json.dumps({"coordinates": c, "type": gj["type"]}))
    if how == "attributes":
        return data.geometry_validate(SimpleNamespace(type=gj["type"], coordinates=c), mode="attributes")
    if how == "attributes_nt":          # an attributes object that is not a plain namespace
        from collections import namedtuple
        return data.geometry_validate(namedtuple("G", ["coordinates", "type"])(c, gj["type"]), mode="attributes")
    if how == "subclass":               # a user's subclass of the geometry class (same type tag)
        return _subclass(cls)(coordinates=c)
    if how == "int":
        return cls(coordinates=_conv(c, _intish))
    if how == "numpy":
        import numpy as np
        return cls(coordinates=_conv(c, np.float64))
    if how == "tuple":
        return cls(coordinates=_tuples(c))
    if how == "copy":
        return gen_geom.to_data(gj).model_copy()
    if how == "deepcopy":
        return copy.deepcopy(gen_geom.to_data(gj))
    if how == "roundtrip":
        return cls.model_validate(gen_geom.to_data(gj).model_dump())
    return gen_geom.to_data(gj)


def change_geom(obj, gj, how, owned):
    """the object `obj` changed to carry `gj` (same type): returns (object, owns its coordinate list)"""
    c = gen_geom.coords_float(gj)
    if how == "assign":
        obj.coordinates = c
    elif how == "assign_tuple":
        obj.coordinates = _tuples(c)
    elif how == "assign_int":
        obj.coordinates = _conv(c, _intish)
    elif how == "copy_update":
        obj = obj.model_copy(update={"coordinates": c})
    elif how == "deep_copy_update":
        obj = obj.model_copy(update={"coordinates": c}, deep=True)
    elif how == "deepcopy_assign":
        obj = copy.deepcopy(obj)
        obj.coordinates = c
    elif how == "copy_assign":
        obj = copy.copy(obj)
        obj.coordinates = c
    elif how == "model_copy_assign":
        obj = obj.model_copy()
        obj.coordinates = c
    elif how == "inplace" and owned and isinstance(obj.coordinates, list) and isinstance(c, list):
        obj.coordinates[:] = c          # the caller edits the list the object holds
    elif how == "revalidate":
        obj = type(obj).model_validate({**obj.model_dump(), "coordinates": c})
    else:
        obj.coordinates = c
    return obj, True


_REC = None


def recording():
    global _REC
    if _REC is None:
        from soundevent import data
        _REC = data.Recording(path="rec.wav", duration=100.0, channels=1, samplerate=8000)
    return _REC


def _num(s, how):
    q = frac(s)
    if how == "int" and q.denominator == 1:
        return int(q)
    if how == "numpy":
        import numpy as np
        return np.float64(float(q))
    return float(q)


_UUIDS = {}


def _uuid(n):
    import uuid
    if n not in _UUIDS:
        _UUIDS[n] = uuid.UUID(int=0xC12000 + int(n))
    return _UUIDS[n]


def build_clip(step, old=None):
    """a clip [start, end]: a fresh one, or the clip the slot holds changed to the new times (a construction path
    the data model does not offer falls back to the constructor)"""
    try:
        return _build_clip(step, old)
    except Exception:  # noqa: BLE001
        from soundevent import data
        FALLBACKS["clip:" + str(step.get("how"))] = FALLBACKS.get("clip:" + str(step.get("how")), 0) + 1
        return data.Clip(recording=recording(), start_time=float(frac(step["start"])), end_time=float(frac(step["end"])))


def _build_clip(step, old=None):
    from soundevent import data
    how, num = step.get("how", "new"), step.get("num", "float")
    s, e = _num(step["start"], num), _num(step["end"], num)
    if old is not None:
        try:
            if how == "assign":
                old.start_time, old.end_time = s, e
                return old
            if how == "copy_update":
                return old.model_copy(update={"start_time": s, "end_time": e})
            if how == "deep_copy_update":
                return old.model_copy(update={"start_time": s, "end_time": e}, deep=True)
            if how == "copy_assign":
                new = copy.copy(old)
                new.end_time, new.start_time = e, s
                return new
        except Exception:  # noqa: BLE001 - the library refuses this way of changing a clip: construct instead
            pass
    kw = {}
    if how == "same_uuid" or step.get("uuid") is not None:
        kw["uuid"] = _uuid(step.get("uuid") or 0)
    if how == "subclass":
        return _subclass(data.Clip)(recording=recording(), start_time=s, end_time=e, **kw)
    if how == "validate":
        return data.Clip.model_validate({"recording": recording(), "start_time": s, "end_time": e, **kw})
    if how == "json":
        base = data.Clip(recording=recording(), start_time=float(s), end_time=float(e), **kw)
        return data.Clip.model_validate_json(base.model_dump_json())
    return data.Clip(recording=recording(), start_time=s, end_time=e, **kw)


def _fn(name):
    import soundevent.geometry as G
    from soundevent.geometry import operations as ops
    fn = getattr(G, name, None)
    return fn if fn is not None else getattr(ops, name)


def _touch(obj, what, env):
    """use the object without changing it; whatever happens is not judged"""
    try:
        if what in ("compute_bounds", "compute_bounds_poison"):
            b = _fn("compute_bounds")(obj)
            if what.endswith("poison"):
                try:          # a caller that edits what it got back (only possible if it is mutable)
                    b[0] = b[0] + 1000.0
                    b[2] = b[2] + 1000.0
                except TypeError:
                    pass
        elif what == "shapely":
            _fn("geometry_to_shapely")(obj).bounds
        elif what == "repr":
            repr(obj)
        elif what == "dump":
            obj.model_dump()
        elif what == "dump_json":
            obj.model_dump_json()
        elif what == "eq":
            obj == obj  # noqa: B015
        elif what == "deepcopy":
            copy.deepcopy(obj)
        elif what == "model_copy":
            obj.model_copy()
        elif what == "temporal_self":
            _fn("have_temporal_overlap")(obj, obj)
        elif what == "in_clip_self":
            c = env.get("any_clip")
            if c is not None:
                _fn("is_in_clip")(obj, c)
    except Exception:  # noqa: BLE001
        pass


def threshold_call(a, r, form):
    """positional and keyword arguments of a call passing the thresholds (a, r) in the form asked for; forms that
    cannot express (a, r) fall back to plain keywords"""
    A, R = "min_absolute_overlap", "min_relative_overlap"
    if form == "pos":
        if r is not None:
            return [a, r], {}
        if a is not None:
            return [a], {}
    elif form == "mixed" and a is not None and r is not None:
        return [a], {R: r}
    elif form == "kw_rev":
        return [], {k: v for k, v in ((R, r), (A, a)) if v is not None}
    elif form == "explicit_none":
        return [], {R: r, A: a}
    return [], {k: v for k, v in ((A, a), (R, r)) if v is not None}


_NT = []


def _interval_nt():
    if not _NT:
        from collections import namedtuple
        _NT.append(namedtuple("Interval", ["start", "stop"]))
    return _NT[0]


def _box(vals, how):
    if how == "list":
        return list(vals)
    if how == "ndarray":
        import numpy as np
        return np.array(vals, dtype=float)
    if how == "namedtuple":
        return _interval_nt()(*vals)
    return tuple(vals)


def _snap_geom(g):
    return (type(g).__name__, copy.deepcopy(g.coordinates) if not isinstance(g.coordinates, tuple) else g.coordinates)


def _snap_clip(c):
    return (c.start_time, c.end_time, str(c.uuid))


def _same(a, b):
    try:
        import numpy as np
        if isinstance(a, np.ndarray) or isinstance(b, np.ndarray):
            return bool(np.array_equal(a, b))
    except Exception:  # noqa: BLE001
        pass
    return a == b


def _answer(call, args_snap, snap_again):
    try:
        r1 = bool(call())
        out = {"val": r1}
    except Exception as e:  # noqa: BLE001 - an exception of the real code is the answer of this step
        out = canon_exc(e)
    after = snap_again()
    if len(after) != len(args_snap) or not all(_same(x, y) for x, y in zip(args_snap, after)):
        out["argument_mutated"] = True
    return out


def run_session(inp):
    geoms, owned, clips = {}, {}, {}
    outs = []
    env = {}
    f = lambda s: None if s is None else float(frac(s))  # noqa: E731
    for step in inp["steps"]:
        do = step["do"]
        if do in ("set", "derive"):
            k = step["slot"]
            src = step.get("src", k) if do == "derive" else k
            how = step.get("how", "new")
            old = geoms.get(src)
            new = None
            if how != "new" and old is not None and type(old).__name__ == step["g"]["type"]:
                try:
                    if do == "derive" and how not in GEOM_DERIVES:
                        how = "copy_update"
                    new, own = change_geom(old, step["g"], how, owned.get(src, False))
                except Exception:  # noqa: BLE001 - the library refuses this way of changing a geometry
                    new = None
                    FALLBACKS["change:" + how] = FALLBACKS.get("change:" + how, 0) + 1
            if new is None:
                new, own = build_geom(step["g"], step.get("build", "validate")), True
            geoms[k], owned[k] = new, own
            outs.append(None)
        elif do == "clip":
            k = step["slot"]
            clips[k] = build_clip(step, clips.get(k))
            env["any_clip"] = clips[k]
            outs.append(None)
        elif do == "touch":
            if step["slot"] in geoms:
                _touch(geoms[step["slot"]], step.get("what", "compute_bounds"), env)
            outs.append(None)
        elif do == "intervals":
            conv = step.get("num", "float")
            i1 = _box([_numx(x, conv) for x in step["i1"]], step.get("box", "tuple"))
            i2 = _box([_numx(x, conv) for x in step["i2"]], step.get("box", "tuple"))
            pos, kw = threshold_call(_numx(step["abs"], conv), _numx(step["rel"], conv), step.get("form", "kw"))
            fn = _fn("intervals_overlap")
            snap = lambda: [copy.copy(i1), copy.copy(i2)]  # noqa: E731
            outs.append(_answer(lambda: fn(i1, i2, *pos, **kw), snap(), snap))
        elif do in ("temporal", "frequency"):
            g1, g2 = geoms[step["a"]], geoms[step["b"]]
            pos, kw = threshold_call(f(step["abs"]), f(step["rel"]), step.get("form", "kw"))
            fn = _fn("have_temporal_overlap" if do == "temporal" else "have_frequency_overlap")
            snap = lambda: [_snap_geom(g1), _snap_geom(g2)]  # noqa: E731
            outs.append(_answer(lambda: fn(g1, g2, *pos, **kw), snap(), snap))
        elif do == "in_clip":
            g, c = geoms[step["a"]], clips[step["clip"]]
            m = f(step.get("min"))
            fn = _fn("is_in_clip")
            snap = lambda: [_snap_geom(g), _snap_clip(c)]  # noqa: E731
            if m is None:
                call = lambda: fn(g, c)  # noqa: E731
            elif step.get("form") == "pos":
                call = lambda: fn(g, c, m)  # noqa: E731
            else:
                call = lambda: fn(g, c, minimum_overlap=m)  # noqa: E731
            outs.append(_answer(call, snap(), snap))
        else:
            raise AssertionError(f"unknown session step {do!r}")
    return {"val": outs}


def _numx(s, how):
    if s is None:
        return None
    q = frac(s)
    if how == "int" and q.denominator == 1:
        return int(q)
    if how == "numpy":
        import numpy as np
        return np.float64(float(q))
    if how == "frac":
        return q
    return float(q)


def compare_session(inp, io, mo):
    """step by step; the first call whose answer is not the base predicate on the current content"""
    if io == mo:
        return None
    if not (isinstance(io, dict) and isinstance(mo, dict) and "val" in io and "val" in mo
            and len(io["val"]) == len(mo["val"]) == len(inp["steps"])):
        return "session: implementation and model disagree"
    trail = []
    for k, (step, a, b) in enumerate(zip(inp["steps"], io["val"], mo["val"])):
        do = step["do"]
        if do in ("set", "derive", "clip"):
            trail.append(f"{do}[{step['slot']}]:{step.get('how', 'new')}")
        elif do == "touch":
            trail.append(f"touch[{step['slot']}]:{step.get('what')}")
        else:
            trail.append(do)
        if a == b:
            continue
        if isinstance(a, dict) and a.get("argument_mutated"):
            return f"step {k} ({do}): the call changed one of its arguments in place (after {' -> '.join(trail)})"
        return (f"step {k} ({do}) answers {a} but the objects carry content for which the predicate is {b} "
                f"(history: {' -> '.join(trail)})")
    return "session: implementation and model disagree"
