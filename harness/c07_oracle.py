"""C07: the affinity of a pair of geometries stated independently of the code under test (HISTORIES.md section 5).

Nothing in this module imports `soundevent`.  The expected affinity matrix of a call comes from

* the Lean model (`SE.MatchCall.closedAffinity`, operation `closed_matrix` of the driver) for every pair whose
  affinity has a closed form in the coordinates and the buffers: TimeStamp / TimeInterval / BoundingBox against each
  other, and a time geometry against a Polygon / MultiPolygon (time branch: the polygon's time bounds);
* GEOS, called here directly on shapes built from the coordinates, for the rest: polygons in the area branch, and
  the point / line types, which are buffered by the recipe the C11 model states (scale by 1 / buffer, buffer by 1
  with round caps and mitre joins, scale back, clip to the valid domain).

Tolerances: 2^-40 for closed-form and unbuffered GEOS entries (the code computes in binary64), 2^-20 for entries
that involve a GEOS-buffered shape (the exact outline of such a buffer is not something C07 pins; a stale or
ignored buffer moves the affinity by orders of magnitude more).
"""
from fractions import Fraction

from .rat import rat, frac

MAXF = 5_000_000
TAU_TIGHT = Fraction(1, 2 ** 40)
TAU_LOOSE = Fraction(1, 2 ** 20)
GEOS_BUFFERED = ("Point", "MultiPoint", "LineString", "MultiLineString")
TIME = ("TimeStamp", "TimeInterval")
_SHAPES = {}
_MATRICES = {}


def _coords(gj):
    def dec(c):
        return [dec(x) for x in c] if isinstance(c, list) else float(frac(c))
    return dec(gj["coordinates"])


def _raw_shape(gj):
    """shapely geometry of an (unbuffered) Point/Line/Polygon/Box from its coordinates"""
    import shapely
    from shapely import geometry as sg
    ty, c = gj["type"], _coords(gj)
    if ty == "Point":
        return sg.Point(c)
    if ty == "MultiPoint":
        return sg.MultiPoint(c)
    if ty == "LineString":
        return sg.LineString(c)
    if ty == "MultiLineString":
        return sg.MultiLineString(c)
    if ty == "Polygon":
        return sg.Polygon(c[0], c[1:])
    if ty == "MultiPolygon":
        return sg.MultiPolygon([sg.Polygon(p[0], p[1:]) for p in c])
    if ty == "BoundingBox":
        return sg.box(c[0], c[1], c[2], c[3])
    if ty == "TimeInterval":
        return sg.box(c[0], 0, c[1], MAXF)
    if ty == "TimeStamp":
        return shapely.linestrings([[c, 0], [c, MAXF]])
    raise ValueError(ty)


def _buffered_shape(gj, tb, fb):
    """the recipe of the C11 model (`SE.Buf.scalePt` / `unscalePt` / `clipRect`), on GEOS directly"""
    import numpy as np
    import shapely
    factor = np.array([1 / tb if tb > 0 else 1e9, 1 / fb if fb > 0 else 1e9])
    g = shapely.transform(_raw_shape(gj), lambda x: x * factor)
    g = shapely.buffer(g, 1, cap_style="round", join_style="mitre")
    g = shapely.transform(g, lambda x: x / factor)
    return shapely.clip_by_rect(g, 0, 0, g.bounds[2] + 1, MAXF)


def _prepared(gj, tb, fb):
    """('interval', s, e) | ('shape', shapely geometry, is_time=False) as `compute_affinity` sees the geometry"""
    ty = gj["type"]
    key = (ty, repr(gj["coordinates"]), tb if ty in GEOS_BUFFERED or ty == "TimeStamp" else None,
           fb if ty in GEOS_BUFFERED else None)
    if key not in _SHAPES:
        if len(_SHAPES) > 20000:
            _SHAPES.clear()
        if ty == "TimeStamp":
            t = _coords(gj)
            _SHAPES[key] = ("interval", max(t - tb, 0), t + tb)
        elif ty == "TimeInterval":
            s, e = _coords(gj)
            _SHAPES[key] = ("interval", s, e)
        elif ty in GEOS_BUFFERED:
            _SHAPES[key] = ("shape", _buffered_shape(gj, tb, fb))
        else:
            _SHAPES[key] = ("shape", _raw_shape(gj))
    return _SHAPES[key]


def _geos_affinity(g, h, tb, fb):
    a, b = _prepared(g, tb, fb), _prepared(h, tb, fb)
    if a[0] == "interval" or b[0] == "interval":
        def ext(p):
            if p[0] == "interval":
                return p[1], p[2]
            bd = p[1].bounds
            return bd[0], bd[2]
        (s1, e1), (s2, e2) = ext(a), ext(b)
        inter = max(0, min(e1, e2) - max(s1, s2))
        union = (e1 - s1) + (e2 - s2) - inter
        return 0.0 if union == 0 else inter / union
    inter = a[1].intersection(b[1]).area
    union = a[1].area + b[1].area - inter
    return 0.0 if union == 0 else min(inter / union, 1.0)


def pair_tau(g, h):
    return TAU_LOOSE if g["type"] in GEOS_BUFFERED or h["type"] in GEOS_BUFFERED else TAU_TIGHT


def matrix(model, source, target, tb, fb):
    """the independent affinity matrix of a call: {"matrix": rows of exact rational strings, "tau": Fraction,
    "closed": number of closed-form entries, "geos": number of GEOS entries} or {"raise": ...}.
    `model(op, args)` reaches the Lean driver."""
    from .core import jkey
    k = jkey([source, target, tb, fb])
    if k in _MATRICES:
        return _MATRICES[k]
    if len(_MATRICES) > 4096:
        _MATRICES.clear()
    r = model("closed_matrix", {"source": source, "target": target, "tb": tb, "fb": fb})
    if "raise" in r:
        out = {"raise": r["raise"]}
    else:
        tbf, fbf = float(frac(tb)), float(frac(fb))
        rows, tau, closed, geos = [], TAU_TIGHT, 0, 0
        for i, g in enumerate(source):
            row = []
            for j, h in enumerate(target):
                x = r["matrix"][i][j]
                if x is None:
                    x = rat(float(_geos_affinity(g, h, tbf, fbf)))
                    tau = max(tau, pair_tau(g, h))
                    geos += 1
                else:
                    closed += 1
                row.append(x)
            rows.append(row)
        out = {"matrix": rows, "tau": tau, "closed": closed, "geos": geos}
    _MATRICES[k] = out
    return out
