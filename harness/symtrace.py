"""Tie 1b: path-exhaustive symbolic tracing of straight-line numeric kernels.

The real function is *executed* on symbolic numbers.  Arithmetic builds terms,
every comparison asks a path oracle; all paths are enumerated by replay.  The
resulting decision tree is emitted as a Lean definition over `Rat`, and a
throw-away obligation file proves it equal to the hand-written model for all
inputs (`unfold …; grind`).  Semantics: ordered field (no rounding).

A traced function observes behaviour, not syntax: a rewrite computing the same
piecewise-rational function still proves.
"""
from fractions import Fraction
import itertools


class Untraceable(Exception):
    pass


class _Path:
    def __init__(self, forced):
        self.forced = list(forced)
        self.taken = []

    def decide(self, cond):
        i = len(self.taken)
        v = self.forced[i] if i < len(self.forced) else True
        self.taken.append((cond, v))
        return v


_CUR = None


def lit(x):
    if isinstance(x, bool):
        raise Untraceable("bool used as number")
    f = Fraction(x)
    if f.denominator == 1:
        return f"({f.numerator} : Rat)"
    return f"(({f.numerator} : Rat) / {f.denominator})"


class Sym:
    """a symbolic rational: `e` is a Lean term, `py` evaluates it on Fractions"""
    __slots__ = ("e", "f")
    __hash__ = None
    int_hook = None     # callable(Sym) -> int, see `__int__`

    def __init__(self, e, f):
        self.e = e
        self.f = f   # env(dict) -> Fraction

    @staticmethod
    def var(name):
        return Sym(name, lambda env, n=name: env[n])

    @staticmethod
    def lift(o):
        if isinstance(o, Sym):
            return o
        if isinstance(o, bool):
            raise Untraceable("bool used as number")
        if isinstance(o, (int, float, Fraction)):
            fr = Fraction(o)
            return Sym(lit(o), lambda env, fr=fr: fr)
        raise Untraceable(f"cannot lift {type(o).__name__}")

    def _bin(self, o, sym, fn, rev=False):
        o = Sym.lift(o)
        a, b = (o, self) if rev else (self, o)
        return Sym(f"({a.e} {sym} {b.e})", lambda env, a=a, b=b: fn(a.f(env), b.f(env)))

    def __add__(self, o): return self._bin(o, "+", lambda x, y: x + y)
    def __radd__(self, o): return self._bin(o, "+", lambda x, y: x + y, True)
    def __sub__(self, o): return self._bin(o, "-", lambda x, y: x - y)
    def __rsub__(self, o): return self._bin(o, "-", lambda x, y: x - y, True)
    def __mul__(self, o): return self._bin(o, "*", lambda x, y: x * y)
    def __rmul__(self, o): return self._bin(o, "*", lambda x, y: x * y, True)
    def __truediv__(self, o): return self._bin(o, "/", _div)
    def __rtruediv__(self, o): return self._bin(o, "/", _div, True)
    def __neg__(self): return Sym(f"(-{self.e})", lambda env, a=self: -a.f(env))
    def __pos__(self): return self

    def _cmp(self, sym, o, fn):
        o = Sym.lift(o)
        return _CUR.decide((f"{self.e} {sym} {o.e}", lambda env, a=self, b=o: fn(a.f(env), b.f(env))))

    def __lt__(self, o): return self._cmp("<", o, lambda x, y: x < y)
    def __le__(self, o): return self._cmp("≤", o, lambda x, y: x <= y)
    def __gt__(self, o): return self._cmp(">", o, lambda x, y: x > y)
    def __ge__(self, o): return self._cmp("≥", o, lambda x, y: x >= y)
    def __eq__(self, o): return self._cmp("=", o, lambda x, y: x == y)
    def __ne__(self, o): return not self._cmp("=", o, lambda x, y: x == y)
    def __bool__(self): return not self._cmp("=", 0, lambda x, y: x == y)

    def __float__(self): raise Untraceable("float() of a symbolic number")
    def __int__(self):
        # optional hook (default absent): a tracer may record the argument of `int()` and hand back a
        # sentinel integer, so that "this field is int(<term>)" can be tied without evaluating it
        if Sym.int_hook is not None:
            return Sym.int_hook(self)
        raise Untraceable("int() of a symbolic number")

    def __floor__(self):
        # math.floor: same hook (a tracer that sets `int_hook` accepts either rounding-down function and
        # must justify that they agree on its domain); without a hook untraceable as before
        if Sym.int_hook is not None:
            return Sym.int_hook(self)
        raise Untraceable("math.floor of a symbolic number")

    __trunc__ = __int__
    def __index__(self): raise Untraceable("index of a symbolic number")
    def __repr__(self): return f"Sym<{self.e}>"


def _div(x, y):
    # Lean's Rat division by zero is 0; the traced code only divides behind guards,
    # the obligation is about Lean terms so we mirror Lean here.
    return Fraction(0) if y == 0 else x / y


class Raised:
    def __init__(self, kind):
        self.kind = kind


def trace(fn, catch=(ValueError,), max_paths=4000):
    """enumerate all paths of `fn()`; returns list of (path, leaf).

    leaf: ("ok", value) with value a nest of Sym / bool / numbers / tuples / None,
          ("err", exception class name)
    """
    global _CUR
    results = []
    stack = [[]]
    while stack:
        forced = stack.pop()
        _CUR = _Path(forced)
        try:
            out = fn()
            leaf = ("ok", out)
        except Untraceable:
            raise
        except catch as e:
            leaf = ("err", type(e).__name__)
        taken = _CUR.taken
        results.append((taken, leaf))
        if len(results) > max_paths:
            raise Untraceable("too many paths")
        for i in range(len(forced), len(taken)):
            if taken[i][1] is True:
                stack.append([t[1] for t in taken[:i]] + [False])
    _CUR = None
    return results


def to_tree(results):
    def build(paths, depth):
        if len(paths) == 1 and len(paths[0][0]) == depth:
            return ("leaf", paths[0][1])
        cond = paths[0][0][depth][0]
        t = [p for p in paths if p[0][depth][1]]
        f = [p for p in paths if not p[0][depth][1]]
        return ("ite", cond, build(t, depth + 1), build(f, depth + 1))
    return build(results, 0)


def _val_lean(v):
    if isinstance(v, Sym):
        return v.e
    if v is True:
        return "true"
    if v is False:
        return "false"
    if isinstance(v, (int, float, Fraction)):
        return lit(v)
    if isinstance(v, (tuple, list)):
        return "(" + ", ".join(_val_lean(x) for x in v) + ")"
    raise Untraceable(f"cannot emit {type(v).__name__}")


def _val_eval(v, env):
    if isinstance(v, Sym):
        return v.f(env)
    if isinstance(v, bool):
        return v
    if isinstance(v, (int, float, Fraction)):
        return Fraction(v)
    if isinstance(v, (tuple, list)):
        return [_val_eval(x, env) for x in v]
    raise Untraceable(f"cannot eval {type(v).__name__}")


def tree_lean(tree, ok=lambda s: f"some {s}", err=lambda name: "none", indent=2):
    if tree[0] == "ite":
        pad = " " * indent
        return (f"if {tree[1][0]} then\n{pad}{tree_lean(tree[2], ok, err, indent + 2)}\n"
                f"{' ' * (indent - 2)}else\n{pad}{tree_lean(tree[3], ok, err, indent + 2)}")
    leaf = tree[1]
    if leaf[0] == "ok":
        return ok(_val_lean(leaf[1]))
    return err(leaf[1])


def tree_eval(tree, env):
    """evaluate the extracted decision tree on Fractions: ("ok", value) | ("err", name)"""
    while tree[0] == "ite":
        tree = tree[2] if tree[1][1](env) else tree[3]
    leaf = tree[1]
    if leaf[0] == "ok":
        return ("ok", _val_eval(leaf[1], env))
    return leaf


def count_paths(tree):
    if tree[0] == "ite":
        return count_paths(tree[2]) + count_paths(tree[3])
    return 1


def extract(name, fn, variables, ret_type, catch=(ValueError,)):
    """trace `fn` (a thunk over Sym.var(variables)) and emit a Lean definition.

    returns (lean_def_source, tree, n_paths)
    """
    res = trace(fn, catch=catch)
    tree = to_tree(res)
    body = tree_lean(tree, indent=4)
    args = " ".join(variables)
    src = f"def {name} ({args} : Rat) : Option ({ret_type}) :=\n  {body}"
    return src, tree, len(res)


def tie_obligation(ext_name, ext_src, variables, model_term, unfolds, tactic=None):
    """Lean source proving `∀ vars, Extracted.f vars = model_term`."""
    args = " ".join(variables)
    unf = " ".join([ext_name] + list(unfolds))
    tac = tactic or f"unfold {unf}\n  grind"
    return (f"{ext_src}\n"
            f"theorem {ext_name}_tie ({args} : Rat) : {ext_name} {args} = {model_term} := by\n"
            f"  {tac}\n")


def grid_envs(variables, values, limit=200000, rng=None):
    """small-scope environments for searching a difference between tree and model"""
    n = len(values) ** len(variables)
    if n <= limit:
        for combo in itertools.product(values, repeat=len(variables)):
            yield dict(zip(variables, combo))
    else:
        for _ in range(limit):
            yield {v: rng.choice(values) for v in variables}
