"""Small extensions of symtrace used by C05 / C11: custom leaf rendering for traced functions
whose result is not a plain tuple of numbers (feature lists, recorded constructor calls)."""
from . import symtrace as st


def emit(tree, leaf_ok, leaf_err=lambda name: "none", indent=4):
    """like symtrace.tree_lean, but the ok-leaf is rendered by `leaf_ok(python_value) -> lean term`"""
    if tree[0] == "ite":
        pad = " " * indent
        return (f"if {tree[1][0]} then\n{pad}{emit(tree[2], leaf_ok, leaf_err, indent + 2)}\n"
                f"{' ' * (indent - 2)}else\n{pad}{emit(tree[3], leaf_ok, leaf_err, indent + 2)}")
    leaf = tree[1]
    if leaf[0] == "ok":
        return leaf_ok(leaf[1])
    return leaf_err(leaf[1])


def extract(name, fn, variables, ret_type, leaf_ok, catch=(ValueError,), leaf_err=lambda name: "none"):
    """trace `fn` and emit `def name (vars : Rat) : ret_type := <decision tree>`"""
    res = st.trace(fn, catch=catch)
    tree = st.to_tree(res)
    body = emit(tree, leaf_ok, leaf_err, indent=4)
    args = " ".join(variables)
    src = f"def {name} ({args} : Rat) : {ret_type} :=\n  {body}"
    return src, tree, len(res)


def num(v):
    """Lean term of a traced number (Sym or Python number)"""
    return st._val_lean(v)


def tie(ext_name, ext_src, variables, model_term, unfolds=(), tactic=None, hyps=()):
    """`hyps`: Lean propositions over the variables (what validated inputs guarantee), added as
    hypotheses `hv0 hv1 ...` of the tie"""
    args = " ".join(variables)
    unf = " ".join([ext_name] + list(unfolds))
    tac = tactic or f"unfold {unf}\n  se_close"
    hs = "".join(f" (hv{i} : {h})" for i, h in enumerate(hyps))
    return (f"{ext_src}\n"
            f"theorem {ext_name}_tie ({args} : Rat){hs} : {ext_name} {args} = {model_term} := by\n"
            f"  {tac}\n")


def sym_tie(ctx, name, fn, variables, ret_type, model_term, leaf_ok, tactic=None, meta=None,
            catch=(ValueError,), hyps=()):
    """ctx.sym_tie with custom leaf rendering: trace, emit, register `∀ vars, name vars = model_term`.
    A trace that fails (the stub no longer fits the code) is a broken obligation, never a crash."""
    from .leanio import InfraError
    try:
        src, tree, n = extract(name, fn, variables, ret_type, leaf_ok, catch=catch)
    except InfraError:
        raise
    except Exception as e:  # noqa: BLE001
        ctx.symbolic_ties[name] = {"error": repr(e)[:300]}
        ctx.pre_failed.append(name)
        ctx.fail("obligation", name, detail=f"symbolic trace of the current source failed: {e!r}",
                 extra=dict(meta or {}))
        return None
    ctx.symbolic_ties[name] = {"paths": n}
    ctx.obligation(name, tie(name, src, variables, model_term, tactic=tactic, hyps=hyps), meta)
    return tree
