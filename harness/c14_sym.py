"""Tie 1b for C14: `segment_clip` traced symbolically, for all inputs.

`segment_clip` has a data-dependent loop bound (`range(math.ceil(clip.duration / hop))`), which the plain
tracer cannot follow.  Here the symbolic numbers answer `math.ceil` / `math.floor` / `int` / `round` with an
*oracle* integer N chosen by the harness and record what was rounded.  For every N of a small set the real
function is executed on symbolic clip bounds / duration / hop, all paths enumerated, and three things are
established for **all rational inputs**:

  * `ext_segment_*`  the yielded (start, end) list equals the model's loop run for M iterations, where M
                     is the number of iterations the code makes for the oracle value N (M = N for the
                     pinned source; M >= N is harmless by theorem `C14_bound_ge`);
  * `ext_segbound`   the quantity handed to `math.ceil` equals `(e - s) / hop` (so N stands for the
                     model's `bound`), and the rounding is `ceil`;
  * `ext_segname_*`  the uuid of every yielded clip is `uuid5(package namespace, name)` with name =
                     `segment_clip:<parent>:<x>:<y>`, where x, y are plainly *formatted from* numbers that
                     equal the segment's own start and end on every path (model: `segName`); the recording
                     of every yielded clip is the parent's.

What remains trusted: the semantics of Python's `for … in range(n)` (the body traced for n = 0 … 3 is the
body executed for every n), `math.ceil` itself, `uuid.uuid5`, and the float formatting (`fmt` of the model;
its injectivity / colon-freeness is monitored on every observed value).

The stubs observe behaviour, not names: whatever global of `soundevent.operations` *is* the
`soundevent.data` module or the `Clip` class is replaced by a recorder while tracing.
"""
import uuid as _uuid

from . import symtrace as st
from . import symx
from .symtrace import Sym

PARENT = "7d2e9a4c-1111-4a6b-9c3d-000000000001"

MAX_DECISIONS = 64
_STATE = {"oracle": 0, "rounds": None, "fmt": None}


class ISym(Sym):
    """symbolic rational that also answers rounding (oracle) and formatting (marker)"""
    __slots__ = ()
    __hash__ = None

    @staticmethod
    def var(name):
        return ISym(name, lambda env, n=name: env[n])

    def _bin(self, o, sym, fn, rev=False):
        o = Sym.lift(o)
        a, b = (o, self) if rev else (self, o)
        return ISym(f"({a.e} {sym} {b.e})", lambda env, a=a, b=b: fn(a.f(env), b.f(env)))

    def __neg__(self):
        return ISym(f"(-{self.e})", lambda env, a=self: -a.f(env))

    def _cmp(self, sym, o, fn):
        # a loop that is not bounded by the rounded quotient (e.g. itertools.count with breaks) has paths of
        # every length: stop instead of enumerating them (the tracer's path limit alone grows quadratically)
        if st._CUR is not None and len(st._CUR.taken) > MAX_DECISIONS:
            raise st.Untraceable("more than %d comparisons on one path: the loop is not bounded by the rounded "
                                 "quotient" % MAX_DECISIONS)
        return Sym._cmp(self, sym, o, fn)

    def __pos__(self):
        return self

    # rounding: the harness decides the integer, the trace records what was rounded and how
    def _round(self, kind):
        if _STATE["rounds"] is None:
            raise st.Untraceable("rounding outside a trace")
        _STATE["rounds"].append((kind, self))
        return _STATE["oracle"]

    def __ceil__(self): return self._round("ceil")
    def __floor__(self): return self._round("floor")
    def __trunc__(self): return self._round("trunc")
    def __int__(self): return self._round("trunc")
    def __round__(self, nd=None): return self._round("round")
    def ceil(self): return self._round("ceil")          # numpy's ufuncs on object scalars call these
    def floor(self): return self._round("floor")

    # formatting: a marker that names the formatted number
    def _mark(self, spec=""):
        if _STATE["fmt"] is None:
            return f"Sym<{self.e}>"
        _STATE["fmt"].append(self)
        return "⟦%d%s⟧" % (len(_STATE["fmt"]) - 1, ("|" + spec) if spec else "")

    def __format__(self, spec): return self._mark(spec)
    def __str__(self): return self._mark()
    def __repr__(self): return self._mark()


class RecClip:
    """stands for `data.Clip(...)` inside the traced function: records what it is built from"""

    def __init__(self, **kw):
        self.kw = kw
        for k, v in kw.items():
            setattr(self, k, v)

    @property
    def duration(self):
        return self.end_time - self.start_time


class _DataProxy:
    def __init__(self, real, clip_cls):
        object.__setattr__(self, "_real", real)
        object.__setattr__(self, "_clip", clip_cls)

    def __getattr__(self, n):
        real = object.__getattribute__(self, "_real")
        v = getattr(real, n)
        if v is getattr(real, "Clip", None):
            return object.__getattribute__(self, "_clip")
        return v


class Leaf:
    def __init__(self, segs, rounds, fmt):
        self.segs, self.rounds, self.fmt = segs, rounds, fmt


class _Patched:
    """replace, by identity, the data module / Clip class reachable from the traced module's globals"""

    def __init__(self, mod):
        self.mod = mod
        self.saved = {}

    def __enter__(self):
        from soundevent import data
        import soundevent.data.clips as clips
        proxy = _DataProxy(data, RecClip)
        proxy2 = _DataProxy(clips, RecClip)
        for k, v in list(vars(self.mod).items()):
            if v is data:
                self.saved[k] = v
                setattr(self.mod, k, proxy)
            elif v is clips:
                self.saved[k] = v
                setattr(self.mod, k, proxy2)
            elif v is data.Clip:
                self.saved[k] = v
                setattr(self.mod, k, RecClip)
        return self

    def __exit__(self, *a):
        for k, v in self.saved.items():
            setattr(self.mod, k, v)
        return False


def _parent_clip(s, e, recording):
    """the real Clip class around symbolic bounds where pydantic allows it (so that the real `duration`
    property is what is traced), else a stand-in with the same attributes"""
    from soundevent import data
    try:
        c = data.Clip.model_construct(uuid=_uuid.UUID(PARENT), recording=recording, start_time=s, end_time=e)
        c.duration, c.start_time, c.end_time, c.uuid, c.recording   # noqa: B018 - must be readable
        return c
    except Exception:  # noqa: BLE001
        return RecClip(uuid=_uuid.UUID(PARENT), recording=recording, start_time=s, end_time=e)


V = ["s", "e", "dur", "hop"]


def make_thunk(ops_mod, recording, incl, hop_none, oracle):
    s, e, dur, hop = [ISym.var(n) for n in V]

    def thunk():
        _STATE.update(oracle=oracle, rounds=[], fmt=[])
        try:
            clip = _parent_clip(s, e, recording)
            kw = {} if hop_none else {"hop": hop}
            segs = list(ops_mod.segment_clip(clip, duration=dur, include_incomplete=incl, **kw))
            return Leaf(segs, list(_STATE["rounds"]), list(_STATE["fmt"]))
        finally:
            _STATE.update(rounds=None, fmt=None)
    return thunk


def _leaves(tree):
    if tree[0] == "ite":
        yield from _leaves(tree[2])
        yield from _leaves(tree[3])
    else:
        yield tree[1]


def _pairs_lean(pairs):
    return "some [" + ", ".join(f"({symx.num(a)}, {symx.num(b)})" for a, b in pairs) + "]"


TACTIC = ("unfold {name} SE.Segment.segmentClipWith\n"
          "  simp only [SE.Segment.loop, Except.toOption]\n"
          "  repeat' split\n"
          "  all_goals first | rfl | (exfalso; grind) | grind | grind (splits := 400) | (simp at *; grind (splits := 400))")


def register(ctx, ops_mod, namespace, recording, oracles):
    """trace the current source and register the obligations; returns nothing.  Every failure to trace is a
    broken obligation (never a crash)."""
    from .leanio import InfraError
    bound_exprs = {}
    problems = []
    for incl in (False, True):
        for hop_none in (False, True):
            for n in oracles:
                tag = f"{'incl' if incl else 'compl'}_{'nohop' if hop_none else 'hop'}_{n}"
                name = f"ext_segment_{tag}"
                meta = {"op": "segment", "include_incomplete": incl, "hop_none": hop_none, "oracle": n}
                try:
                    with _Patched(ops_mod):
                        res = st.trace(make_thunk(ops_mod, recording, incl, hop_none, n), catch=(ValueError,),
                                       max_paths=3000)
                    tree = st.to_tree(res)
                    leaves = [lf for lf in _leaves(tree)]
                    oks = [lf[1] for lf in leaves if lf[0] == "ok"]
                    m = max([len(x.segs) for x in oks], default=0)
                    body = symx.emit(tree, lambda v: _pairs_lean([(g.start_time, g.end_time) for g in v.segs]),
                                     indent=4)
                    src = f"def {name} (s e dur hop : Rat) : Option (List (Rat × Rat)) :=\n  {body}"
                except InfraError:
                    raise
                except Exception as ex:  # noqa: BLE001
                    ctx.symbolic_ties[name] = {"error": repr(ex)[:300]}
                    ctx.pre_failed.append(name)
                    ctx.fail("obligation", name, detail=f"symbolic trace of the current source failed: {ex!r}",
                             extra=meta)
                    continue
                if m > max(oracles) + 1 and m > n:
                    # the code's bound overshoots ceil(..) by a constant (harmless: C14_bound_ge); the same body is
                    # tied through the smaller oracle values, this tree would only be larger
                    ctx.note(f"{name}: {m} iterations for ceil(..) = {n}; tied through the smaller oracle values only")
                    continue
                ctx.symbolic_ties[name] = {"paths": len(res), "iterations_for_oracle": [n, m]}
                hop_term = "dur" if hop_none else "hop"
                model = (f"(SE.Segment.segmentClipWith (fun _ _ _ => {m}) s e dur {hop_term} "
                         f"{'true' if incl else 'false'}).toOption")
                ctx.obligation(name, symx.tie(name, src, V, model, tactic=TACTIC.format(name=name)), meta)
                # the rounding the loop bound comes from: exactly one rounding of (e - s) / hop per path that
                # reaches the loop; with `ceil` the code must make at least N iterations, with floor / int /
                # round at least N + 1 (then its bound is >= ceil(duration / hop) and C14_bound_ge applies)
                for lf in oks:
                    kinds = [k for k, _x in lf.rounds]
                    if not lf.rounds:
                        continue                     # a path that never reaches the loop bound (guards, fast paths)
                    if len(lf.rounds) != 1:
                        problems.append((name, meta, f"loop bound is not one rounding of a quotient: rounds={kinds}"))
                        break
                    bound_exprs.setdefault((lf.rounds[0][1].e, hop_term), meta)
                    need = n if kinds[0] == "ceil" else n + 1
                    if m < need:
                        problems.append((name, meta, f"with {kinds[0]}(duration / hop) = {n} the loop makes only {m} "
                                                     f"iterations: the bound is below ceil(duration / hop)"))
                        break
                # names, namespace, recording: on every path
                try:
                    name_src = _name_obligation(f"ext_segname_{tag}", tree, oks, namespace, recording, model)
                except InfraError:
                    raise
                except Exception as ex:  # noqa: BLE001 - incl. _NameProblem: the identifier tie is not re-established
                    problems.append((f"ext_segname_{tag}", {**meta, "op": "id_classes"}, str(ex) or repr(ex)))
                else:
                    ctx.symbolic_ties[f"ext_segname_{tag}"] = {"paths": len(res)}
                    ctx.obligation(f"ext_segname_{tag}", name_src, {**meta, "op": "id_classes"})
    for i, ((expr, hop_term), meta) in enumerate(sorted(bound_exprs.items(), key=lambda kv: kv[0])):
        ctx.obligation(f"ext_segbound_{i}",
                       f"theorem ext_segbound_{i} (s e dur hop : Rat) : {expr} = (e - s) / {hop_term} := by\n"
                       f"  first | rfl | grind | (simp; grind)\n", meta)
    seen = set()
    for name, meta, msg in problems:
        if (name, msg) in seen:
            continue
        seen.add((name, msg))
        ctx.pre_failed.append(name + ":shape")
        ctx.fail("obligation", name, detail=msg, extra=meta)


class _NameProblem(Exception):
    pass


def _name_obligation(name, tree, oks, namespace, recording, model):
    """every yielded clip: recording is the parent's; uuid = uuid5(package namespace, 'segment_clip:<parent>:
    <fmt x>:<fmt y>'); emitted: the list of (x, y) per path, to be proved equal to the model's windows"""
    if not isinstance(namespace, _uuid.UUID):
        raise _NameProblem("the package's uuid namespace constant was not found")
    per_leaf = {}
    for lf in oks:
        pairs = []
        for g in lf.segs:
            if getattr(g, "recording", None) is not recording:
                raise _NameProblem("a yielded clip does not carry the parent's recording object")
            hit = None
            for i in range(len(lf.fmt)):
                for j in range(len(lf.fmt)):
                    if _uuid.uuid5(namespace, f"segment_clip:{PARENT}:⟦{i}⟧:⟦{j}⟧") == getattr(g, "uuid", None):
                        hit = (i, j)
                        break
                if hit:
                    break
            if hit is None:
                raise _NameProblem("the uuid of a yielded clip is not uuid5(package namespace, 'segment_clip:<parent uuid>:<x>:<y>') "
                                   "for plainly formatted numbers x, y")
            pairs.append((lf.fmt[hit[0]], lf.fmt[hit[1]]))
        per_leaf[id(lf)] = pairs
    body = symx.emit(tree, lambda v: _pairs_lean(per_leaf[id(v)]), indent=4)
    src = f"def {name} (s e dur hop : Rat) : Option (List (Rat × Rat)) :=\n  {body}"
    return symx.tie(name, src, V, model, tactic=TACTIC.format(name=name))
