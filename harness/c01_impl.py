"""C01 — running the real `soundevent.io.save` / `load` cycle and judging it by the property itself.

`roundtrip(inp)`: build the real objects, then n times save / load.  After *every* cycle the loaded object is compared
with the object that was *built and saved* (not with the JSON the generator wrote: whatever the data classes
normalise at construction is part of the original), twice:
  * over the declared fields of the real classes (`c01_generic.generic`, regenerated from `model_fields`),
  * in the model layout (`aoef.dump`), which is also what is compared with the Lean model.
The first difference is returned under "property"; the final object's dump under "val".

Options of an input (all optional): save_dir / load_dir, dir_as ("str" | "path"), n, fresh (load in a process that
never saw the saved objects), ints (integral numbers are handed to the constructors as Python ints), via (another
construction path of the object, see `build_via`), io (spelling of the calls: format / type / Path / new directory /
positional arguments / a file that already exists / a relative file name),
fill_unknown (declared fields the harness does not know get a non-default value before saving).
"""
import datetime
import json
import os
import shutil
import subprocess
import sys
from pathlib import Path, PurePosixPath

from . import aoef, aoef_impl, leanio
from .c01_generic import generic, gdiff, walk_models
from .core import canon_exc

# the fields of every data class that `aoef.Builder` sets (= the fields of the Lean structures; FieldsAgree compares
# them with `model_fields` on every run).  Anything else that is declared is an *unknown* field.
KNOWN = {
    "User": {"uuid", "username", "email", "name", "institution"},
    "Tag": {"term", "value"}, "Feature": {"term", "value"}, "PredictedTag": {"tag", "score"},
    "Note": {"uuid", "message", "created_by", "is_issue", "created_on"},
    "Recording": {"uuid", "path", "duration", "channels", "samplerate", "time_expansion", "hash", "date", "time",
                  "latitude", "longitude", "license", "owners", "rights", "tags", "features", "notes"},
    "Clip": {"uuid", "recording", "start_time", "end_time", "features"},
    "SoundEvent": {"uuid", "geometry", "recording", "features"},
    "Sequence": {"uuid", "sound_events", "features", "parent"},
    "SoundEventAnnotation": {"uuid", "sound_event", "notes", "tags", "created_by", "created_on"},
    "SequenceAnnotation": {"uuid", "sequence", "notes", "tags", "created_by", "created_on"},
    "ClipAnnotation": {"uuid", "clip", "sound_events", "sequences", "tags", "notes", "created_on"},
    "StatusBadge": {"state", "owner", "created_on"},
    "AnnotationTask": {"uuid", "clip", "status_badges", "created_on"},
    "SoundEventPrediction": {"uuid", "sound_event", "score", "tags"},
    "SequencePrediction": {"uuid", "sequence", "score", "tags"},
    "ClipPrediction": {"uuid", "clip", "sound_events", "sequences", "tags", "features"},
    "Match": {"uuid", "source", "target", "affinity", "score", "metrics"},
    "ClipEvaluation": {"uuid", "annotations", "predictions", "matches", "metrics", "score"},
    "RecordingSet": {"uuid", "recordings", "created_on"},
    "Dataset": {"uuid", "recordings", "created_on", "name", "description"},
    "AnnotationSet": {"uuid", "clip_annotations", "created_on"},
    "AnnotationProject": {"uuid", "clip_annotations", "created_on", "name", "description", "instructions",
                          "annotation_tags", "tasks"},
    "EvaluationSet": {"uuid", "clip_annotations", "created_on", "name", "description", "evaluation_tags"},
    "PredictionSet": {"uuid", "clip_predictions", "created_on"},
    "ModelRun": {"uuid", "clip_predictions", "created_on", "name", "version", "description"},
    "Evaluation": {"uuid", "created_on", "evaluation_task", "clip_evaluations", "metrics", "score"},
}


# ----------------------------------------------------------------------------- unknown declared fields
def _synth(ann, name):
    """a non-default value for a declared field of annotation `ann` (None when we cannot make one)"""
    import typing
    origin = typing.get_origin(ann)
    args = typing.get_args(ann)
    if origin is typing.Union:
        for a in args:
            if a is not type(None):
                v = _synth(a, name)
                if v is not None:
                    return v
        return None
    if ann is str:
        return "filled:" + name
    if ann is bool:
        return True
    if ann is int:
        return 3
    if ann is float:
        return 0.625
    if ann is datetime.datetime:
        return datetime.datetime(2001, 2, 3, 4, 5, 6)
    if ann is datetime.date:
        return datetime.date(2001, 2, 3)
    if origin in (list, typing.List) and args:
        v = _synth(args[0], name)
        return None if v is None else [v]
    if origin in (dict, typing.Dict) and len(args) == 2 and args[0] is str:
        v = _synth(args[1], name)
        return None if v is None else {"k": v}
    return None


def fill_unknown(obj):
    """give every declared field that `aoef.Builder` does not know a non-default value -> list of 'Class.field'"""
    filled = []
    for o in walk_models(obj):
        cls = type(o)
        known = KNOWN.get(cls.__name__)
        if known is None:
            continue
        for f, info in cls.model_fields.items():
            if f in known:
                continue
            v = _synth(info.annotation, f)
            if v is None:
                continue
            try:
                setattr(o, f, v)
                filled.append(f"{cls.__name__}.{f}")
            except Exception:  # noqa: BLE001
                pass
    return sorted(set(filled))


# ----------------------------------------------------------------------------- building with ints
def _as_int(x):
    return int(x) if isinstance(x, float) and x == int(x) and abs(x) < 2 ** 53 and (x != 0 or str(x)[0] != "-") else x


class IntBuilder(aoef.Builder):
    """the same objects, but every integral number reaches the constructors as a Python `int` (1, not 1.0)"""

    def sound_event(self, j):
        from soundevent import data
        import uuid as _uuid

        def conv(c):
            return [conv(v) for v in c] if isinstance(c, list) else _as_int(c)

        def mk(j):
            g = None
            if j.get("geometry") is not None:
                gj = json.loads(j["geometry"])
                g = data.geometry_validate({"type": gj["type"], "coordinates": conv(gj["coordinates"])}, mode="dict")
            return data.SoundEvent(uuid=_uuid.UUID(j["uuid"]), geometry=g, recording=self.recording(j["recording"]),
                                   features=[self.feature(f) for f in j["features"]])
        return self.shared("sound_event", j, mk)


def build(cj, ints=False):
    if not ints:
        return aoef.build(cj)
    old_f = aoef._f
    aoef._f = lambda tok: _as_int(float(tok))
    try:
        return IntBuilder().collection(cj)
    finally:
        aoef._f = old_f


# ----------------------------------------------------------------------------- other construction paths
def _tupled(x):
    if isinstance(x, dict):
        return {k: _tupled(v) for k, v in x.items()}
    if isinstance(x, list):
        return tuple(_tupled(v) for v in x)
    return x


def _assign_numpy(obj):
    """numbers re-assigned as numpy scalars (assignment is not validated: the objects then *hold* numpy values)"""
    import numpy as np
    for o in walk_models(obj):
        cls = type(o)
        if cls.__name__ == "Term" or getattr(cls, "model_config", {}).get("frozen"):
            continue
        for f, info in cls.model_fields.items():
            v = getattr(o, f, None)
            if isinstance(v, bool):
                continue
            if type(v) is float:
                setattr(o, f, np.float64(v))
            elif type(v) is int and abs(v) < 2 ** 62:
                setattr(o, f, np.int64(v))
    return obj


VIAS = ("build", "validate", "validate_json", "copy", "deepcopy", "shallow", "tuples", "assign_np", "ints")


def build_via(cj, via="build"):
    """the collection `cj` as a real object, constructed in one of the legitimate ways a caller may construct it:
    by the constructors (objects with one uuid shared by reference), from a plain dict / from JSON text
    (`model_validate`: equal content as *distinct* objects), with tuples where lists are declared, as a deep / shallow
    `model_copy`, `copy.deepcopy`, with integral numbers as `int`, with numbers re-assigned as numpy scalars"""
    import copy as _copy
    if via == "ints":
        return build(cj, ints=True)
    obj = aoef.build(cj)
    if via in (None, "build"):
        return obj
    cls = type(obj)
    if via == "validate":
        return cls.model_validate(obj.model_dump())
    if via == "tuples":
        return cls.model_validate(_tupled(obj.model_dump()))
    if via == "validate_json":
        return cls.model_validate_json(obj.model_dump_json())
    if via == "copy":
        return obj.model_copy(deep=True)
    if via == "shallow":
        return obj.model_copy()
    if via == "deepcopy":
        return _copy.deepcopy(obj)
    if via == "assign_np":
        return _assign_numpy(obj)
    raise ValueError(via)


# ----------------------------------------------------------------------------- fresh loader (own worker)
class FreshLoader(aoef_impl.FreshLoader):
    def start(self):
        env = dict(os.environ)
        env["SOUNDEVENT_SRC"] = os.environ.get("SOUNDEVENT_SRC", "/repo/src")
        self.p = subprocess.Popen([sys.executable, "-m", "harness.c01_worker"], cwd=leanio.VERIF, env=env,
                                  stdin=subprocess.PIPE, stdout=subprocess.PIPE, stderr=subprocess.DEVNULL, text=True)

    def load(self, path, audio_dir, how="str"):
        if self.p is None or self.p.poll() is not None:
            self.start()
        self.p.stdin.write(json.dumps({"path": path, "audio_dir": audio_dir, "dir_as": how}) + "\n")
        self.p.stdin.flush()
        line = self.p.stdout.readline()
        if not line:
            raise leanio.InfraError("fresh loader process died")
        return json.loads(line)


FRESH = FreshLoader()


def same_dir(a, b):
    """the same directory, however it is spelled ('audio', './audio/', Path('audio'))"""
    if a is None or b is None:
        return a is None and b is None
    return PurePosixPath(a) == PurePosixPath(b)


def roundtrip(inp):
    from soundevent import io
    cj = inp["collection"]
    save_dir, load_dir = inp.get("save_dir"), inp.get("load_dir")
    n, how, fresh = inp.get("n", 1), inp.get("dir_as", "str"), inp.get("fresh", False)
    try:
        obj = build(cj, ints=True) if inp.get("ints") else build_via(cj, inp.get("via", "build"))
    except Exception as e:  # noqa: BLE001  (the input is not constructible: generator fault, not a verdict)
        return {"unbuildable": repr(e)[:300]}
    out = {}
    if inp.get("fill_unknown"):
        out["filled"] = fill_unknown(obj)
    judge = same_dir(save_dir, load_dir)      # relocation (other directory on load) is C18's statement
    orig_g = generic(obj) if judge else None
    orig_d = aoef.dump(obj) if judge else None
    if judge and not inp.get("fill_unknown"):
        d = None if orig_d == cj else aoef.diff(orig_d, cj)
        if d:
            out["built_differs"] = d             # the constructors normalised something: the built object is the original
    path = aoef_impl.tmp_path("rt")
    opts = inp.get("io") or {}
    nest = None
    if opts.get("subdir"):                       # a directory that does not exist yet: `save` creates it
        nest = path[:-5] + "_dir"
        path = os.path.join(nest, "a b", "ünï", "doc.json")
    skw, lkw = {}, {}
    if "save_format" in opts:
        skw["format"] = opts["save_format"]
    if "load_format" in opts:
        lkw["format"] = opts["load_format"]
    if opts.get("load_type"):
        lkw["type"] = cj["type"]
    as_path = (lambda p: Path(p)) if opts.get("path_as") == "path" else (lambda p: p)
    cwd = None
    full = path
    try:
        # the target before the first save: absent, or a file somebody else left there (`save` replaces it).
        # Between the cycles nothing is removed: the next save goes to the file the object was loaded from.
        if os.path.exists(path):
            os.remove(path)
        if opts.get("preexisting"):
            from . import c01_fs
            os.makedirs(os.path.dirname(path), exist_ok=True)
            with open(path, "w") as f:
                f.write(c01_fs.TEXTS[opts["preexisting"]])
        if opts.get("relname"):                  # a file name relative to the working directory
            cwd = os.getcwd()
            os.makedirs(os.path.dirname(full), exist_ok=True)
            os.chdir(os.path.dirname(full))
            path = opts["relname"] + os.path.basename(full)      # "doc.json", "./doc.json"
        for i in range(n):
            if opts.get("remove_between") and os.path.exists(path):
                os.remove(path)
            if opts.get("positional"):       # the documented order: save(obj, path, audio_dir, format)
                io.save(obj, as_path(path), aoef_impl.adir(save_dir, how), skw.get("format", "aoef"))
            else:
                io.save(obj, as_path(path), audio_dir=aoef_impl.adir(save_dir, how), **skw)
            if fresh and not lkw:
                rep = FRESH.load(full, load_dir, how)
                if "val" not in rep:
                    return {**out, **rep}
                cur_d, cur_g = rep["val"], rep["gen"]
                if i + 1 < n:
                    obj = aoef.build(cur_d)
            else:
                if opts.get("positional"):   # load(path, audio_dir, format, type)
                    obj = io.load(as_path(path), aoef_impl.adir(load_dir, how), lkw.get("format", "aoef"), lkw.get("type"))
                else:
                    obj = io.load(as_path(path), audio_dir=aoef_impl.adir(load_dir, how), **lkw)
                cur_d, cur_g = aoef.dump(obj), (generic(obj) if judge else None)
            if judge and "property" not in out:
                msg = None if orig_g == cur_g else gdiff(orig_g, cur_g)
                if msg is None and cur_d != orig_d:
                    d = aoef.diff(cur_d, orig_d)
                    msg = None if d is None else "model layout: " + d
                if msg:
                    out["property"] = f"after save/load cycle {i + 1} of {n} the loaded object differs from the saved one at {msg}"
        out["val"] = cur_d
        return out
    except leanio.InfraError:
        raise
    except Exception as e:  # noqa: BLE001
        return {**out, **canon_exc(e)}
    finally:
        if cwd is not None:
            os.chdir(cwd)
        aoef_impl.cleanup(full)
        if nest is not None:
            shutil.rmtree(nest, ignore_errors=True)
