"""C10 — histories and unusual passing (HISTORIES.md sections 1 and 2).

  * `history`     : consecutive calls of the converters in one process on shared identities (generic harness
                    `harness/history.py`): the same segment / box / recording / annotation / option objects used
                    again with other options, changed in between (assignment, in-place list edits,
                    `model_copy(update=…)` shallow and deep, `attr.evolve`), the same callable object with a
                    changed table; every argument is snapshotted around the call; returned objects are edited in
                    place by the caller ("poison") and earlier results are read again after later calls.  Every
                    step is judged by the base operation's Lean model (driver op `step`).
  * `tag_history` : imports and in-place edits of returned tags, compared event by event with the store
                    semantics `SE.Crowsetta.Hist.run` (theorem `C10_history_value_semantics`: it is the value
                    semantics - calls are pure, edits are local to the edited result).
  * `positional`  : every public converter called with every split between positional and keyword passing, in
                    the order of the Lean table `SE.Crowsetta.signatures` (tied to the signatures on every run;
                    theorem `C10_positional_split`).

The property module `harness/props/c10.py` owns the base operations; this module only drives them.
"""
import copy
import inspect
from pathlib import Path

from . import history
from .core import Op
from .rat import frac


def P():
    from .props import c10
    return c10


# ====================================================================== live objects of one step
def _mk_rec(j):
    """a fresh Recording object (histories change recordings in place: never the shared cache of the property module)"""
    from soundevent import data
    return data.Recording(path=j.get("path") or "rec.wav", duration=1000.0, channels=1, samplerate=int(frac(j["samplerate"])),
                          time_expansion=float(frac(j["te"])))


def _rec_fields(j):
    return {"path": Path(j.get("path") or "rec.wav"), "samplerate": int(frac(j["samplerate"])), "time_expansion": float(frac(j["te"]))}


def _sr_rec_j(inp):
    return {"samplerate": inp["sr"], "te": "1"}


def _mk_ann(j, rec):
    """(whatever the construction path, the annotation refers to the live recording object of the step: histories
    change that object in place)"""
    a = P()._ann(j, rec)
    if a.sound_event.recording is not rec:
        a.sound_event.recording = rec
    return a


def _mk_seq(segs):
    import crowsetta
    return crowsetta.Sequence.from_segments([P()._segment(s) for s in segs])


def _mk_clip(anns, rec):
    from soundevent import data
    return data.ClipAnnotation(clip=data.Clip(recording=rec, start_time=0, end_time=rec.duration),
                               sound_events=[_mk_ann(a, rec) for a in anns])


# which components of the base input are live objects, per base operation: name -> (key of the base input, kind)
COMPS = {
    "label_to_tags": {"kw": ("opts", "label_kw")},
    "label_from_tag": {"tag": ("tag", "tag"), "kw": ("opts", "tag_kw")},
    "label_from_tags": {"tags": ("tags", "tags"), "kw": ("opts", "tags_kw")},
    "import_segment": {"segment": ("segment", "segment"), "rec": ("rec", "rec"), "kw": ("opts", "label_kw")},
    "import_bbox": {"bbox": ("bbox", "bbox"), "rec": ("rec", "rec"), "kw": ("opts", "label_kw")},
    "import_sequence": {"seq": ("segments", "seq"), "rec": ("rec", "rec"), "kw": ("opts", "label_kw")},
    "import_annotation": {"crow": ("crow", "crow"), "rec": ("rec", "rec"), "kw": ("opts", "label_kw")},
    "export_segment": {"rec": (None, "sr_rec"), "ann": ("ann", "ann"), "kw": ("opts", "tags_kw")},
    "export_bbox": {"rec": (None, "sr_rec"), "ann": ("ann", "ann"), "kw": ("opts", "tags_kw")},
    "export_sequence": {"rec": (None, "sr_rec"), "anns": ("anns", "anns"), "kw": ("opts", "tags_kw")},
    "export_annotation": {"rec": ("rec", "rec"), "clip": ("anns", "clip"), "kw": ("opts", "tags_kw")},
}


def _content(op, name, b):
    """the part of the base input a component carries (for the test "same content as before")"""
    key, kind = COMPS[op][name]
    if kind == "sr_rec":
        return _sr_rec_j(b)
    return b.get(key)


def _build_comp(kind, j, live):
    p = P()
    if kind == "label_kw":
        return p._label_kwargs(j)
    if kind == "tag_kw":
        return p._tag_kwargs(j)
    if kind == "tags_kw":
        return p._tags_kwargs(j)
    if kind == "tag":
        return p._tag(j)
    if kind == "tags":
        return [p._tag(t) for t in j]
    if kind == "segment":
        return p._segment(j)
    if kind == "bbox":
        return p._bbox(j)
    if kind == "seq":
        return _mk_seq(j)
    if kind == "crow":
        return p._crow(j)
    if kind in ("rec", "sr_rec"):
        return _mk_rec(j)
    if kind == "ann":
        return _mk_ann(j, live["rec"])
    if kind == "anns":
        return [_mk_ann(a, live["rec"]) for a in j]
    if kind == "clip":
        return _mk_clip(j, live["rec"])
    raise AssertionError(kind)


def _assign_kw(old, new):
    """the same dict object (and, where both have them, the same mapping dicts / lists / callable objects) now
    carrying the new options"""
    for k in list(old):
        if k not in new:
            del old[k]
    for k, v in new.items():
        o = old.get(k)
        if isinstance(o, dict) and isinstance(v, dict):
            o.clear()
            o.update(v)
        elif isinstance(o, list) and isinstance(v, list):
            o[:] = v
        elif callable(o) and callable(v) and hasattr(o, "spec") and hasattr(v, "spec"):
            o.spec = v.spec             # the same callable object, changed behaviour
        else:
            old[k] = v
    return old


def _assign_ann(ann, j, rec, inplace):
    p = P()
    tags = [p._tag(t) for t in j["tags"]]
    if inplace:
        ann.tags[:] = tags
    else:
        ann.tags = tags
    se = ann.sound_event
    if se.recording is not rec:
        se.recording = rec
    g = None if j["geometry"] is None else p.gen_geom.to_data(j["geometry"])
    if inplace and g is not None and se.geometry is not None and se.geometry.type == g.type:
        se.geometry.coordinates = g.coordinates          # the same geometry object, new coordinates
    else:
        se.geometry = g
    return ann


def _copy_ann(ann, j, rec, deep):
    p = P()
    g = None if j["geometry"] is None else p.gen_geom.to_data(j["geometry"])
    se = ann.sound_event.model_copy(update={"geometry": g, "recording": rec}, deep=deep)      # keeps the uuid
    return ann.model_copy(update={"tags": [p._tag(t) for t in j["tags"]], "sound_event": se}, deep=deep)


def _reuse_comp(kind, obj, j, how, live):
    """the live object of the previous step turned into the content `j`; None = cannot (build a fresh one)"""
    import attr
    p = P()
    if how == "copy_assign":                 # `copy.copy` of the object used before, then assignment to the copy
        if kind in ("label_kw", "tag_kw", "tags_kw", "segment", "anns", "clip"):
            return None
        try:
            return _reuse_comp(kind, copy.copy(obj), j, "assign", live)
        except Exception:  # noqa: BLE001 - an object that cannot be copied is built anew
            return None
    deep = how == "deep_copy_update"
    inplace = how == "inplace"
    if kind in ("label_kw", "tag_kw", "tags_kw"):
        new = _build_comp(kind, j, live)
        if how in ("assign", "inplace"):
            return _assign_kw(obj, new)
        return None
    if kind in ("rec", "sr_rec"):
        f = _rec_fields(j)
        if how in ("assign", "inplace"):
            for k, v in f.items():
                if getattr(obj, k) != v:
                    setattr(obj, k, v)
            return obj
        return obj.model_copy(update=f, deep=deep)
    if kind == "tags":
        new = [p._tag(t) for t in j]
        if how in ("assign", "inplace"):
            obj[:] = new
            return obj
        return None
    if kind == "tag":
        if how in ("assign", "inplace"):
            obj.term, obj.value = p._term(j["term"]), j["value"]
            return obj
        return obj.model_copy(update={"term": p._term(j["term"]), "value": j["value"]}, deep=deep)
    if kind == "segment":
        if how in ("assign", "inplace"):
            return None                                  # frozen
        new = p._segment(j)
        return attr.evolve(obj, **{a.name: getattr(new, a.name) for a in attr.fields(type(new))})
    if kind == "bbox":
        new = p._bbox(j)
        vals = {a.name: getattr(new, a.name) for a in attr.fields(type(new))}
        # (crowsetta.BBox validates onset < offset and low < high when onset / low_freq are assigned: the upper ends first)
        order = ("offset", "high_freq", "onset", "low_freq", "label")
        if how in ("assign", "inplace"):
            for k in order:
                setattr(obj, k, vals[k])
            return obj
        if deep:
            o = copy.deepcopy(obj)
            for k in order:
                setattr(o, k, vals[k])
            return o
        return attr.evolve(obj, **vals)
    if kind == "ann":
        rec = live["rec"]
        if how in ("assign", "inplace"):
            return _assign_ann(obj, j, rec, inplace)
        return _copy_ann(obj, j, rec, deep)
    if kind == "anns":
        rec = live["rec"]
        new = []
        for i, a in enumerate(j):
            if i < len(obj):
                new.append(_assign_ann(obj[i], a, rec, inplace) if how in ("assign", "inplace") else _copy_ann(obj[i], a, rec, deep))
            else:
                new.append(_mk_ann(a, rec))
        if how in ("assign", "inplace"):
            obj[:] = new
            return obj
        return new
    if kind == "clip":
        rec = live["rec"]
        new = _reuse_comp("anns", list(obj.sound_events), j, how, live)
        if obj.clip.recording is not rec:
            if how in ("assign", "inplace"):
                obj.clip.recording = rec
            else:
                return obj.model_copy(update={"sound_events": new, "clip": obj.clip.model_copy(update={"recording": rec})}, deep=False)
        if how == "inplace":
            obj.sound_events[:] = new
            return obj
        if how == "assign":
            obj.sound_events = new
            return obj
        return obj.model_copy(update={"sound_events": new}, deep=False)
    if kind == "crow":
        new = p._crow(j)
        if how in ("assign", "inplace") and type(new) is type(obj) and set(vars(new)) == set(vars(obj)):
            for k, v in vars(new).items():
                setattr(obj, k, v)
            return obj
        return None
    return None


def _build(step):
    op, b = step["op"], step["inp"]
    live = {"op": op, "inp": copy.deepcopy(b)}
    for name, (key, kind) in COMPS[op].items():
        live[name] = _build_comp(kind, _content(op, name, b), live)
    return live


def _modify(prev, step, how):
    """the live objects of the previous step (same base operation) carrying this step's input"""
    op, b = step["op"], step["inp"]
    if prev is None or prev.get("op") != op:
        return None
    live = {"op": op, "inp": copy.deepcopy(b)}
    for name, (key, kind) in COMPS[op].items():
        old_c, new_c = _content(op, name, prev["inp"]), _content(op, name, b)
        obj = None
        dep_changed = kind in ("ann", "anns", "clip") and live.get("rec") is not prev.get("rec")
        if old_c == new_c and not dep_changed and kind not in ("label_kw", "tag_kw", "tags_kw"):
            obj = prev[name]                              # the very same object, unchanged
        elif old_c == new_c and not dep_changed and how == "same":
            obj = prev[name]
        elif how != "same":
            obj = _reuse_comp(kind, prev[name], new_c, how, live)
        if obj is None:
            obj = _build_comp(kind, new_c, live)
        live[name] = obj
    return live


# ---------------------------------------------------------------------- the call, per base operation
class _Live:
    """a live result together with the identities the caller handed in (never poisoned: they are the caller's)"""

    def __init__(self, res, owned):
        self.res, self.owned = res, owned


def _owned(live):
    ids = set()
    kw = live.get("kw") or {}
    tm = kw.get("tag_mapping")
    if isinstance(tm, dict):
        for v in tm.values():
            ids.add(id(v))
            for t in (v if isinstance(v, list) else [v]):
                ids.add(id(t))
    for name in ("tags", "tag"):
        if name in live:
            v = live[name]
            ids.add(id(v))
            for t in (v if isinstance(v, (list, tuple)) else [v]):
                ids.add(id(t))
    return ids


def _call(live):
    p = P()
    cio = p._cio()
    op, b, kw = live["op"], live["inp"], live["kw"]
    if op == "label_to_tags":
        r = cio.label_to_tags(b["label"], **kw)
    elif op == "label_from_tag":
        k = dict(kw)
        if b.get("separator") is not None:
            k["separator"] = b["separator"]
        r = cio.label_from_tag(live["tag"], **k)
    elif op == "label_from_tags":
        r = cio.label_from_tags(tuple(live["tags"]) if b.get("as_tuple") else live["tags"], **kw)
    elif op == "import_segment":
        r = cio.segment_to_annotation(live["segment"], live["rec"], adjust_time_expansion=b["adjust"], **kw)
    elif op == "import_bbox":
        r = cio.bbox_to_annotation(live["bbox"], live["rec"], adjust_time_expansion=b["adjust"], **kw)
    elif op == "import_sequence":
        r = cio.sequence_to_annotations(live["seq"], live["rec"], adjust_time_expansion=b["adjust"], **kw)
    elif op == "import_annotation":
        r = cio.annotation_to_clip_annotation(live["crow"], recording=live["rec"], adjust_time_expansion=b["adjust"], **kw)
    elif op == "export_segment":
        k = dict(kw)
        if b.get("cast") is not None and not b.get("default_cast"):
            k["cast_to_segment"] = b["cast"]
        r = cio.segment_from_annotation(live["ann"], **k)
    elif op == "export_bbox":
        k = dict(kw)
        if not b.get("default_switches"):
            k["cast_to_bbox"], k["raise_on_time_geometries"] = b["cast"], b["raise_time"]
        r = cio.bbox_from_annotation(live["ann"], **k)
    elif op == "export_sequence":
        k = dict(kw)
        if not b.get("default_switches"):
            k["cast_to_segment"], k["ignore_errors"] = b["cast"], b["ignore"]
        r = cio.sequence_from_annotations(live["anns"], **k)
    elif op == "export_annotation":
        k = dict(kw)
        if not b.get("default_switches"):
            k["ignore_errors"], k["cast_geometry"] = b["ignore"], b["cast"]
            if b["fmt"] == "bbox":
                k["raise_on_time_geometries"] = b["raise_time"]
        r = cio.annotation_from_clip_annotation(live["clip"], "annots.csv", b["fmt"], **k)
    else:
        raise AssertionError(op)
    return _Live(r, _owned(live))


def _canon(step, live, lr):
    p = P()
    op, r = step["op"], lr.res
    if op == "label_to_tags":
        return {"val": p._tags_j(r)}
    if op in ("label_from_tag", "label_from_tags"):
        assert isinstance(r, str)
        return {"val": r}
    if op in ("import_segment", "import_bbox"):
        return {"val": p._ann_j(r)}
    if op == "import_sequence":
        assert isinstance(r, list)
        return {"val": [p._ann_j(a) for a in r]}
    if op == "import_annotation":
        return {"val": p._clip_ann_j(r)}
    if op == "export_segment":
        return {"val": p._segment_j(r)}
    if op == "export_bbox":
        return {"val": p._bbox_j(r)}
    if op == "export_sequence":
        return {"val": [p._segment_j(s) for s in r.segments]}
    if op == "export_annotation":
        return {"val": p._crow_j(r)}
    raise AssertionError(op)


# ---------------------------------------------------------------------- snapshots of the arguments
def _snap_val(v):
    from soundevent import data
    p = P()
    if isinstance(v, data.Tag):
        return p._tag_j(v)
    if isinstance(v, data.Term):
        return p._term_j(v)
    if isinstance(v, dict):
        return [[_snap_val(k), _snap_val(x)] for k, x in v.items()]
    if isinstance(v, (list, tuple)):
        return [_snap_val(x) for x in v]
    if callable(v):
        return ["fn", id(v), repr(getattr(v, "spec", None))]
    return v if isinstance(v, (str, int, float, bool, type(None))) else repr(v)


def _snap_rec(r):
    return [str(r.path), r.samplerate, repr(r.time_expansion), str(r.uuid), r.channels, repr(r.duration)]


def _snap_ann(a):
    p = P()
    return [str(a.uuid), str(a.sound_event.uuid), p._ann_j(a), id(a.sound_event.recording), len(a.notes)]


def _snapshot(live):
    import attr
    p = P()
    out = {}
    for name, (key, kind) in COMPS[live["op"]].items():
        v = live[name]
        if kind in ("label_kw", "tag_kw", "tags_kw"):
            out[name] = _snap_val(v)
        elif kind in ("rec", "sr_rec"):
            out[name] = _snap_rec(v)
        elif kind in ("tag", "tags"):
            out[name] = _snap_val(v)
        elif kind in ("segment", "bbox"):
            out[name] = [repr(getattr(v, a.name)) for a in attr.fields(type(v))]
        elif kind == "seq":
            out[name] = [p._segment_j(s) for s in v.segments]
        elif kind == "crow":
            out[name] = [None if v.notated_path is None else str(v.notated_path),
                         [repr(b) for b in getattr(v, "bboxes", [])],
                         [[repr(s) for s in q.segments] for q in (lambda q: q if isinstance(q, list) else [q])(getattr(v, "seq", []))]]
        elif kind == "ann":
            out[name] = _snap_ann(v)
        elif kind == "anns":
            out[name] = [_snap_ann(a) for a in v]
        elif kind == "clip":
            out[name] = [str(v.uuid), [_snap_ann(a) for a in v.sound_events], len(v.sequences), len(v.tags), _snap_rec(v.clip.recording)]
    return out


# ---------------------------------------------------------------------- the caller edits what it got back
def _junk_tag():
    from soundevent import data
    return data.Tag(term=data.term_from_key("poisoned"), value="poisoned")


def _poison_tags(tags, owned):
    """in place: the values of the tags, and the list itself - unless they are the caller's own objects
    (`tag_mapping` values and the tags of `tag_fn` belong to the caller and are handed back as they are)"""
    n = 0
    for t in list(tags):
        if id(t) not in owned:
            t.value = t.value + "~poisoned"
            n += 1
    if isinstance(tags, list) and id(tags) not in owned:
        tags.append(_junk_tag())
        n += 1
    return n


def _poison_ann(a, owned):
    n = _poison_tags(a.tags, owned)
    g = a.sound_event.geometry
    if g is not None and isinstance(g.coordinates, list) and g.coordinates and isinstance(g.coordinates[0], float):
        g.coordinates[0] = g.coordinates[0] + 4096.0
        g.coordinates.reverse()
        n += 1
    return n


def _poison(lr):
    try:
        return _poison_(lr)
    except Exception:  # noqa: BLE001 - an object that refuses the edit is simply not poisoned
        return False


def _poison_(lr):
    import crowsetta
    from soundevent import data
    r, owned = lr.res, lr.owned
    n = 0
    if isinstance(r, list) and all(isinstance(t, data.Tag) for t in r):
        n += _poison_tags(r, owned)
    elif isinstance(r, data.SoundEventAnnotation):
        n += _poison_ann(r, owned)
    elif isinstance(r, list) and all(isinstance(a, data.SoundEventAnnotation) for a in r):
        for a in r[:1] + r[-1:]:
            n += _poison_ann(a, owned)
        if r:
            r.append(r[0])
            r.reverse()
            n += 1
    elif isinstance(r, data.ClipAnnotation):
        for a in r.sound_events[:1] + r.sound_events[-1:]:
            n += _poison_ann(a, owned)
        if r.sound_events:
            r.sound_events.append(r.sound_events[0])
            n += 1
        for sa in r.sequences[:1]:
            if sa.sequence.sound_events:
                sa.sequence.sound_events.reverse()
                sa.sequence.sound_events.pop()
                n += 1
    elif isinstance(r, crowsetta.BBox):
        r.label = "poisoned"               # (the validators of crowsetta.BBox also run on assignment: keep it valid)
        r.high_freq = r.high_freq + 4096.0
        r.offset = r.offset + 4096.0
        n += 1
    elif isinstance(r, crowsetta.Annotation):
        bb = getattr(r, "bboxes", None)
        if isinstance(bb, list) and bb:
            bb[0].label = "poisoned"
            bb.append(bb[0])
            bb.reverse()
            n += 1
        q = getattr(r, "seq", None)
        if q is not None:
            n += _poison_seq(q)
    elif isinstance(r, crowsetta.Sequence):
        n += _poison_seq(r)
    return n > 0


def _poison_seq(q):
    n = 0
    for name in ("labels", "onsets_s", "offsets_s", "onset_samples", "offset_samples"):
        arr = getattr(q, name, None)
        try:
            if arr is not None and len(arr):
                arr[0] = arr[-1]
                arr[...] = arr[::-1].copy()
                n += 1
        except (TypeError, ValueError):
            pass
    return n


# ---------------------------------------------------------------------- the composite base operation
def _base_to_model(step):
    b = P().OPS[step["op"]]
    return {"op": b.model_op, "inp": b.to_model(step["inp"])}


def _base_compare(step, io, mo):
    b = P().OPS[step["op"]]
    if b.compare is not None:
        return b.compare(step["inp"], io, mo)
    a = {k: v for k, v in io.items() if k != "trace"} if isinstance(io, dict) else io
    return None if a == mo else f"{step['op']}: implementation and model disagree"


BASE = Op("step", None, to_model=_base_to_model, compare=_base_compare, model_op="step")
REUSE = ("same", "assign", "inplace", "copy_update", "deep_copy_update", "copy_assign")

HISTORY = history.history_op("history", BASE, _build, _call, _canon, snapshot=_snapshot, modify=_modify, poison=_poison)


def fresh_modules():
    """Every history starts from freshly initialised converter modules (re-executed in place, as in a new
    interpreter), so that what one history leaves behind at module level (a cache, a shared default) cannot make
    a *later* history fail: a failing history is then a self-contained replay."""
    import importlib
    import sys
    try:
        for m in ("labels", "segment", "bbox", "sequence", "annotation"):
            mod = sys.modules.get("soundevent.io.crowsetta." + m)
            if mod is not None:
                importlib.reload(mod)
        pkg = sys.modules.get("soundevent.io.crowsetta")
        if pkg is not None:
            importlib.reload(pkg)
    except Exception:  # noqa: BLE001 - no isolation then; the fresh-process confirmation still applies
        pass


def _isolated(impl):
    def run(inp):
        fresh_modules()
        return impl(inp)
    return run


HISTORY.impl = _isolated(HISTORY.impl)


# ====================================================================== tag histories (store semantics in Lean)
KINDS = ("label_to_tags", "segment", "bbox", "sequence", "annotation_seq", "annotation_bbox")


def _tag_call(c):
    """the tags (live objects, flat: elements in order, tags of an element in order) an importer builds for elements
    with the given labels"""
    import crowsetta
    p = P()
    cio = p._cio()
    kw = p._label_kwargs(c.get("opts"))
    labels, kind = c["labels"], c["kind"]
    rec = _mk_rec({"samplerate": "8", "te": "1"})

    def seg(i, lab):
        return crowsetta.Segment.from_keyword(label=lab, onset_s=float(i), offset_s=float(i) + 0.5)

    def box(i, lab):
        return crowsetta.BBox(onset=float(i), offset=float(i) + 0.5, low_freq=1.0, high_freq=2.0, label=lab)
    if kind == "label_to_tags":
        anns = None
        tags = [t for lab in labels for t in cio.label_to_tags(lab, **kw)]
        return tags
    if kind == "segment":
        anns = [cio.segment_to_annotation(seg(i, lab), rec, **kw) for i, lab in enumerate(labels)]
    elif kind == "bbox":
        anns = [cio.bbox_to_annotation(box(i, lab), rec, **kw) for i, lab in enumerate(labels)]
    elif kind == "sequence":
        anns = cio.sequence_to_annotations(crowsetta.Sequence.from_segments([seg(i, lab) for i, lab in enumerate(labels)]), rec, **kw)
    elif kind == "annotation_seq":
        a = crowsetta.Annotation(annot_path="annots.csv", notated_path="rec.wav",
                                 seq=crowsetta.Sequence.from_segments([seg(i, lab) for i, lab in enumerate(labels)]))
        anns = cio.annotation_to_clip_annotation(a, recording=rec, **kw).sound_events
    elif kind == "annotation_bbox":
        a = crowsetta.Annotation(annot_path="annots.csv", notated_path="rec.wav", bboxes=[box(i, lab) for i, lab in enumerate(labels)])
        anns = cio.annotation_to_clip_annotation(a, recording=rec, **kw).sound_events
    else:
        raise AssertionError(kind)
    return [t for a in anns for t in a.tags]


def _impl_tag_history(inp):
    p = P()
    flats, trace = [], []
    for ev in inp["events"]:
        if "call" in ev:
            c = ev["call"]
            flats.append(_tag_call(c))
        else:
            k, a, v = ev["edit"]
            if k < len(flats) and flats[k] is not None and a < len(flats[k]):
                flats[k][a].value = v
        trace.append([None if f is None else [p._tag_j(t) for t in f] for f in flats])
    return {"trace": trace}


def _to_model_tag_history(inp):
    return {"events": [{"call": {"opts": ev["call"].get("opts"), "labels": ev["call"]["labels"]}} if "call" in ev else ev
                       for ev in inp["events"]]}


def _cmp_tag_history(inp, io, mo):
    if "raise" in io:
        return "the history raised %r" % (io,)
    if io.get("trace") == mo.get("trace"):
        return None
    for n, (a, b) in enumerate(zip(io["trace"], mo["trace"])):
        if a != b:
            for k, (x, y) in enumerate(zip(a, b)):
                if x != y:
                    return (f"after event {n} ({'call' if 'call' in inp['events'][n] else 'in-place edit ' + str(inp['events'][n]['edit'])}): "
                            f"the tags of result {k} read {x} but every call builds its own tags from its own label and an edit "
                            f"touches the edited result only: {y}")
            return f"after event {n}: number of results differs"
    return "tag history: implementation and store model disagree"


TAG_HISTORY = Op("tag_history", _isolated(_impl_tag_history), to_model=_to_model_tag_history, compare=_cmp_tag_history,
                 nontrivial=lambda inp, out: isinstance(out, dict) and "trace" in out and any("edit" in e for e in inp["events"]))


# ====================================================================== positional calls
# parameter of the public signature -> how the live value is obtained from the base input / live objects
def _pos_values(fn, live, fill):
    """name -> value for every parameter of the table that the base input determines (live objects of `_build`),
    plus the model's defaults for the parameters the base input leaves out (`fill`)"""
    b, kw = live["inp"], dict(live["kw"])
    vals = {}
    if fn == "label_to_tags":
        vals.update(kw)
        vals["label"] = b["label"]
        return vals, {}
    if fn == "label_from_tag":
        vals.update(kw)
        vals["tag"] = live["tag"]
        if b.get("separator") is not None:
            vals["separator"] = b["separator"]
        return vals, {}
    if fn == "label_from_tags":
        named = ("seq_label_fn", "select_by_key", "index", "separator", "empty_label")
        vals.update({k: v for k, v in kw.items() if k in named})
        vals["tags"] = live["tags"]
        return vals, {k: v for k, v in kw.items() if k not in named}
    if fn in ("segment_to_annotation", "bbox_to_annotation", "sequence_to_annotations"):
        first = {"segment_to_annotation": "segment", "bbox_to_annotation": "bbox", "sequence_to_annotations": "sequence"}[fn]
        src = {"segment_to_annotation": "segment", "bbox_to_annotation": "bbox", "sequence_to_annotations": "seq"}[fn]
        vals[first] = live[src]
        vals["recording"] = live["rec"]
        vals["adjust_time_expansion"] = b["adjust"]
        return vals, kw
    if fn == "annotation_to_clip_annotation":
        vals["annot"], vals["recording"], vals["adjust_time_expansion"] = live["crow"], live["rec"], b["adjust"]
        return vals, kw
    if fn == "segment_from_annotation":
        vals["obj"] = live["ann"]
        if b.get("cast") is not None:
            vals["cast_to_segment"] = b["cast"]
        return vals, kw
    if fn == "bbox_from_annotation":
        vals["obj"], vals["cast_to_bbox"], vals["raise_on_time_geometries"] = live["ann"], b["cast"], b["raise_time"]
        return vals, kw
    if fn == "sequence_from_annotations":
        vals["annotations"], vals["cast_to_segment"], vals["ignore_errors"] = live["anns"], b["cast"], b["ignore"]
        return vals, kw
    if fn == "annotation_from_clip_annotation":
        vals["annot"], vals["annot_path"], vals["annotation_fmt"] = live["clip"], "annots.csv", b["fmt"]
        vals["ignore_errors"], vals["cast_geometry"] = b["ignore"], b["cast"]
        extra = dict(kw)
        if b["fmt"] == "bbox":
            extra["raise_on_time_geometries"] = b["raise_time"]
        return vals, extra
    raise AssertionError(fn)


FN_OP = {"label_to_tags": "label_to_tags", "label_from_tag": "label_from_tag", "label_from_tags": "label_from_tags",
         "segment_to_annotation": "import_segment", "bbox_to_annotation": "import_bbox",
         "sequence_to_annotations": "import_sequence", "annotation_to_clip_annotation": "import_annotation",
         "segment_from_annotation": "export_segment", "bbox_from_annotation": "export_bbox",
         "sequence_from_annotations": "export_sequence", "annotation_from_clip_annotation": "export_annotation"}


def fill_values(fn, d):
    """the model's defaults (driver op `defaults`) for the optional parameters of `fn`: needed to pass a later
    parameter positionally when the case leaves an earlier one out"""
    none = {"label_to_tags": ("tag_fn", "tag_mapping", "term_mapping", "key_mapping", "key", "term"),
            "label_from_tag": ("label_fn", "label_mapping"), "label_from_tags": ("seq_label_fn", "select_by_key", "index"),
            "segment_to_annotation": ("notes", "created_by"), "bbox_to_annotation": ("notes", "created_by"),
            "sequence_to_annotations": ("created_by",),
            "annotation_to_clip_annotation": ("tags", "notes", "created_by", "recording_kwargs")}.get(fn, ())
    f = {k: None for k in none}
    f.update({"label_to_tags": {"fallback": d["fallback"], "empty_labels": [d["empty_label"]]},
              "label_from_tag": {"value_only": d["value_only"], "separator": d["tag_separator"]},
              "label_from_tags": {"separator": d["join_separator"], "empty_label": d["empty_label"]},
              "segment_from_annotation": {"cast_to_segment": d["seg_cast"]}}.get(fn, {}))
    return f


def _impl_positional(inp):
    p = P()
    fn, k, order = inp["fn"], inp["k"], inp["order"]
    step = {"op": FN_OP[fn], "inp": inp["base"]}
    live = _build(step)
    given, extra = _pos_values(fn, live, inp["fill"])
    vals = {**inp["fill"], **given}
    pos = []
    for name in order[:k]:
        if name not in vals:
            raise AssertionError(f"no value for positional parameter {name}")
        pos.append(vals[name])
    kw = {n: v for n, v in vals.items() if n in order[k:] and (n in given or inp.get("pass_fill"))}
    items = list(kw.items()) + list(extra.items())
    if inp.get("kw_order") == "reversed":
        items.reverse()
    f = getattr(p._cio(), fn, None)
    if f is None:
        import soundevent.io.crowsetta.labels as labels
        f = getattr(labels, fn)
    r = f(*pos, **dict(items))
    return _canon(step, live, _Live(r, set()))


def _to_model_positional(inp):
    return _base_to_model({"op": FN_OP[inp["fn"]], "inp": inp["base"]})


def _cmp_positional(inp, io, mo):
    m = _base_compare({"op": FN_OP[inp["fn"]], "inp": inp["base"]}, io, mo)
    if m:
        return (f"{inp['fn']} called with its first {inp['k']} arguments by position "
                f"({', '.join(inp['order'][:inp['k']])}) does not do what the keyword call does: {m}")
    return None


POSITIONAL = Op("positional", _impl_positional, to_model=_to_model_positional, compare=_cmp_positional, model_op="step")


def signature_table():
    """positional-or-keyword parameters of every public converter, re-extracted from the imported modules"""
    p = P()
    cio = p._cio()
    import soundevent.io.crowsetta.labels as labels
    out = {}
    for fn in FN_OP:
        f = getattr(cio, fn, None) or getattr(labels, fn, None)
        if f is None:
            out[fn] = None
            continue
        ps = inspect.signature(f).parameters.values()
        out[fn] = {"positional": [q.name for q in ps if q.kind in (q.POSITIONAL_ONLY, q.POSITIONAL_OR_KEYWORD)],
                   "required": [q.name for q in ps if q.default is q.empty and q.kind not in (q.VAR_POSITIONAL, q.VAR_KEYWORD)],
                   "kwonly": sorted(q.name for q in ps if q.kind == q.KEYWORD_ONLY),
                   "var_kw": any(q.kind == q.VAR_KEYWORD for q in ps)}
    return out


# ====================================================================== self-contained replays
_FRESH = r"""
import json, sys, warnings
warnings.filterwarnings("ignore")
src, verif, name = sys.argv[1:4]
sys.path.insert(0, verif)
sys.path.insert(0, src)
from harness.core import canon_exc
from harness.props import c10
inp = json.load(sys.stdin)
try:
    out = c10.OPS[name].impl(inp)
except Exception as e:
    out = canon_exc(e)
json.dump(out, sys.stdout, default=str)
"""


def fresh_output(op_name, inp, timeout=120):
    """the operation's output for `inp` when it is the only thing that ever ran in the interpreter"""
    import json
    import os
    import subprocess
    import sys
    from . import leanio
    src = os.environ.get("SOUNDEVENT_SRC", "/repo/src")
    p = subprocess.run([sys.executable, "-c", _FRESH, src, leanio.VERIF, op_name], input=json.dumps(inp), text=True,
                       stdout=subprocess.PIPE, stderr=subprocess.DEVNULL, timeout=timeout, cwd=leanio.VERIF)
    return json.loads(p.stdout)


def keep_self_contained(ctx, op, failures, examine=4, want=2):
    """A history that fails only because an *earlier* history of this process left something behind (a module-level
    cache) is not a replay: its input alone does not fail.  Re-run the smallest failing histories alone in a fresh
    interpreter and, when at least one fails there as well, report those (the others are explained by them)."""
    fs = sorted([f for f in failures if f.kind == "property"], key=lambda f: f.size())
    if not fs:
        return
    confirmed = []
    for f in fs[:examine]:
        try:
            io = fresh_output(op.name, f.inp)
            msg = op.holds(ctx, f.inp, io) if op.holds is not None else None
            if not msg and op.compare is not None and not op.no_model:
                msg = op.compare(f.inp, io, ctx.model(op.model_op, op.to_model(f.inp)))
        except Exception as e:  # noqa: BLE001 - no confirmation, keep what we have
            ctx.note("fresh-process confirmation failed: %r" % (e,))
            return
        if msg:
            f.impl, f.detail = io, msg + " [fails alone in a fresh interpreter]"
            confirmed.append(f)
            if len(confirmed) >= want:
                break
    if confirmed:
        drop = {id(f) for f in failures if f.kind == "property"} - {id(f) for f in confirmed}
        ctx.failures[:] = [f for f in ctx.failures if id(f) not in drop]
        ctx.note(f"{op.name}: {len(drop)} further failing histories are not listed (they fail through state left behind by, or like, "
                 "the self-contained ones reported)")
    else:
        ctx.note(f"{op.name}: none of the {min(len(fs), examine)} smallest failing histories fails alone in a fresh interpreter - the "
                 "replays depend on what ran before them in the process")


def drop_not_self_contained(ctx, history_ops=("history", "tag_history"), examine=3):
    """When a history already shows (self-contained) that state survives between calls, single-input failures that do
    *not* fail alone in a fresh interpreter are consequences of what earlier cases of this run left behind: their input
    is not a replay.  They are dropped in favour of the history; operations whose smallest failures do fail alone keep
    all of them.  Without a failing history nothing is dropped."""
    if not any(f.kind == "property" and f.op in history_ops for f in ctx.failures):
        return
    ops = P().OPS
    by_op = {}
    for f in ctx.failures:
        if f.kind == "property" and f.op not in history_ops and f.op in ops:
            by_op.setdefault(f.op, []).append(f)
    for name, fs in by_op.items():
        op = ops[name]
        fs.sort(key=lambda f: f.size())
        alone = False
        try:
            for f in fs[:examine]:
                io = fresh_output(name, f.inp)
                msg = op.holds(ctx, f.inp, io) if op.holds is not None else None
                if not msg:
                    mo = ctx.model(op.model_op, op.to_model(f.inp))
                    if op.compare is not None:
                        msg = op.compare(f.inp, io, mo)
                    else:
                        a = {k: v for k, v in io.items() if k != "trace"} if isinstance(io, dict) else io
                        msg = None if a == mo else "implementation and model disagree"
                if msg:
                    alone = True
                    break
        except Exception as e:  # noqa: BLE001
            ctx.note("fresh-process confirmation failed: %r" % (e,))
            continue
        if not alone:
            drop = {id(f) for f in fs}
            ctx.failures[:] = [f for f in ctx.failures if id(f) not in drop]
            ctx.note(f"{name}: {len(fs)} failing inputs do not fail alone in a fresh interpreter (state left behind by earlier cases of "
                     "this run, shown self-contained by the failing history): not listed as replays")
