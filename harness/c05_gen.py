"""C05 generators for the kinds of HISTORIES.md: numeric and size boundaries, lattices, sibling lifts,
neighbours of an input (inputs a cache keyed by part of the input would confuse with it).

Everything here works on JSON geometries ({"type", "coordinates"} with exact rational strings) and never
touches the code under test: validity of what is produced is decided by the caller (`keep`)."""
import math
from fractions import Fraction

from .rat import rat, frac

MAXF = 5_000_000


def enc(c):
    if isinstance(c, (list, tuple)):
        return [enc(x) for x in c]
    return c if isinstance(c, str) else rat(c)


def dec(c):
    if isinstance(c, list):
        return [dec(x) for x in c]
    return frac(c)


def g(ty, c):
    return {"type": ty, "coordinates": enc(c)}


def exact_ok(*xs):
    """every value, every pairwise sum / difference is a binary64 number (<= 52 significant bits)"""
    xs = [Fraction(x) for x in xs]
    for i, a in enumerate(xs):
        for b in xs[i:]:
            for v in (a, a + b, abs(a - b)):
                if v != 0:
                    n = v.numerator
                    if (n.bit_length() - ((n & -n).bit_length() - 1)) > 52:
                        return False
    return True


# ------------------------------------------------------------------ tolerance-sized extents
TIME_BASES = [Fraction(0), Fraction(1, 4), Fraction(1), Fraction(600), Fraction(86400)]
FREQ_BASES = [Fraction(0), Fraction(1000), Fraction(40000), Fraction(4000000)]
EXPONENTS = [7, 10, 14, 17, 20, 24, 27, 30, 34, 40]


def tiny_extents():
    """geometries of every type whose extent is 2^-k next to a small or a large offset (relative extent
    10^-3 ... 10^-12): `np.isclose`, `round`, `float32` and `1e-5 * magnitude` style shortcuts all sit
    inside this range.  All coordinates are dyadic with exact sums and differences."""
    out = []
    for i, tb in enumerate(TIME_BASES):
        for j, k in enumerate(EXPONENTS):
            e = Fraction(1, 1 << k)
            fb = FREQ_BASES[(i + j) % len(FREQ_BASES)]
            kf = EXPONENTS[(j + 3) % len(EXPONENTS)]
            d = Fraction(1, 1 << kf)
            if not exact_ok(tb, tb + e, tb + 2 * e) or not exact_ok(fb, fb + d, fb + 2 * d):
                continue
            t0, t1, t2 = tb, tb + e, tb + 2 * e
            f0, f1, f2 = fb, fb + d, fb + 2 * d
            out += [
                g("TimeInterval", [t0, t1]),
                g("BoundingBox", [t0, f0, t1, f1]),
                g("BoundingBox", [t0, f0, t1, f0 + 1000]),          # tiny duration, wide band
                g("BoundingBox", [t0, f0, t0 + 1, f1]),             # long, tiny bandwidth
                g("LineString", [[t0, f1], [t1, f0], [t2, f2]]),
                g("LineString", [[t0, f0], [t1, f0]]),
                g("MultiPoint", [[t1, f0], [t0, f1]]),
                g("MultiPoint", [[t0, f0], [t0, f1], [t1, f0]]),
                g("MultiLineString", [[[t0, f0], [t1, f1]], [[t1, f2], [t2, f0]]]),
                g("Polygon", [[[t0, f0], [t2, f0], [t1, f2], [t0, f0]]]),
                g("MultiPolygon", [[[[t0, f0], [t1, f0], [t1, f1], [t0, f0]]],
                                   [[[t1, f1], [t2, f1], [t2, f2], [t1, f1]]]]),
            ]
    return out


def epsilon_ties(rng, n):
    """vertices that differ by +-2^-k from a common value: which vertex attains a bound is decided at the
    last bits (exact ties included: several vertices attain the same bound)"""
    out = []
    for i in range(n):
        tb = TIME_BASES[i % len(TIME_BASES)]
        fb = FREQ_BASES[(i // 2) % len(FREQ_BASES)]
        k = rng.choice([10, 17, 24, 30])
        e = Fraction(1, 1 << k)
        if not exact_ok(tb + 1, tb + 1 + 2 * e, tb + 1 - 2 * e) or not exact_ok(fb + 1, fb + 1 + 2 * e, fb + 1 - 2 * e):
            continue

        def t():
            return tb + 1 + rng.choice([-2, -1, 0, 0, 1, 2]) * e

        def f():
            return fb + 1 + rng.choice([-2, -1, 0, 0, 1, 2]) * e
        m = rng.randint(2, 6)
        pts = [[t(), f()] for _ in range(m)]
        ty = ["MultiPoint", "LineString", "MultiLineString"][i % 3]
        if ty == "MultiPoint":
            out.append(g(ty, pts))
        elif ty == "LineString":
            out.append(g(ty, pts))
        else:
            a, b = tb + 1 - 2 * e, tb + 1 + 2 * e
            out.append(g(ty, [[[a, f()], [t(), f()], [b, f()]], [[a, f()], [b, f()]]]))
    return out


# ------------------------------------------------------------------ sizes
def _ring(n, ct, cf, r, k):
    """a convex-position (hence simple) closed ring of n distinct vertices on the 2^-k grid"""
    q = 1 << k
    pts, seen = [], set()
    for i in range(n):
        a = 2 * math.pi * i / n
        p = (Fraction(round((ct + r * math.cos(a)) * q), q), Fraction(round((cf + r * math.sin(a)) * q), q))
        if p not in seen:
            seen.add(p)
            pts.append(list(p))
    pts.append(list(pts[0]))
    return pts


def sized(rng):
    """geometries around the sizes where an implementation could switch strategy (> 16, > 256, >= 1024
    vertices / parts), one below and one above each threshold"""
    out = []
    e30 = Fraction(1, 1 << 30)      # not a float32 number next to these magnitudes: a reduced-precision path shows
    for n in (16, 17, 256, 257, 1023, 1024, 1100):
        k = 4
        pts = [[Fraction(i, 16) + (e30 if i % 2 == 0 else 0), Fraction(rng.randint(0, 8 << k), 1 << k) + rng.choice([0, e30, -e30]) + 1]
               for i in range(n)]
        out.append(g("LineString", pts))
        mp = [[Fraction(rng.randint(0, 8 << k), 1 << k) + rng.choice([0, e30, -e30]) + 1,
               Fraction(rng.randint(0, 8 << k), 1 << k) + rng.choice([0, e30, -e30]) + 1] for _ in range(n)]
        out.append(g("MultiPoint", mp))
    for n in (17, 257, 1025):
        out.append(g("Polygon", [_ring(n, 40, 40, 32, 10), _ring(max(3, n // 8), 40, 40, 4, 10)]))
    for n in (17, 300):
        out.append(g("MultiLineString", [[[Fraction(i), Fraction(rng.randint(0, 64), 8)],
                                          [Fraction(i) + Fraction(1, 2), Fraction(rng.randint(0, 64), 8)]] for i in range(n)]))
        out.append(g("MultiPolygon", [[_ring(5, 10 * i + 4, 4 + (i % 3), 3, 6)] + ([_ring(4, 10 * i + 4, 4 + (i % 3), 1, 6)] if i % 5 == 0 else [])
                                      for i in range(n)]))
    return out


# ------------------------------------------------------------------ non-dyadic lattices
def lattice():
    """every point of two non-dyadic axes (time step 0.01, frequency step 0.1): bounds, conversion and
    the corner positions must be those very floats (`int(x / step) * step`, `round(x, 2)` style snapping
    is off at 0.29, 0.57, 0.58 ...)"""
    out = []
    for k in range(0, 121):
        t0, t1 = k * 0.01, (k + 1) * 0.01
        f0, f1 = k * 0.1, (k + 7) * 0.1
        out.append({"type": "TimeStamp", "coordinates": rat(t0)})
        out.append({"type": "TimeInterval", "coordinates": [rat(t0), rat(t1)]})
        out.append({"type": "BoundingBox", "coordinates": [rat(t0), rat(f0), rat(t1), rat(f1)]})
        if k % 4 == 0:
            out.append({"type": "LineString", "coordinates": [[rat(t0), rat(f1)], [rat(t1), rat(f0)]]})
            out.append({"type": "MultiPoint", "coordinates": [[rat(t1), rat(f0)], [rat(t0), rat(f1)]]})
    return out


# ------------------------------------------------------------------ siblings
def sibling_lifts(gj):
    """the same content through every sibling type that can carry it: every assertion made for one type
    is made for its mirror images (Polygon <-> MultiPolygon part, LineString <-> MultiLineString line /
    MultiPoint, Point <-> MultiPoint, TimeStamp <-> TimeInterval / LineString, box <-> rectangle ring)"""
    ty, c = gj["type"], gj["coordinates"]
    mx = rat(MAXF)
    out = []
    if ty == "Point":
        out += [g("MultiPoint", [c]), g("MultiPoint", [c, c])]
    elif ty == "LineString":
        out += [g("MultiPoint", c), g("MultiLineString", [c]), g("MultiLineString", [c, c])]
    elif ty == "MultiPoint" and len(c) >= 2:
        out += [g("LineString", c)]
    elif ty == "Polygon":
        shifted = [[[rat(frac(x) + 16), y] for x, y in r] for r in c]
        out += [g("MultiPolygon", [c]), g("MultiPolygon", [c, shifted]), g("MultiPolygon", [shifted, c]),
                g("MultiLineString", c)]
    elif ty == "MultiPolygon":
        out += [g("Polygon", p) for p in c[:3]] + [g("MultiPolygon", list(reversed(c)))]
    elif ty == "MultiLineString":
        out += [g("LineString", ln) for ln in c[:3]] + [g("MultiLineString", list(reversed(c)))]
    elif ty == "TimeStamp":
        out += [g("TimeInterval", [c, c]), g("LineString", [[c, "0"], [c, mx]]), g("BoundingBox", [c, "0", c, mx])]
    elif ty == "TimeInterval":
        s, e = c
        out += [g("BoundingBox", [s, "0", e, mx]),
                g("Polygon", [[[e, "0"], [e, mx], [s, mx], [s, "0"], [e, "0"]]])]
    elif ty == "BoundingBox":
        s, l, e, h = c
        out += [g("Polygon", [[[e, l], [e, h], [s, h], [s, l], [e, l]]]), g("MultiPoint", [[s, l], [e, h]]),
                g("LineString", [[s, l], [e, h]])]
    return out


# ------------------------------------------------------------------ neighbours
EPS = Fraction(1, 1 << 24)


def _leaves(c, path=()):
    if isinstance(c, list):
        for i, x in enumerate(c):
            yield from _leaves(x, path + (i,))
    else:
        yield path


def _set(c, path, v):
    if not path:
        return v
    c = list(c)
    c[path[0]] = _set(c[path[0]], path[1:], v)
    return c


def _get(c, path):
    for i in path:
        c = c[i]
    return c


def neighbours(gj, rng):
    """inputs that share a part with `gj` (what a cache keyed by part of the input would confuse with it):
    one coordinate moved by 2^-24, everything shifted, a prefix kept and the rest extended, the order of
    the parts changed, the same coordinates under another type tag"""
    ty, c = gj["type"], gj["coordinates"]
    out = []
    leaves = list(_leaves(c))
    # one coordinate nudged (the last ones keep interval / line ordering valid when nudged upwards)
    for path in ([leaves[-1]] + ([rng.choice(leaves)] if leaves else [])):
        v = frac(_get(c, path)) if path else frac(c)
        c2 = _set(c, path, rat(v + EPS)) if path else rat(v + EPS)
        if ty in ("Polygon", "MultiPolygon"):
            # keep closed rings closed: move every occurrence of that vertex value in its ring
            ring = _get(c, path[:-2])
            old = _get(c, path[:-1])
            new = list(old)
            new[path[-1]] = rat(v + EPS)
            c2 = _set(c, path[:-2], [new if p == old else p for p in ring])
        out.append({"type": ty, "coordinates": c2})
    # all times shifted by one second / one part kept and another changed
    if ty == "TimeStamp":
        out.append(g(ty, rat(frac(c) + 1)))
    elif ty == "TimeInterval":
        out.append(g(ty, [rat(frac(c[0]) + 1), rat(frac(c[1]) + 1)]))
        out.append(g(ty, [c[0], rat(frac(c[1]) + 1)]))             # the same start, another end
    elif ty == "BoundingBox":
        out.append(g(ty, [rat(frac(c[0]) + 1), c[1], rat(frac(c[2]) + 1), c[3]]))
        out.append(g(ty, [c[0], c[1], c[2], rat(frac(c[3]) + 1)]))  # same time extent, another band
        out.append(g(ty, [c[0], c[1], rat(frac(c[2]) + 1), c[3]]))
    elif ty == "Point":
        out.append(g(ty, [c[0], rat(frac(c[1]) + 1)]))
        out.append(g(ty, [rat(frac(c[0]) + 1), c[1]]))
    elif ty in ("LineString", "MultiPoint"):
        last = c[-1]
        out.append(g(ty, c + [[rat(frac(last[0]) + 1), rat(frac(last[1]) + 3)]]))      # prefix kept, extended
        out.append(g(ty, c[:-1] + [[rat(frac(last[0]) + 1), last[1]]]))                  # same first vertex
        out.append(g(ty, [c[0]] + [[p[0], rat(frac(p[1]) + 2)] for p in c[1:-1]] + [c[-1]]))  # same end points
        if ty == "MultiPoint":
            out.append(g(ty, list(reversed(c))))
    elif ty == "MultiLineString":
        t_end = max(frac(p[0]) for ln in c for p in ln)
        out.append(g(ty, c + [[[rat(t_end + 1), "1"], [rat(t_end + 2), "9"]]]))
        out.append(g(ty, list(reversed(c))))
        out.append(g(ty, c[:1]))
    elif ty == "Polygon":
        out.append(g(ty, c[:1]))                                                          # holes dropped
        out.append(g(ty, [list(reversed(r)) for r in c]))                                 # other orientation
        out.append(g(ty, [[[rat(frac(x) + 1), y] for x, y in r] for r in c]))
    elif ty == "MultiPolygon":
        out.append(g(ty, c[:1]))
        out.append(g(ty, list(reversed(c))))
        out.append(g(ty, [p[:1] for p in c]))
        out.append(g(ty, c + [[[[rat(frac(x) + 32), rat(frac(y) + 1)] for x, y in r] for r in c[0]]]))
    # the same coordinates under another type tag
    other = {"Point": ["TimeInterval"], "TimeInterval": ["Point"], "LineString": ["MultiPoint"],
             "MultiPoint": ["LineString"], "Polygon": ["MultiLineString"], "MultiLineString": ["Polygon"]}
    for ty2 in other.get(ty, []):
        out.append({"type": ty2, "coordinates": c})
    return [x for x in out if x != gj]
