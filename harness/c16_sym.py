"""Tie 1b for C16: the kernels of create_range_dim / create_time_range / create_frequency_range,
get_coord_index and set_value_at_pos are *executed from the current source* on symbolic numbers, with
stand-ins for what they hand over to (np.arange, xr.Variable, the array's indexes / sizes / data), and
the decision trees are proved equal to `SE.Axis.rangeKernel` / `timeKernel` / `freqKernel` /
`indexKernel` / `setKernel` for all rationals.

The stand-ins observe behaviour, not names: locals, private helpers, the order of independent
statements, the spelling of a comparison may change freely.  A source that no longer fits them (or that
became untraceable) is a broken obligation, never a crash of the check."""
import math
from fractions import Fraction

from . import symtrace as st
from . import symx
from .symtrace import Sym, Untraceable

A = "SE.Axis."
ERR = {"ZeroDivisionError": ".error .zerodiv", "ValueError": ".error .invalid", "KeyError": ".error .key",
       "IndexError": ".error .index"}
CATCH = (ValueError, ZeroDivisionError, KeyError, IndexError)


class ZSym(Sym):
    """a symbolic rational with Python's division: a zero divisor raises ZeroDivisionError"""
    __slots__ = ()
    __hash__ = None

    @staticmethod
    def var(name):
        return ZSym(name, lambda env, n=name: env[n])

    @staticmethod
    def lift(o):
        if isinstance(o, Sym):
            return o
        s = Sym.lift(o)
        return ZSym(s.e, s.f)

    def _bin(self, o, sym, fn, rev=False):
        const = None if isinstance(o, Sym) else o
        o = ZSym.lift(o)
        a, b = (o, self) if rev else (self, o)
        if sym == "/":
            if b is o and const is not None:
                if Fraction(const) == 0:
                    raise ZeroDivisionError("division by zero")
            elif st._CUR.decide((f"{b.e} = 0", lambda env, b=b: b.f(env) == 0)):
                raise ZeroDivisionError("division by zero")
        return ZSym(f"({a.e} {sym} {b.e})", lambda env, a=a, b=b: fn(a.f(env), b.f(env)))

    def __neg__(self):
        return ZSym(f"(-{self.e})", lambda env, a=self: -a.f(env))



def sym_tie(ctx, name, fn, variables, ret_type, model_term, leaf_ok, tactic, meta):
    """trace `fn`, emit `def name`, register `∀ vars, name vars = model_term`.  A trace that fails (the
    stand-ins no longer fit the code) is a broken obligation, never a crash."""
    from .leanio import InfraError
    LEN_CALLS[0] = 0
    try:
        src, _tree, n = symx.extract(name, fn, variables, ret_type, leaf_ok, catch=CATCH,
                                     leaf_err=lambda nm: ERR.get(nm, ".error .index"))
    except InfraError:
        raise
    except Exception as e:  # noqa: BLE001
        ctx.symbolic_ties[name] = {"error": repr(e)[:300]}
        ctx.pre_failed.append(name)
        ctx.fail("obligation", name, detail=f"symbolic trace of the current source failed: {e!r}",
                 extra=dict(meta or {}))
        return
    ctx.symbolic_ties[name] = {"paths": n}
    if LEN_CALLS[0]:
        ctx.symbolic_ties[name]["len_of_stand_in_used"] = True   # see `_len_of`
    ctx.obligation(name, symx.tie(name, src, variables, model_term, tactic=tactic), meta)


def _cond(text, fn):
    return st._CUR.decide((text, fn))


def _arange_len(env, a, b, c):
    cv = c.f(env)
    if cv == 0:
        return 0
    return max(0, math.ceil((b.f(env) - a.f(env)) / cv))


# ------------------------------------------------------------------ create_range_dim and wrappers
class SLen:
    """`coords.size` of a symbolic arange: only its sign can be asked for"""
    __hash__ = None

    def __init__(self, a, b, c):
        self.a, self.b, self.c = a, b, c

    def _pos(self):
        a, b, c = self.a, self.b, self.c
        return _cond(f"0 < {A}arangeLen {a.e} {b.e} {c.e}", lambda env: _arange_len(env, a, b, c) > 0)

    def _only(self, o, allowed):
        if isinstance(o, bool) or not isinstance(o, int) or o not in allowed:
            raise Untraceable("the length of the arange is compared with something else than 0 / 1")

    def __gt__(self, o): self._only(o, (0,)); return self._pos()
    def __ge__(self, o): self._only(o, (1,)); return self._pos()
    def __ne__(self, o): self._only(o, (0,)); return self._pos()
    def __eq__(self, o): self._only(o, (0,)); return not self._pos()
    def __lt__(self, o): self._only(o, (1,)); return not self._pos()
    def __le__(self, o): self._only(o, (0,)); return not self._pos()
    def __bool__(self): return self._pos()
    def __index__(self): raise Untraceable("the length of the arange used as a number")
    __int__ = __index__


class SArange:
    """`np.arange(a, b, c)` (a zero step raised already), possibly with the last point removed"""
    ndim = 1

    def __init__(self, a, b, c, dropped=False):
        self.a, self.b, self.c, self.dropped = a, b, c, dropped

    @property
    def size(self):
        if self.dropped:
            raise Untraceable("length of the shortened coordinates")
        return SLen(self.a, self.b, self.c)

    @property
    def shape(self):
        return (self.size,)

    def __len__(self):
        raise Untraceable("len() of the symbolic arange (use .size)")

    def __getitem__(self, k):
        a, b, c = self.a, self.b, self.c
        if isinstance(k, int) and not isinstance(k, bool) and k == -1 and not self.dropped:
            return ZSym(f"({A}arangeLast {a.e} {b.e} {c.e})",
                        lambda env: a.f(env) + (max(_arange_len(env, a, b, c), 1) - 1) * c.f(env))
        if isinstance(k, slice) and (k.start, k.stop, k.step) in ((None, -1, None), (0, -1, None), (None, -1, 1)) \
                and not self.dropped:
            return SArange(a, b, c, True)
        raise Untraceable(f"unsupported indexing {k!r} of the coordinates")

    def astype(self, *a, **k):
        return self

    def copy(self, *a, **k):
        return self


class SVar:
    """`xr.Variable(dims, data, attrs)`"""
    def __init__(self, dims=None, data=None, attrs=None, *a, **k):
        self.dims, self.data, self.attrs = dims, data, dict(attrs or {})


class _Patched:
    """np.arange / xr.Variable replaced while the kernel runs (globally and, when the module under
    trace bound the names itself, in its namespace)"""
    def __init__(self, module):
        self.module = module
        self.saved = []

    def _set(self, obj, name, new):
        self.saved.append((obj, name, getattr(obj, name)))
        setattr(obj, name, new)

    def __enter__(self):
        import numpy
        import xarray
        real_arange, real_var = numpy.arange, xarray.Variable

        def arange(*a, **kw):
            kw = dict(kw)
            kw.pop("dtype", None)
            kw.pop("like", None)
            if len(a) > 3:
                a = a[:3]          # fourth positional = dtype
            if not any(isinstance(x, Sym) for x in list(a) + list(kw.values())):
                return real_arange(*a, **kw)
            if len(a) == 1 and "stop" not in kw:
                args = {"start": 0, "stop": a[0]}
            else:
                args = dict(zip(["start", "stop", "step"], a))
            args.update(kw)
            s, e, c = (ZSym.lift(args.get("start", 0)), ZSym.lift(args["stop"]), ZSym.lift(args.get("step", 1)))
            if _cond(f"{c.e} = 0", lambda env: c.f(env) == 0):
                raise ZeroDivisionError("np.arange with a zero step")
            return SArange(s, e, c)

        def variable(*a, **kw):
            names = ["dims", "data", "attrs"]
            d = dict(zip(names, a))
            d.update({k: v for k, v in kw.items() if k in names})
            if isinstance(d.get("data"), SArange):
                return SVar(**d)
            return real_var(*a, **kw)

        self._set(numpy, "arange", arange)
        self._set(xarray, "Variable", variable)
        for name, real, new in (("arange", real_arange, arange), ("Variable", real_var, variable)):
            if getattr(self.module, name, None) is real:
                self._set(self.module, name, new)
        return self

    def __exit__(self, *exc):
        for obj, name, old in reversed(self.saved):
            setattr(obj, name, old)
        self.saved = []


def _bool(b):
    return "true" if b else "false"


def _range_leaf(name):
    def leaf(v):
        if not isinstance(v, SVar) or not isinstance(v.data, SArange):
            raise Untraceable("the range constructor did not return a Variable over the arange")
        dims = v.dims if isinstance(v.dims, str) else (list(v.dims)[0] if len(list(v.dims)) == 1 else None)
        if dims != name:
            raise Untraceable(f"the dimension is called {v.dims!r}, not {name!r}")
        if "step" not in v.attrs:
            raise Untraceable("no `step` attribute")
        d = v.data
        return (f".ok ⟨{symx.num(d.a)}, {symx.num(d.b)}, {symx.num(d.c)}, {_bool(d.dropped)}, "
                f"{symx.num(v.attrs['step'])}⟩")
    return leaf


def range_ties(ctx):
    from soundevent.arrays import dimensions as dims
    V = ["start", "stop", "step", "size", "sr"]
    sy = {n: ZSym.var(n) for n in V}
    ret = f"Except {A}AErr {A}RangePlan"

    def tie(name, thunk, model, dim_name, op):
        def run():
            with _Patched(dims):
                return thunk()
        sym_tie(ctx, name, run, V, ret, model, _range_leaf(dim_name),
                tactic=f"unfold {name}\n  se_c16", meta={"op": op})

    for has_step in (True, False):
        for has_size in (True, False):
            kw = {}
            if has_step:
                kw["step"] = sy["step"]
            if has_size:
                kw["size"] = sy["size"]
            tag = ("s" if has_step else "n") + ("z" if has_size else "n")
            model = (f"{A}rangeKernel start stop {'(some step)' if has_step else 'none'} "
                     f"{'(some size)' if has_size else 'none'}")
            tie(f"ext_range_kernel_{tag}",
                lambda kw=kw: dims.create_range_dim("x", sy["start"], sy["stop"], **kw), model, "x", "range_dim")
    for has_step in (True, False):
        for has_sr in (True, False):
            kw = {}
            if has_step:
                kw["step"] = sy["step"]
            if has_sr:
                kw["samplerate"] = sy["sr"]
            tag = ("s" if has_step else "n") + ("r" if has_sr else "n")
            model = (f"{A}timeKernel start stop {'(some step)' if has_step else 'none'} "
                     f"{'(some sr)' if has_sr else 'none'}")
            tie(f"ext_time_kernel_{tag}",
                lambda kw=kw: dims.create_time_range(sy["start"], sy["stop"], **kw), model, "time", "range_dim")
    tie("ext_freq_kernel", lambda: dims.create_frequency_range(sy["start"], sy["stop"], sy["step"]),
        f"{A}freqKernel start stop step", "frequency", "range_dim")
    # call forms (the order and the names of the parameters are API): everything positional in the documented
    # order, everything by keyword
    import numpy as np
    tie("ext_range_kernel_pos", lambda: dims.create_range_dim("x", sy["start"], sy["stop"], sy["step"], sy["size"], np.float64),
        f"{A}rangeKernel start stop (some step) (some size)", "x", "range_dim")
    tie("ext_range_kernel_pos_size", lambda: dims.create_range_dim("x", sy["start"], sy["stop"], None, sy["size"]),
        f"{A}rangeKernel start stop none (some size)", "x", "range_dim")
    tie("ext_range_kernel_kw", lambda: dims.create_range_dim(size=sy["size"], stop=sy["stop"], start=sy["start"], name="x"),
        f"{A}rangeKernel start stop none (some size)", "x", "range_dim")
    tie("ext_time_kernel_pos", lambda: dims.create_time_range(sy["start"], sy["stop"], sy["step"], sy["sr"], "t2", np.float64),
        f"{A}timeKernel start stop (some step) (some sr)", "t2", "range_dim")
    tie("ext_time_kernel_pos_sr", lambda: dims.create_time_range(sy["start"], sy["stop"], None, sy["sr"]),
        f"{A}timeKernel start stop none (some sr)", "time", "range_dim")
    tie("ext_time_kernel_kw", lambda: dims.create_time_range(samplerate=sy["sr"], end_time=sy["stop"], start_time=sy["start"]),
        f"{A}timeKernel start stop none (some sr)", "time", "range_dim")
    tie("ext_freq_kernel_pos", lambda: dims.create_frequency_range(sy["start"], sy["stop"], sy["step"], "f2", np.float64),
        f"{A}freqKernel start stop step", "f2", "range_dim")
    tie("ext_freq_kernel_kw", lambda: dims.create_frequency_range(step=sy["step"], high_freq=sy["stop"], low_freq=sy["start"]),
        f"{A}freqKernel start stop step", "frequency", "range_dim")


# ------------------------------------------------------------------ get_coord_index / set_value_at_pos
class SInt:
    """an integer the array answered: `sizes[dim]` or `get_slice_bound(v, side)`, plus a literal offset"""
    __hash__ = None

    def __init__(self, base, off=0):
        self.base, self.off = base, off

    def _lit(self, o):
        if isinstance(o, bool) or not isinstance(o, int):
            raise Untraceable("index arithmetic with something else than an integer literal")
        return o

    def __add__(self, o): return SInt(self.base, self.off + self._lit(o))
    __radd__ = __add__
    def __sub__(self, o): return SInt(self.base, self.off - self._lit(o))
    def __index__(self): raise Untraceable("a looked-up index used as a concrete number")
    __int__ = __index__

    def _no(self, *a):
        raise Untraceable("comparison of a looked-up index")
    __lt__ = __le__ = __gt__ = __ge__ = __eq__ = __ne__ = _no

    def axis(self):
        return self.base[1] if self.base[0] == "size" else self.base[3]

    def lean(self):
        if self.base[0] == "size":
            return f"(.size ({self.off}))"
        _, right, v = self.base[:3]
        return f"(.bound {_bool(right)} {symx.num(v)} ({self.off}))"


# `len()` has to return a real int: the stand-ins answer with an opaque large number per axis, which the
# leaves read back as "the size of axis k plus a literal offset".  (A branch on the length itself is
# thereby followed as for a long axis; short axes are the differential runs' business.)
_LEN_BASE = 1_000_003
_LEN_SLACK = 1000
LEN_CALLS = [0]


def _len_of(axis):
    LEN_CALLS[0] += 1
    return _LEN_BASE * (axis + 1)


def _unlen(x):
    """a plain int that came out of `len()` of a stand-in (plus a small literal) -> SInt, else unchanged"""
    if isinstance(x, int) and not isinstance(x, bool):
        k, r = divmod(x + _LEN_SLACK, _LEN_BASE)
        if 1 <= k <= 8 and r <= 2 * _LEN_SLACK:
            return SInt(("size", k - 1), r - _LEN_SLACK)
    return x


def _plan(x, axis=None):
    x = _unlen(x)
    if isinstance(x, SInt):
        if axis is not None and x.axis() != axis:
            raise Untraceable(f"the lookup on axis {axis} answers with the size / a slice bound of axis {x.axis()}")
        return x.lean()
    if isinstance(x, int) and not isinstance(x, bool):
        return f"(.const ({x}))"
    raise Untraceable(f"the lookup returned {type(x).__name__}")


class SIndex:
    """`arr.indexes[dim]` of an increasing axis with range (lo, hi)"""
    is_monotonic_increasing = True
    is_unique = True

    def __init__(self, axis, lo, hi, attrs=None):
        self.axis, self.lo, self.hi = axis, lo, hi
        self.attrs = dict(attrs or {})      # `arr.coords[dim].attrs`: a hand-made axis carries none
        self.dims = (f"d{axis}",)

    def min(self, *a, **k): return self.lo
    def max(self, *a, **k): return self.hi

    def _side(self, side):
        if side not in ("left", "right"):
            raise Untraceable(f"slice bound side {side!r}")
        return side == "right"

    def get_slice_bound(self, label, side, *a, **k):
        return SInt(("bound", self._side(side), ZSym.lift(label), self.axis))

    def searchsorted(self, value, side="left", sorter=None):
        return SInt(("bound", self._side(side), ZSym.lift(value), self.axis))

    @property
    def size(self):
        return SInt(("size", self.axis))

    def __len__(self):
        return _len_of(self.axis)


class _Map:
    """a mapping; `order` = the order in which its keys are listed (xarray lists coordinates / indexes in
    the order they were registered, which need not be the order of the dimensions)"""
    def __init__(self, d, order=None):
        self.d = {k: d[k] for k in order} if order is not None else d

    def __getitem__(self, k):
        if k not in self.d:
            raise KeyError(k)
        return self.d[k]

    def __contains__(self, k): return k in self.d
    def get(self, k, default=None): return self.d.get(k, default)
    def keys(self): return self.d.keys()
    def items(self): return self.d.items()
    def values(self): return self.d.values()
    def __iter__(self): return iter(self.d)
    def __len__(self): return len(self.d)


class SData:
    def __init__(self):
        self.writes = []

    def __setitem__(self, key, value):
        self.writes.append((key, value))

    def __getitem__(self, key):
        raise Untraceable("set_value_at_pos reads the data")


class SArray:
    """an array with dimensions d0 … d(n-1), each an increasing axis with range (lo_k, hi_k)"""
    def __init__(self, n, sy, attrs=None):
        self._made = (n, sy, attrs)
        self.copy_of = None
        self.ndim = n
        self.dims = tuple(f"d{k}" for k in range(n))
        idx = {f"d{k}": SIndex(k, sy[f"lo{k}"], sy[f"hi{k}"], attrs) for k in range(n)}
        # registration order of the coordinates != order of the dimensions (rotated: no axis keeps its place)
        order = list(self.dims[1:]) + list(self.dims[:1])
        self.indexes = _Map(idx, order)
        self.coords = _Map(idx, order)
        self.sizes = _Map({f"d{k}": SInt(("size", k)) for k in range(n)})
        self.shape = tuple(SInt(("size", k)) for k in range(n))
        self.data = SData()
        self.attrs = {}

    @property
    def values(self):
        return self.data

    def __getitem__(self, k):
        return self.coords[k]

    def get_axis_num(self, dim):
        if isinstance(dim, str):
            if dim not in self.dims:
                raise ValueError(f"{dim!r} not found in array dimensions {self.dims!r}")
            return self.dims.index(dim)
        return tuple(self.get_axis_num(d) for d in dim)

    def get_index(self, key):
        return self.indexes[key]

    def copy(self, deep=True, data=None):
        """`array.copy()`: the same array as a new object holding what was written so far"""
        if data is not None:
            raise Untraceable("copy(data=...) of the array")
        new = SArray(*self._made)
        new.copy_of = self.copy_of or self
        new.data.writes = list(self.data.writes)
        return new

    def __len__(self):
        return _len_of(0)


def index_ties(ctx):
    from soundevent.arrays import dimensions as dims
    V = ["lo0", "hi0", "v"]
    sy = {n: ZSym.var(n) for n in V}
    ret = f"Except {A}AErr {A}IdxPlan"
    modes = (("raise", {"raise_error": True}, True), ("clamp", {"raise_error": False}, False), ("default", {}, True))
    for tag, kw, raise_ in modes:
        name = f"ext_index_kernel_{tag}"
        sym_tie(ctx, name, lambda kw=kw: dims.get_coord_index(SArray(1, sy), "d0", sy["v"], **kw), V, ret,
                f"{A}indexKernel lo0 hi0 v {_bool(raise_)}", lambda r: f".ok {_plan(r)}",
                tactic=f"unfold {name}\n  se_c16", meta={"op": "coord_index"})
    # call forms: everything positional in the documented order, everything by keyword
    sym_tie(ctx, "ext_index_kernel_pos", lambda: dims.get_coord_index(SArray(1, sy), "d0", sy["v"], False), V, ret,
            f"{A}indexKernel lo0 hi0 v false", lambda r: f".ok {_plan(r)}",
            tactic="unfold ext_index_kernel_pos\n  se_c16", meta={"op": "coord_index"})
    sym_tie(ctx, "ext_index_kernel_kw",
            lambda: dims.get_coord_index(raise_error=False, value=sy["v"], dim="d0", arr=SArray(1, sy)), V, ret,
            f"{A}indexKernel lo0 hi0 v false", lambda r: f".ok {_plan(r)}",
            tactic="unfold ext_index_kernel_kw\n  se_c16", meta={"op": "coord_index"})
    # … on an axis as the range constructors build it (carries a `step` attribute; the range of the axis is
    # still that of its coordinates)
    Vs = V + ["step"]
    sys_ = {x: ZSym.var(x) for x in Vs}
    for tag, kw, raise_ in modes[:2]:
        name = f"ext_index_kernel_stepattr_{tag}"
        sym_tie(ctx, name,
                lambda kw=kw: dims.get_coord_index(SArray(1, sys_, {"step": sys_["step"]}), "d0", sys_["v"], **kw),
                Vs, ret, f"{A}indexKernel lo0 hi0 v {_bool(raise_)}", lambda r: f".ok {_plan(r)}",
                tactic=f"unfold {name}\n  se_c16", meta={"op": "coord_index_dim"})
    # … and on an axis whose coordinate also carries `start` / `stop` attributes (what extend_dim / set_dim_attrs
    # leave there, possibly stale): arbitrary numbers a0, a1 - the range of the lookup is that of the coordinates
    Va = V + ["step", "a0", "a1"]
    sya = {x: ZSym.var(x) for x in Va}
    for tag, kw, raise_ in modes[:2]:
        name = f"ext_index_kernel_rangeattrs_{tag}"
        sym_tie(ctx, name,
                lambda kw=kw: dims.get_coord_index(
                    SArray(1, sya, {"step": sya["step"], "start": sya["a0"], "stop": sya["a1"]}), "d0", sya["v"], **kw),
                Va, ret, f"{A}indexKernel lo0 hi0 v {_bool(raise_)}", lambda r: f".ok {_plan(r)}",
                tactic=f"unfold {name}\n  se_c16", meta={"op": "coord_index_derived"})
    # the same lookup on every axis of a 2-D and a 3-D array: whatever the array is asked for (range, size,
    # slice bound) has to be that of the queried axis
    for n in (2, 3):
        Vn = [f"{p}{k}" for k in range(n) for p in ("lo", "hi")] + ["v"]
        syn = {x: ZSym.var(x) for x in Vn}
        for k in range(n):
            for tag, kw, raise_ in (modes if n == 2 else modes[1:2]):
                name = f"ext_index_kernel_{n}d_{k}_{tag}"
                sym_tie(ctx, name, lambda kw=kw, n=n, k=k, syn=syn: dims.get_coord_index(SArray(n, syn), f"d{k}", syn["v"], **kw),
                        Vn, ret, f"{A}indexKernel lo{k} hi{k} v {_bool(raise_)}", lambda r, k=k: f".ok {_plan(r, k)}",
                        tactic=f"unfold {name}\n  se_c16", meta={"op": "coord_index_nd"})


VALUE = object()


def _orders(n):
    """every query: an ordered selection of distinct axes"""
    import itertools
    for r in range(0, n + 1):
        for sub in itertools.combinations(range(n), r):
            for perm in itertools.permutations(sub):
                yield perm


def set_ties(ctx, max_ndim=3):
    from soundevent.arrays import operations as ops
    for n in range(1, max_ndim + 1):
        V = [f"{p}{k}" for k in range(n) for p in ("lo", "hi", "q")]
        sy = {v: ZSym.var(v) for v in V}
        ranges = "[" + ", ".join(f"(lo{k}, hi{k})" for k in range(n)) + "]"
        ret = f"Except {A}AErr {A}IndexerPlan"

        def thunk(query, kw=False):
            def run():
                arr = SArray(n, sy)
                out = ops.set_value_at_pos(array=arr, value=VALUE, **query) if kw else ops.set_value_at_pos(arr, VALUE, **query)
                # the array returned carries the write: the array given (written in place, as the docstring says)
                # or a copy of it; the array given holds the same write or none at all
                if not isinstance(out, SArray) or (out is not arr and out.copy_of is not arr):
                    raise Untraceable("set_value_at_pos returns neither the array it was given nor a copy of it")
                if out is not arr and arr.data.writes and arr.data.writes != out.data.writes:
                    raise Untraceable("the array given and the copy returned were written differently")
                return out.data.writes
            return run

        def leaf(writes):
            if len(writes) != 1:
                raise Untraceable(f"{len(writes)} writes into the data instead of one")
            key, value = writes[0]
            if value is not VALUE:
                raise Untraceable("the value written is not the value given")
            key = key if isinstance(key, tuple) else (key,)
            if len(key) != n:
                raise Untraceable("the indexer does not have one entry per dimension")
            ents = []
            for e in key:
                if isinstance(e, slice):
                    if (e.start, e.stop, e.step) != (None, None, None):
                        raise Untraceable("a partial slice in the indexer")
                    ents.append("none")
                elif isinstance(e, SInt) and e.base[0] == "bound":
                    ents.append(f"some ({e.base[3]}, {e.lean()})")
                else:
                    raise Untraceable(f"indexer entry {e!r}")
            return ".ok [" + ", ".join(ents) + "]"

        queries = list(_orders(n))
        for perm in queries:
            tag = f"{n}d_" + ("".join(str(k) for k in perm) or "none")
            name = f"ext_set_kernel_{tag}"
            q = {f"d{k}": sy[f"q{k}"] for k in perm}
            model = f"{A}setKernel {ranges} [" + ", ".join(f"({k}, q{k})" for k in perm) + "]"
            sym_tie(ctx, name, thunk(q), V, ret, model, leaf,
                    tactic=f"unfold {name}\n  se_c16", meta={"op": "set_value"})
        # the array and the value by keyword
        if n == 2:
            name = "ext_set_kernel_2d_10_kw"
            sym_tie(ctx, name, thunk({"d1": sy["q1"], "d0": sy["q0"]}, kw=True), V, ret,
                    f"{A}setKernel {ranges} [(1, q1), (0, q0)]", leaf, tactic=f"unfold {name}\n  se_c16", meta={"op": "set_value"})
        # a dimension the array does not have
        name = f"ext_set_kernel_{n}d_unknown"
        sym_tie(ctx, name, thunk({"nope": sy["q0"]}), V, ret, f"{A}setKernel {ranges} [({n}, q0)]", leaf,
                tactic=f"unfold {name}\n  se_c16", meta={"op": "set_value"})
