"""C20: the live objects of a rasterize request and the ways they can legitimately be built and passed.

A request (JSON, exact rationals) says *what* is rasterised; the optional keys below say *how* the Python
objects are made and handed over (HISTORIES.md section 2).  None of them changes what the property pins, so the
model never sees them: every construction path must give the raster of the plain request.

  template   time_dtype / freq_dtype : "int64" | "int32" - integral coordinates stored as integers (an integer index)
             time_via / freq_via : "array" (create_*_dim_from_array, no step attribute - the default),
                                   "array_step" (the same with the axis step stored in the 'step' attribute),
                                   "range" (create_time_range / create_frequency_range from <axis>_range =
                                   [start, stop, step] or {"samplerate": n}: numpy.arange inside, 'step' attribute),
                                   "plain" (a bare numpy array as coordinate: no attributes at all)
             tpl_how             : None | "transposed" (built in the other dimension order, then .transpose) |
                                   "isel" (cut out of a larger template) | "coords_rev" (coordinates registered in
                                   the opposite order to the dimensions) | "extra_coords" (a scalar coordinate and a
                                   non-index coordinate along time) | "int_data" (integer contents)
  geometries geom_build          : "validate" (geometry_validate on a dict, the default) | "ctor" (class
                                   constructor) | "ctor_tuple" (coordinates as tuples) | "ints" (integral coordinates
                                   given as int) | "np" (numpy float64 scalars) | "json" (model_validate_json) |
                                   "copy" (model_copy(deep=True) of a validated object) | "revalidate"
                                   (model_validate(model_dump()))
             geoms_seq           : "list" | "tuple"
  call       call_as             : "kw" (default) | "kw_all" (geometries= / array= too, reversed keyword order) |
                                   ["pos", k] (the first k optional parameters positionally, in the documented order
                                   values, fill, dtype, xdim, ydim, all_touched)
             fill_np / at_np     : fill as numpy scalar / all_touched as numpy.bool_
             dims_as             : "str" | "enum" (xdim / ydim given as arrays.Dimensions members)

The coordinates the model works with are the request's `time` / `freq`; `template` guarantees that the template
carries exactly those (a constructor of the library that would produce other numbers is bypassed: what a range
constructor produces is C16's subject, not C20's).
"""
from .rat import frac
from .axis_common import fl
from . import gen_geom

# the documented order of rasterize's optional parameters and the documented defaults (the model's table:
# SE.Raster.paramOrder / defaultValue / defaultFill / defaultAllTouched / defaultXDim / defaultYDim; the
# signature is tied to that table by the obligations `rasterize_defaults` and `rasterize_params`)
OPTIONAL_ORDER = ("values", "fill", "dtype", "xdim", "ydim", "all_touched")
GEOM_BUILDS = ("validate", "ctor", "ctor_tuple", "ints", "np", "json", "copy", "revalidate")
TPL_HOWS = (None, "transposed", "isel", "coords_rev", "extra_coords", "int_data")
AXIS_VIAS = ("array", "array_step", "range", "plain")


_FL = {}


def floats(xs):
    """the request's exact rational strings as floats (memoised: the same axis is used by many requests)"""
    key = tuple(xs)
    if key not in _FL:
        if len(_FL) > 4000:
            _FL.clear()
        _FL[key] = fl(xs)
    return list(_FL[key])


def num(x):
    """a value / fill of the request: ints stay ints, rational strings become floats"""
    return x if isinstance(x, int) else float(frac(x))


# ------------------------------------------------------------------ template
def _axis_step(vals):
    """the common step of a regular axis as a float (None for irregular / single-bin axes)"""
    if len(vals) < 2:
        return None
    return vals[1] - vals[0]


def axis_variable(inp, which):
    """the coordinate variable of one axis (which = "time" | "freq"), carrying exactly the request's numbers"""
    import numpy as np
    from soundevent import arrays
    vals = np.array(floats(inp[which]), dtype=float)
    cdt = inp.get(which + "_dtype")          # "int64" / "int32": integral coordinates stored as integers
    if cdt and bool((vals == np.round(vals)).all()):
        vals = vals.astype(cdt)
    via = inp.get(which + "_via") or "array"
    from_array = arrays.create_time_dim_from_array if which == "time" else arrays.create_frequency_dim_from_array
    if via == "plain":
        return vals
    if via == "array":
        return from_array(vals)
    step = inp.get(which + "_step")
    step = float(frac(step)) if step is not None else _axis_step(list(vals))
    if via == "range":
        spec = inp.get(which + "_range")
        var = None
        try:
            if isinstance(spec, dict):                   # {"start":, "stop":, "samplerate": n}: time axes only
                var = arrays.create_time_range(float(frac(spec["start"])), float(frac(spec["stop"])),
                                               samplerate=spec["samplerate"])
            elif spec is not None:
                a, b, s = (float(frac(x)) for x in spec)
                var = (arrays.create_time_range(a, b, step=s) if which == "time"
                       else arrays.create_frequency_range(a, b, step=s))
        except Exception:  # noqa: BLE001 - the range constructor is not C20's subject
            var = None
        if var is not None and var.values.shape == vals.shape and bool((var.values == vals).all()):
            return var
        # the range constructor gives other numbers than the request records (or is gone): same attributes by hand
    if step is None:
        return from_array(vals)
    return from_array(vals, step=step)


def template(inp):
    """the template DataArray of the request"""
    import numpy as np
    import xarray as xr
    how = inp.get("tpl_how")
    t_len, f_len = len(inp["time"]), len(inp["freq"])
    tv, fv = axis_variable(inp, "time"), axis_variable(inp, "freq")
    lead = {"time": 0, "frequency": 0}
    if how == "isel":
        # cut out of a larger template: two more bins before and one after on each axis
        tv, lead["time"] = _padded(inp, "time", tv)
        fv, lead["frequency"] = _padded(inp, "freq", fv)
    rs = np.random.RandomState(inp.get("contents", 0))
    dims = ["time", "frequency"] if inp["time_first"] else ["frequency", "time"]
    extra = inp.get("extra_dim")          # position of a third dimension ("channel", 2 entries, no coordinate), or None
    if extra is not None:
        dims.insert(extra, "channel")
    size = {"time": len(tv), "frequency": len(fv), "channel": 2}
    build_dims = list(reversed(dims)) if how == "transposed" else dims
    data = rs.uniform(-5, 5, size=tuple(size[d] for d in build_dims))
    if inp.get("contents", 0) == 0:
        data = np.zeros_like(data)
    if how == "int_data":
        data = np.round(data).astype("int16")
    coords = {"time": tv, "frequency": fv}
    if how == "coords_rev":
        coords = {"frequency": fv, "time": tv}
    if how == "extra_coords":
        coords["site"] = "A"
        coords["frame"] = ("time", np.arange(len(tv)))
    arr = xr.DataArray(data, dims=tuple(build_dims), coords=coords, attrs={"kind": "template"})
    if how == "transposed":
        arr = arr.transpose(*dims)
    if how == "isel":
        arr = arr.isel(time=slice(lead["time"], lead["time"] + t_len),
                       frequency=slice(lead["frequency"], lead["frequency"] + f_len))
    return arr


def _padded(inp, which, var):
    import numpy as np
    import xarray as xr
    vals = np.asarray(var.values if hasattr(var, "values") else var)
    step = (vals[1] - vals[0]) if len(vals) > 1 else vals.dtype.type(1)
    more = np.concatenate([[vals[0] - 2 * step, vals[0] - step], vals, [vals[-1] + step]]).astype(vals.dtype)
    if isinstance(var, xr.Variable):
        return xr.Variable(dims=var.dims, data=more, attrs=dict(var.attrs)), 2
    return more, 2


def template_snapshot(arr):
    """what of the template determines the answer of a later call: the dimensions and the time / frequency
    coordinates (the contents and the attributes are not pinned by the property and are left alone)"""
    import numpy as np
    return {"dims": [str(getattr(d, "value", d)) for d in arr.dims], "shape": list(arr.shape),
            "time": np.asarray(arr.coords["time"].values).tolist(),
            "frequency": np.asarray(arr.coords["frequency"].values).tolist()}


# ------------------------------------------------------------------ geometries
def _deep(c, leaf, seq):
    if isinstance(c, list):
        return seq(_deep(x, leaf, seq) for x in c)
    return leaf(c)


def geometry(gj, build="validate"):
    """JSON geometry -> soundevent geometry object, by one of the construction paths"""
    import json
    import numpy as np
    from soundevent import data
    ty = gj["type"]
    cf = gen_geom.coords_float(gj)
    if build == "validate" or build is None:
        return gen_geom.to_data(gj)
    cls = getattr(data, ty)
    if build == "ctor":
        return cls(coordinates=cf)
    if build == "ctor_tuple":
        return cls(coordinates=_deep(cf, float, tuple))
    if build == "ints":
        return cls(coordinates=_deep(cf, lambda x: int(x) if float(x).is_integer() else x, list))
    if build == "np":
        return cls(coordinates=_deep(cf, np.float64, list))
    if build == "json":
        return cls.model_validate_json(json.dumps({"type": ty, "coordinates": cf}))
    if build == "copy":
        return gen_geom.to_data(gj).model_copy(deep=True)
    if build == "revalidate":
        return cls.model_validate(gen_geom.to_data(gj).model_dump())
    raise ValueError(build)


def geometries(inp, geoms=None):
    gs = [geometry(g, inp.get("geom_build")) for g in (inp["geoms"] if geoms is None else geoms)]
    return tuple(gs) if inp.get("geoms_seq") == "tuple" else gs


def geometries_snapshot(gs):
    return [[g.type, repr(g.coordinates)] for g in gs]


# ------------------------------------------------------------------ the call
def dtype_arg(inp):
    import numpy as np
    dt = inp.get("dtype") or "float32"
    how = inp.get("dtype_as", "str")
    return {"str": dt, "np": np.dtype(dt), "type": np.dtype(dt).type}[how]


def values_arg(inp, vals):
    import numpy as np
    if isinstance(vals, list):
        vs = [num(v) for v in vals]
        if inp.get("values_np"):
            vs = [np.float64(v) if isinstance(v, float) else np.int64(v) for v in vs]
        return tuple(vs) if inp.get("values_tuple") else vs
    v = num(vals)
    if inp.get("values_np"):
        v = np.float64(v) if isinstance(v, float) else np.int64(v)
    return v


def optional_args(inp, all_touched=None, values=None):
    """the optional arguments the request gives, by name (absent / None = left to the signature's default)"""
    import numpy as np
    kw = {}
    vals = inp.get("values") if values is None else values
    if vals is not None:
        kw["values"] = values_arg(inp, vals)
    if inp.get("fill") is not None:
        f = num(inp["fill"])
        kw["fill"] = (np.float64(f) if isinstance(f, float) else np.int64(f)) if inp.get("fill_np") else f
    if inp.get("dtype") is not None:
        kw["dtype"] = dtype_arg(inp)
    at = inp.get("all_touched") if all_touched is None else all_touched
    if at is not None:
        kw["all_touched"] = np.bool_(at) if inp.get("at_np") else at
    if inp.get("dims_as"):
        from soundevent import arrays
        enum = inp["dims_as"] == "enum"
        kw["xdim"] = arrays.Dimensions.time if enum else "time"
        kw["ydim"] = arrays.Dimensions.frequency if enum else "frequency"
    return kw


def positional_split(inp, kw):
    """(positional tail, keyword rest) for call_as = ["pos", k]: the first k optional parameters of the
    documented order travel positionally.  A parameter the request leaves out but which precedes a positional one
    is given its documented default explicitly (which the model's default theorem says is the same call)."""
    import numpy as np
    how = inp.get("call_as")
    if not (isinstance(how, list) and how and how[0] == "pos"):
        return [], kw
    k = max(0, min(int(how[1]), len(OPTIONAL_ORDER)))
    documented = {"values": 1, "fill": 0, "dtype": np.float32, "xdim": "time", "ydim": "frequency", "all_touched": False}
    pos = [kw[name] if name in kw else documented[name] for name in OPTIONAL_ORDER[:k]]
    rest = {n: v for n, v in kw.items() if n not in OPTIONAL_ORDER[:k]}
    return pos, rest


def call(inp, gs, tpl, all_touched=None, values=None, kw=None):
    """the real call on live objects (kw: the optional arguments as live objects, default: made from the request)"""
    from soundevent.geometry import rasterize
    if kw is None:
        kw = optional_args(inp, all_touched=all_touched, values=values)
    pos, rest = positional_split(inp, kw)
    if inp.get("call_as") == "kw_all":
        rev = dict(reversed(list(rest.items())))
        return rasterize(**rev, array=tpl, geometries=gs)
    return rasterize(gs, tpl, *pos, **rest)
