"""Tag pools for the evaluation checks (C08): tags as *content*, not as opaque ids.

An abstract evaluation input (see `evalgen`) names tags by position in a pool.  Without a
`"tagpool"` entry that is the eight tags of `evalgen` (one deprecated `key=` term per tag, all
values different).  With

    inp["tagpool"] = [descriptor, ...]

position `i` is the tag `descriptor[i]`:

    {"term": {"label": .., "definition": .., "name": .., ["uri": ..,] ["type_of_term": ..]}, "value": ..}
    {"key": .., "value": ..}                         # the deprecated construction path

Every use of a pool tag builds a *new* `Tag` with a *new* `Term` (nothing can lean on object
identity).  What a tag *is* — the content the Lean model of the encoder compares — is read back
from the fields of such an object (`content`), never through `__eq__` / `__hash__` and never
through the library's encoder.
"""
import warnings

from .core import jkey

TERM_FIELDS = ["label", "definition", "name", "uri", "type_of_term", "comment", "see", "subproperty_of",
               "subclass_of", "domain", "domain_includes", "term_range", "range_includes", "member_of",
               "instance_of", "equivalent_property", "description", "scope_note"]

LEGACY = [{"key": ("species", "call", "site")[i % 3], "value": f"v{i}"} for i in range(8)]

_CONTENT = {}


def descriptors(inp):
    return inp["tagpool"] if inp.get("tagpool") is not None else LEGACY


def fresh(d):
    """descriptor -> a new real Tag (new Term object as well)"""
    from soundevent import data
    with warnings.catch_warnings():
        warnings.simplefilter("ignore")
        if "key" in d:
            return data.Tag(key=d["key"], value=d["value"])
        kw = {}
        for f, v in d["term"].items():
            if f == "extra":
                continue
            fi = data.Term.model_fields.get(f)
            kw[(fi.alias if fi is not None and fi.alias else f)] = v
        for k, v in d["term"].get("extra", []):
            kw[k] = v
        return data.Tag(term=data.Term(**kw), value=d["value"])


def read_back(tag):
    """real Tag -> full descriptor of the model (every declared term field, extras sorted); reads fields only"""
    t = tag.term
    term = {}
    for f in TERM_FIELDS:
        v = t.__dict__.get(f)
        term[f] = None if v is None else str(v)
    declared = set(type(t).model_fields)
    extra = dict(getattr(t, "__pydantic_extra__", None) or {})
    for f in declared - set(TERM_FIELDS):            # a field the model does not know yet: still part of equality
        extra["+" + f] = t.__dict__.get(f)
    term["extra"] = sorted([str(k), str(v)] for k, v in extra.items() if v is not None)
    return {"term": {k: v for k, v in term.items() if v is not None}, "value": str(tag.value)}


def content(d):
    k = jkey(d)
    if k not in _CONTENT:
        if len(_CONTENT) > 5000:
            _CONTENT.clear()
        _CONTENT[k] = read_back(fresh(d))
    return _CONTENT[k]


def ckey(d):
    """canonical text of a tag's content: equal texts <=> field-equal term and equal value"""
    return jkey(content(d))


def model_pool(inp):
    return [content(d) for d in descriptors(inp)]


def dedupe_ids(pool, ids):
    """drop ids whose tag content equals that of an earlier id (a vocabulary is a list of distinct tags)"""
    seen, out = set(), []
    for i in ids:
        k = ckey(pool[i])
        if k not in seen:
            seen.add(k)
            out.append(i)
    return out


# ------------------------------------------------------------------ adversarial pools
def term(label, name, definition="d", **opt):
    d = {"label": label, "definition": definition, "name": name, "type_of_term": "property"}
    d.update({k: v for k, v in opt.items() if v is not None})
    return d


T_GBIF = term("taxon", "gbif:taxon")
T_EBIRD = term("taxon", "ebird:taxon")                           # same label, other name
T_LABEL = term("Taxon", "gbif:taxon")                            # same name (same hash), other label
T_URI = term("taxon", "gbif:taxon", uri="http://rs.gbif.org/taxon")   # differs in the uri only
T_DEF = term("taxon", "gbif:taxon", definition="Taxon in the GBIF backbone")   # differs in the definition only
T_KEYLIKE = term("taxon", "soundevent:taxon", definition="Unknown")   # what `key="taxon"` produces, spelled out
T_CLASS = term("taxon", "gbif:taxon", type_of_term="class")      # differs in the type only
T_CALL = term("call", "x:call")
TERMS = [T_GBIF, T_EBIRD, T_LABEL, T_URI, T_DEF, T_KEYLIKE, T_CLASS, T_CALL]
VALUES = ["Turdus", "Parus", "turdus", ""]


def gen_pool(rng, n=8):
    """`n` tag descriptors crowded around a few terms that share label / name / differ in one field, under one
    or two values; equal contents at different positions and the deprecated `key=` spelling included"""
    r = rng.random()
    terms = rng.sample(TERMS, rng.choice([2, 3, 4, 8])) if r < 0.8 else [T_GBIF, T_EBIRD]
    values = rng.sample(VALUES, rng.choice([1, 1, 2, 3]))
    out = []
    for _ in range(n):
        q = rng.random()
        if q < 0.12 and out:
            out.append(dict(rng.choice(out)))                    # the same content once more
        elif q < 0.22:
            out.append({"key": "taxon", "value": rng.choice(values)})
        else:
            out.append({"term": dict(rng.choice(terms)), "value": rng.choice(values)})
    return out


# the seeded-change scenario: three classes, two of which differ only in the name of the term
TAXA = [{"term": T_GBIF, "value": "Turdus"}, {"term": T_GBIF, "value": "Parus"}, {"term": T_EBIRD, "value": "Turdus"},
        {"term": T_URI, "value": "Turdus"}, {"term": T_LABEL, "value": "Turdus"}, {"key": "taxon", "value": "Turdus"},
        {"term": T_KEYLIKE, "value": "Turdus"}, {"term": T_DEF, "value": "Parus"}]
