"""Tag pools for the evaluation checks (C08): tags as *content*, not as opaque ids.

An abstract evaluation input (see `evalgen`) names tags by position in a pool.  Without a
`"tagpool"` entry that is the eight tags of `evalgen` (one deprecated `key=` term per tag, all
values different).  With

    inp["tagpool"] = [descriptor, ...]

position `i` is the tag `descriptor[i]`:

    {"term": {"label": .., "definition": .., "name": .., ["uri": ..,] ["type_of_term": ..]}, "value": ..}
    {"key": .., "value": ..}                         # the deprecated construction path

Every use of a pool tag builds a *new* `Tag` with a *new* `Term` (nothing can lean on object
identity).  What a tag *is* — the content the Lean model of the encoder compares — is read back
from the fields of such an object (`content`), never through `__eq__` / `__hash__` and never
through the library's encoder.
"""
import warnings

from .core import jkey

TERM_FIELDS = ["label", "definition", "name", "uri", "type_of_term", "comment", "see", "subproperty_of",
               "subclass_of", "domain", "domain_includes", "term_range", "range_includes", "member_of",
               "instance_of", "equivalent_property", "description", "scope_note"]

LEGACY = [{"key": ("species", "call", "site")[i % 3], "value": f"v{i}"} for i in range(8)]

_CONTENT = {}


def descriptors(inp):
    return inp["tagpool"] if inp.get("tagpool") is not None else LEGACY


# ---------------------------------------------------------------- construction variants (HISTORIES.md section 2)
# The *form* of a tag is how the Python object is made; it never changes what the tag is.  What counts as the same
# tag is decided from the unchanged code: `SimpleEncoder` keys on `(tag.term, tag.value)`, so the class of the Tag
# object (a subclass of `data.Tag`, with or without a field of its own) and the way it was made (constructor,
# `model_validate`, `model_copy`) do not matter, and neither does the identity of the Term object.  The class of the
# *Term* object does matter today (pydantic's `__eq__` demands equal classes): a term of a Term subclass is another
# term than the plain Term with the same fields.  It is therefore part of the descriptor (`"termcls"`), i.e. of the
# content (`read_back` records it), not a form.  Whether that is intended is not for the evaluation checks to pin:
# generators give all descriptors with the same term fields the same `termcls` within one pool.
FORMS = ["plain", "sub", "subx", "validate", "validate_obj", "copy", "deepcopy", "update"]
TERM_MODES = ["fresh", "shared", "cross"]
TERM_CLASSES = ["sub", "subx"]
_CLASSES = {}


def classes():
    """subclasses of data.Tag / data.Term as a project would define them (made once per process)"""
    if not _CLASSES:
        from typing import Optional
        from soundevent import data

        class SubTag(data.Tag):
            """a Tag with a convenience constructor, no field of its own"""

            @classmethod
            def of(cls, term, value):
                return cls(term=term, value=value)

        class SubTagX(data.Tag):
            """a Tag with a field of its own"""
            note: Optional[str] = None

        class SubTerm(data.Term):
            pass

        class SubTermX(data.Term):
            rank: Optional[str] = None
        _CLASSES.update(SubTag=SubTag, SubTagX=SubTagX, SubTerm=SubTerm, SubTermX=SubTermX)
    return _CLASSES


def _term_kwargs(d):
    from soundevent import data
    kw = {}
    for f, v in d["term"].items():
        if f == "extra":
            continue
        fi = data.Term.model_fields.get(f)
        kw[(fi.alias if fi is not None and fi.alias else f)] = v
    for k, v in d["term"].get("extra", []):
        kw[k] = v
    return kw


def fresh_term(d):
    """descriptor -> a new Term object of the class the descriptor names (None for the deprecated `key=` path)"""
    from soundevent import data
    if "key" in d:
        return None
    cls = {None: data.Term, "sub": classes()["SubTerm"], "subx": classes()["SubTermX"]}[d.get("termcls")]
    return cls(**_term_kwargs(d))


def fresh(d, form=None, term=None):
    """descriptor -> a new real Tag (new Term object as well, unless `term` hands over a live Term object with
    the descriptor's term content).  `form` (one of FORMS, default the plain constructor) is how the object is made."""
    from soundevent import data
    with warnings.catch_warnings():
        warnings.simplefilter("ignore")
        if form in (None, "plain") and term is None:
            if "key" in d:
                return data.Tag(key=d["key"], value=d["value"])
            return data.Tag(term=fresh_term(d), value=d["value"])
        if term is None:
            term = data.Tag(key=d["key"], value=d["value"]).term if "key" in d else fresh_term(d)
        value = d["value"]
        C = classes()
        if form in (None, "plain"):
            return data.Tag(term=term, value=value)
        if form == "sub":
            return C["SubTag"].of(term, value)
        if form == "subx":
            return C["SubTagX"](term=term, value=value, note="n")
        if form == "validate":          # from a dictionary; the term as a dictionary of its set fields where that
            if type(term) is data.Term:  # keeps the content (aliases), else the object
                td = {(data.Term.model_fields[f].alias or f) if f in data.Term.model_fields else f: v
                      for f, v in {**{f: term.__dict__[f] for f in term.model_fields_set if f in term.__dict__},
                                   **(term.__pydantic_extra__ or {})}.items()}
                return data.Tag.model_validate({"term": td, "value": value})
            return data.Tag.model_validate({"term": term, "value": value})
        if form == "validate_obj":
            return data.Tag.model_validate({"term": term, "value": value})
        if form == "copy":
            return data.Tag(term=term, value=value).model_copy()
        if form == "deepcopy":
            return data.Tag(term=term, value=value).model_copy(deep=True)
        if form == "update":            # a tag of another value, revised
            return data.Tag(term=term, value=value + "~").model_copy(update={"value": value})
        raise ValueError(f"unknown tag form {form!r}")


class Maker:
    """builds the tags of one call.  `spec` (optional): {"vocab" | "ann" | "pred": form} how the Tag objects of the
    vocabulary / the annotations / the predictions are made (FORMS) and {"vocab_term" | "ann_term" | "pred_term": mode}
    where their Term objects come from: "fresh" a new Term per tag; "shared" one Term object per term content for all
    tags of this call made that way; "cross" (annotations / predictions) the *Term object of a vocabulary tag* with
    the same term content, preferably one whose value differs (the vocabulary must have been built before)."""

    def __init__(self, descs, spec=None):
        self.descs, self.spec = descs, spec or {}
        self._shared, self._vocab = {}, []

    def _tkey(self, d):
        return jkey(content(d)["term"])

    def make(self, role, t):
        d = self.descs[t]
        form, mode = self.spec.get(role), self.spec.get(role + "_term")
        term = None
        if mode == "shared":
            term = self._shared.get(self._tkey(d))
        elif mode == "cross" and role != "vocab":
            k = self._tkey(d)
            cands = [(tg, v) for (tk, v, tg) in self._vocab if tk == k]
            other = [tg for tg, v in cands if v != str(d["value"])]
            if cands:
                term = (other or [tg for tg, _ in cands])[0].term
        tag = fresh(d, form, term)
        if mode == "shared" and term is None:
            self._shared[self._tkey(d)] = tag.term
        if role == "vocab":
            self._vocab.append((self._tkey(d), str(d["value"]), tag))
        return tag

    def vocab(self, ids):
        return [self.make("vocab", t) for t in ids]


def read_back(tag):
    """real Tag -> full descriptor of the model (every declared term field, extras sorted); reads fields only"""
    t = tag.term
    term = {}
    for f in TERM_FIELDS:
        v = t.__dict__.get(f)
        term[f] = None if v is None else str(v)
    declared = set(type(t).model_fields)
    extra = dict(getattr(t, "__pydantic_extra__", None) or {})
    for f in declared - set(TERM_FIELDS):            # a field the model does not know yet: still part of equality
        extra["+" + f] = t.__dict__.get(f)
    if type(t).__name__ != "Term":                   # a Term subclass: another term for `__eq__` (see FORMS)
        extra["+class"] = type(t).__name__
    term["extra"] = sorted([str(k), str(v)] for k, v in extra.items() if v is not None)
    return {"term": {k: v for k, v in term.items() if v is not None}, "value": str(tag.value)}


def content(d):
    k = jkey(d)
    if k not in _CONTENT:
        if len(_CONTENT) > 5000:
            _CONTENT.clear()
        _CONTENT[k] = read_back(fresh(d))
    return _CONTENT[k]


def ckey(d):
    """canonical text of a tag's content: equal texts <=> field-equal term and equal value"""
    return jkey(content(d))


def model_pool(inp):
    return [content(d) for d in descriptors(inp)]


def dedupe_ids(pool, ids):
    """drop ids whose tag content equals that of an earlier id (a vocabulary is a list of distinct tags)"""
    seen, out = set(), []
    for i in ids:
        k = ckey(pool[i])
        if k not in seen:
            seen.add(k)
            out.append(i)
    return out


# ------------------------------------------------------------------ adversarial pools
def term(label, name, definition="d", **opt):
    d = {"label": label, "definition": definition, "name": name, "type_of_term": "property"}
    d.update({k: v for k, v in opt.items() if v is not None})
    return d


T_GBIF = term("taxon", "gbif:taxon")
T_EBIRD = term("taxon", "ebird:taxon")                           # same label, other name
T_LABEL = term("Taxon", "gbif:taxon")                            # same name (same hash), other label
T_URI = term("taxon", "gbif:taxon", uri="http://rs.gbif.org/taxon")   # differs in the uri only
T_DEF = term("taxon", "gbif:taxon", definition="Taxon in the GBIF backbone")   # differs in the definition only
T_KEYLIKE = term("taxon", "soundevent:taxon", definition="Unknown")   # what `key="taxon"` produces, spelled out
T_CLASS = term("taxon", "gbif:taxon", type_of_term="class")      # differs in the type only
T_CALL = term("call", "x:call")
TERMS = [T_GBIF, T_EBIRD, T_LABEL, T_URI, T_DEF, T_KEYLIKE, T_CLASS, T_CALL]
VALUES = ["Turdus", "Parus", "turdus", ""]


def gen_pool(rng, n=8):
    """`n` tag descriptors crowded around a few terms that share label / name / differ in one field, under one
    or two values; equal contents at different positions and the deprecated `key=` spelling included"""
    r = rng.random()
    terms = rng.sample(TERMS, rng.choice([2, 3, 4, 8])) if r < 0.8 else [T_GBIF, T_EBIRD]
    values = rng.sample(VALUES, rng.choice([1, 1, 2, 3]))
    out = []
    for _ in range(n):
        q = rng.random()
        if q < 0.12 and out:
            out.append(dict(rng.choice(out)))                    # the same content once more
        elif q < 0.22:
            out.append({"key": "taxon", "value": rng.choice(values)})
        else:
            out.append({"term": dict(rng.choice(terms)), "value": rng.choice(values)})
    return out


# the seeded-change scenario: three classes, two of which differ only in the name of the term
TAXA = [{"term": T_GBIF, "value": "Turdus"}, {"term": T_GBIF, "value": "Parus"}, {"term": T_EBIRD, "value": "Turdus"},
        {"term": T_URI, "value": "Turdus"}, {"term": T_LABEL, "value": "Turdus"}, {"key": "taxon", "value": "Turdus"},
        {"term": T_KEYLIKE, "value": "Turdus"}, {"term": T_DEF, "value": "Parus"}]
