"""C06, tie 1b for the whole of `compute_affinity`: symbolic traces in a rounding arithmetic.

The real `compute_affinity` (with the real `_prepare_geometry`, `buffer_geometry`, `buffer_timestamp`,
`compute_bounds`, the two type tables and the inline area formula) is executed on symbolic geometries of
every ordered type pair.  Numbers are `RSym`: every arithmetic operation wraps its result in `rnd`, so the
extracted decision tree records the *order of operations* as well (with `rnd = id` it is the exact
function).  Whatever shapely/GEOS computes appears as an atom of the model's parameter `G`:

    geometry_to_shapely(g)                     ->  G.ofGeom g
    buffer_shapely_geometry(shp(g), tb, fb)    ->  a geometry whose shape is  G.buffered g tb fb
    shp.area / shp1.intersection(shp2).area    ->  G.area x / G.inter x y
    shp.bounds                                 ->  (G.st x, _, G.en x, _); for a TimeStamp / TimeInterval /
                                                   BoundingBox the coordinates (contract `BoundsExact`,
                                                   checked exactly at run time)

`compute_affinity_in_time` is replaced by a marker that records the extents it is reached with (the function
itself is tied separately: `ext_time_iou`, `ext_time_iou_r`).  The obligation proves, for every `rnd`, every
`G`, all coordinates and buffers:   extracted = SE.Affinity.routeR rnd G g1 g2 tb fb.
"""
from . import symtrace as st
from .symtrace import Sym

TYPES = ("TimeStamp", "TimeInterval", "Point", "LineString", "Polygon", "BoundingBox", "MultiPoint",
         "MultiLineString", "MultiPolygon")

BINDERS = ("(t1 u1 f1 s1 l1 e1 h1 t2 u2 f2 s2 l2 e2 h2 tb fb : Rat) (p1 p2 : List SE.Pt) "
           "(q1 q2 : List (List SE.Pt)) (r1 r2 : List (List (List SE.Pt)))")
ARGS = "t1 u1 f1 s1 l1 e1 h1 t2 u2 f2 s2 l2 e2 h2 tb fb p1 p2 q1 q2 r1 r2"


class RSym(Sym):
    """a symbolic number of a rounding arithmetic: the result of every operation is `rnd (…)`.
    Hashable (by its expression), so that code which puts its arguments into the key of a cache can be traced; the
    state of the traced modules is put back after every path (`isolated`), so such a key never meets an equal one"""
    __slots__ = ()

    def __hash__(self):
        return hash(("RSym", self.e))

    def _bin(self, o, sym, fn, rev=False):
        o = Sym.lift(o)
        a, b = (o, self) if rev else (self, o)
        return RSym(f"(rnd ({a.e} {sym} {b.e}))", None)

    def __neg__(self):
        return RSym(f"(-{self.e})", None)


def rvar(name):
    return RSym(name, None)


class HSym(Sym):
    """an exact symbolic number that can be part of the key of a cache (see RSym)"""
    __slots__ = ()

    def __hash__(self):
        return hash(("HSym", self.e))


def hvar(name):
    return HSym(name, lambda env, n=name: env[n])


def isolated(run, *modules):
    """`run` with the mutable module-level state of the traced modules put back afterwards: what one symbolic path
    stores in a module-level dict (a cache) must not be seen by the next path or by the real calls that follow;
    `functools.lru_cache`s of the modules are emptied before and after"""
    def clear_lru():
        for m in modules:
            for n, v in list(vars(m).items()):
                cc = getattr(v, "cache_clear", None)
                if callable(cc) and not n.startswith("__"):
                    try:
                        cc()
                    except Exception:  # noqa: BLE001
                        pass

    def wrapped():
        snaps = [(v, dict(v)) for m in modules for n, v in list(vars(m).items())
                 if type(v).__name__ in ("dict", "OrderedDict", "defaultdict") and not n.startswith("__")]
        clear_lru()
        try:
            return run()
        finally:
            for v, old in snaps:
                try:
                    v.clear()
                    v.update(old)
                except Exception:  # noqa: BLE001
                    pass
            clear_lru()
    return wrapped


class CacheFriendly:
    """what a geometry stand-in offers to code that builds a cache key from its arguments: identity hashing and a
    serialisation that is unique per stand-in"""

    def model_dump_json(self, **kw):
        return f"<traced geometry {id(self)}>"

    def model_dump(self, **kw):
        return {"type": self.type, "coordinates": f"<traced coordinates {id(self)}>"}


def term(x):
    return x.e if isinstance(x, Sym) else st.lit(x)


class TGeom(CacheFriendly):
    """a traced geometry: `.type`, `.coordinates`, the Lean term of the geometry (`lean`) or of its shape"""

    def __init__(self, type, coordinates=None, lean=None, shape=None):
        self.type = type
        self.coordinates = coordinates
        self.lean = lean
        self.shape = shape


class _Opaque:
    """coordinates the code must not look into (lists of points of arbitrary length)"""

    def __init__(self, name):
        self.name = name

    def _no(self, *a, **k):
        raise st.Untraceable("the code inspects the coordinates of " + self.name)
    __iter__ = __getitem__ = __len__ = _no


class _AreaOnly:
    def __init__(self, area):
        self.area = area


class TShape:
    """a traced shapely geometry: the Lean term of a value of the model's `σ`"""

    def __init__(self, term_, src=None, bounds=None, maxf=5000000):
        self.term = term_
        self.src = src
        self._bounds = bounds
        self._maxf = maxf

    @property
    def area(self):
        return RSym(f"(G.area {self.term})", None)

    def intersection(self, other):
        return _AreaOnly(RSym(f"(G.inter {self.term} {other.term})", None))

    @property
    def bounds(self):
        if self._bounds is not None:
            return self._bounds
        return (RSym(f"(G.st {self.term})", None), 0, RSym(f"(G.en {self.term})", None), self._maxf)


class TimeLeaf:
    def __init__(self, *args):
        self.args = args


def make(ty, k):
    """the symbolic geometry of type `ty` on side `k` ("1" | "2")"""
    v = lambda n: rvar(n + k)  # noqa: E731
    if ty == "TimeStamp":
        return TGeom(ty, v("t"), f"(SE.Geom.timeStamp t{k})")
    if ty == "TimeInterval":
        return TGeom(ty, [v("t"), v("u")], f"(SE.Geom.timeInterval t{k} u{k})")
    if ty == "BoundingBox":
        return TGeom(ty, [v("s"), v("l"), v("e"), v("h")], f"(SE.Geom.boundingBox s{k} l{k} e{k} h{k})")
    if ty == "Point":
        return TGeom(ty, [v("t"), v("f")], f"(SE.Geom.point t{k} f{k})")
    name, ctor = {"LineString": ("p", "lineString"), "MultiPoint": ("p", "multiPoint"),
                  "MultiLineString": ("q", "multiLineString"), "Polygon": ("q", "polygon"),
                  "MultiPolygon": ("r", "multiPolygon")}[ty]
    return TGeom(ty, _Opaque(name + k), f"(SE.Geom.{ctor} {name}{k})")


def tracer(A, O, real_data, ty1, ty2, marker=True):
    """thunk running the real `compute_affinity` on symbolic geometries of the two types"""
    maxf = real_data.MAX_FREQUENCY
    tb, fb = rvar("tb"), rvar("fb")

    def to_shape(g):
        if not isinstance(g, TGeom):
            raise st.Untraceable("geometry_to_shapely of " + type(g).__name__)
        if g.shape is not None:
            return TShape(g.shape, maxf=maxf)
        t = f"(G.ofGeom {g.lean})"
        c = g.coordinates
        if g.type == "TimeStamp":
            return TShape(t, g, (c, 0, c, maxf), maxf)
        if g.type == "TimeInterval":
            return TShape(t, g, (c[0], 0, c[1], maxf), maxf)
        if g.type == "BoundingBox":
            return TShape(t, g, tuple(c), maxf)
        return TShape(t, g, None, maxf)

    class DataStub:
        MAX_FREQUENCY = maxf
        Geometry = real_data.Geometry
        Time = getattr(real_data, "Time", float)
        Frequency = getattr(real_data, "Frequency", float)

        @staticmethod
        def TimeInterval(coordinates):
            a, b = coordinates
            return TGeom("TimeInterval", [a, b], f"(SE.Geom.timeInterval {term(a)} {term(b)})")

        @staticmethod
        def BoundingBox(coordinates):
            c = list(coordinates)
            return TGeom("BoundingBox", c, "(SE.Geom.boundingBox %s)" % " ".join(term(x) for x in c))

    def buffer_marker(shp, time_buffer=0, freq_buffer=0, **kw):
        if kw or not isinstance(shp, TShape) or shp.src is None:
            raise st.Untraceable("buffer_shapely_geometry reached in an unforeseen way")
        return TGeom("Polygon", None, shape=f"(G.buffered {shp.src.lean} {term(time_buffer)} {term(freq_buffer)})")

    def time_marker(g1, g2):
        b1, b2 = A.compute_bounds(g1), A.compute_bounds(g2)
        return TimeLeaf(b1[0], b1[2], b2[0], b2[2])

    def run_():
        patches = [(O, "data", DataStub), (O, "geometry_to_shapely", to_shape),
                   (O, "buffer_shapely_geometry", buffer_marker), (A, "geometry_to_shapely", to_shape)]
        if marker:
            patches.append((A, "compute_affinity_in_time", time_marker))
        saved = [(m, n, getattr(m, n)) for m, n, _ in patches]      # a missing name: the trace fails (broken tie)
        for m, n, v in patches:
            setattr(m, n, v)
        try:
            return A.compute_affinity(make(ty1, "1"), make(ty2, "2"), time_buffer=tb, freq_buffer=fb)
        finally:
            for m, n, v in saved:
                setattr(m, n, v)
    return isolated(run_, A, O)


def _leaf(leaf):
    if leaf[0] != "ok":
        return "none"
    v = leaf[1]
    if isinstance(v, TimeLeaf):
        return "some (SE.Affinity.Route.time %s)" % " ".join(term(x) for x in v.args)
    if isinstance(v, bool) or not isinstance(v, (Sym, int, float)):
        raise st.Untraceable(f"compute_affinity returned a {type(v).__name__}")
    return f"some (SE.Affinity.Route.area {term(v)})"


def _tree(tree, indent):
    if tree[0] == "ite":
        pad = " " * indent
        return (f"if {tree[1][0]} then\n{pad}{_tree(tree[2], indent + 2)}\n"
                f"{' ' * (indent - 2)}else\n{pad}{_tree(tree[3], indent + 2)}")
    return _leaf(tree[1])


ROUTE_UNFOLD = ("SE.Affinity.routeR SE.Affinity.prepareR SE.Affinity.bufferGeometryR SE.Affinity.asPrep "
                "SE.Affinity.isTime SE.Affinity.timeBounds SE.Affinity.toShape SE.Affinity.Prep.tag SE.Geom.tag "
                "SE.Affinity.bufferTypes SE.Affinity.timeTypes SE.Affinity.iouCR").split()


def route_obligation(name, run, ty1, ty2):
    """(lean source, number of paths) of the obligation for one ordered type pair"""
    res = st.trace(run, catch=(ValueError,))
    tree = st.to_tree(res)
    body = _tree(tree, 4)
    g1, g2 = make(ty1, "1").lean, make(ty2, "2").lean
    src = (f"set_option linter.unusedVariables false in\n"
           f"def {name} {{σ : Type}} (rnd : Rat → Rat) (G : SE.Affinity.Geos σ) {BINDERS} :\n"
           f"    Option SE.Affinity.Route :=\n  {body}\n"
           f"set_option linter.unusedVariables false in\n"
           f"theorem {name}_tie {{σ : Type}} (rnd : Rat → Rat) (G : SE.Affinity.Geos σ) {BINDERS} :\n"
           f"    {name} rnd G {ARGS} = SE.Affinity.routeR rnd G {g1} {g2} tb fb := by\n"
           f"  unfold {name}\n"
           f"  by_cases hneg : tb < 0 ∨ fb < 0 <;>\n"
           f"    simp [hneg, {', '.join(ROUTE_UNFOLD)}] <;>\n    grind\n")
    return src, len(res)


FULL_UNFOLD = ROUTE_UNFOLD + ["SE.Affinity.affinityR", "SE.Affinity.affinityPR", "SE.Affinity.timeIoUR", "Except.toOption"]


def full_obligation(name, run, ty1, ty2):
    """the marker-free tie: the value of the whole function (real `compute_affinity_in_time` included) is
    `affinityR rnd G g1 g2 tb fb` — more paths, slower to elaborate"""
    res = st.trace(run, catch=(ValueError,))
    tree = st.to_tree(res)

    def leaf(lf):
        if lf[0] != "ok":
            return "none"
        v = lf[1]
        if isinstance(v, bool) or not isinstance(v, (Sym, int, float)):
            raise st.Untraceable(f"compute_affinity returned a {type(v).__name__}")
        return f"some {term(v)}"

    def tr(t, indent):
        if t[0] == "ite":
            pad = " " * indent
            return (f"if {t[1][0]} then\n{pad}{tr(t[2], indent + 2)}\n{' ' * (indent - 2)}else\n{pad}{tr(t[3], indent + 2)}")
        return leaf(t[1])
    g1, g2 = make(ty1, "1").lean, make(ty2, "2").lean
    src = (f"set_option linter.unusedVariables false in\n"
           f"def {name} {{σ : Type}} (rnd : Rat → Rat) (G : SE.Affinity.Geos σ) {BINDERS} : Option Rat :=\n"
           f"  {tr(tree, 4)}\n"
           f"set_option linter.unusedVariables false in\n"
           f"theorem {name}_tie {{σ : Type}} (rnd : Rat → Rat) (G : SE.Affinity.Geos σ) {BINDERS} :\n"
           f"    {name} rnd G {ARGS} = (SE.Affinity.affinityR rnd G {g1} {g2} tb fb).toOption := by\n"
           f"  unfold {name}\n"
           f"  by_cases hneg : tb < 0 ∨ fb < 0 <;>\n"
           f"    simp [hneg, {', '.join(FULL_UNFOLD)}] <;>\n    grind\n")
    return src, len(res)


def formula_obligation(name, run, variables, model_term, unfold):
    """a numeric kernel traced in the rounding arithmetic: `∀ rnd vars, name rnd vars = some (model rnd vars)`"""
    res = st.trace(run, catch=(ValueError,))
    tree = st.to_tree(res)

    def leaf(lf):
        if lf[0] != "ok":
            return "none"
        v = lf[1]
        if isinstance(v, bool) or not isinstance(v, (Sym, int, float)):
            raise st.Untraceable(f"returned a {type(v).__name__}")
        return f"some {term(v)}"

    def tr(t, indent):
        if t[0] == "ite":
            pad = " " * indent
            return (f"if {t[1][0]} then\n{pad}{tr(t[2], indent + 2)}\n{' ' * (indent - 2)}else\n{pad}{tr(t[3], indent + 2)}")
        return leaf(t[1])
    args = " ".join(variables)
    src = (f"def {name} (rnd : Rat → Rat) ({args} : Rat) : Option Rat :=\n  {tr(tree, 4)}\n"
           f"theorem {name}_tie (rnd : Rat → Rat) ({args} : Rat) : {name} rnd {args} = some ({model_term}) := by\n"
           f"  unfold {name} {unfold}\n  se_close\n")
    return src, len(res)


def buffer_obligation(name, O, real_data, ty):
    """`buffer_geometry` on a TimeStamp / TimeInterval / BoundingBox (buffer_timestamp, buffer_interval,
    buffer_bounding_box_geometry) in the rounding arithmetic = the model's `bufferGeometryR`"""
    maxf = real_data.MAX_FREQUENCY
    tb, fb = rvar("tb"), rvar("fb")

    class Rec:
        def __init__(self, coordinates):
            self.coordinates = list(coordinates)

    class DataStub:
        MAX_FREQUENCY = maxf
        Geometry = real_data.Geometry
        Time = getattr(real_data, "Time", float)
        Frequency = getattr(real_data, "Frequency", float)
        TimeInterval = staticmethod(lambda coordinates: Rec(coordinates))
        BoundingBox = staticmethod(lambda coordinates: Rec(coordinates))

    def run():
        saved = O.data
        O.data = DataStub
        try:
            out = O.buffer_geometry(make(ty, "1"), time_buffer=tb, freq_buffer=fb)
            if not isinstance(out, Rec):
                raise st.Untraceable("buffer_geometry returned a " + type(out).__name__)
            return out.coordinates
        finally:
            O.data = saved
    res = st.trace(isolated(run, O), catch=(ValueError,))
    tree = st.to_tree(res)

    def tr(t, indent):
        if t[0] == "ite":
            pad = " " * indent
            return (f"if {t[1][0]} then\n{pad}{tr(t[2], indent + 2)}\n{' ' * (indent - 2)}else\n{pad}{tr(t[3], indent + 2)}")
        if t[1][0] != "ok":
            return "none"
        return "some [" + ", ".join(term(x) for x in t[1][1]) + "]"
    src = (f"set_option linter.unusedVariables false in\n"
           f"def {name} (rnd : Rat → Rat) (t1 u1 s1 l1 e1 h1 tb fb : Rat) : Option (List Rat) :=\n  {tr(tree, 4)}\n"
           f"set_option linter.unusedVariables false in\n"
           f"theorem {name}_tie (rnd : Rat → Rat) (t1 u1 s1 l1 e1 h1 tb fb : Rat) :\n"
           f"    {name} rnd t1 u1 s1 l1 e1 h1 tb fb = SE.Affinity.bufferedCoordsR rnd {make(ty, '1').lean} tb fb := by\n"
           f"  unfold {name}\n"
           f"  by_cases hneg : tb < 0 ∨ fb < 0 <;>\n"
           f"    simp [hneg, SE.Affinity.bufferedCoordsR, SE.Affinity.bufferGeometryR, SE.MAXF] <;>\n    grind\n")
    return src, len(res)
